(** C09, tie (A): token kinds, keyword table, character dispatch of the scanner. *)
From Coq Require Import String ZArith.
From Borno Require Import Base Num Unicode Token Lexer Ast Parser Value Eval GenTables Tables.
Open Scope string_scope.

Lemma token_kinds_is_source : gen_token_kinds = (map tkind_name all_tkinds ++ ["EOF"])%list.
Proof. vm_compute. reflexivity. Qed.
Lemma keywords_is_source : gen_keywords = sort_kvs (map (fun kv => (fst kv, tkind_name (snd kv))) keywords).
Proof. vm_compute. reflexivity. Qed.
Lemma one_char_is_source : gen_one_char = one_char_table.
Proof. vm_compute. reflexivity. Qed.
Lemma two_char_is_source : gen_two_char = two_char_table.
Proof. vm_compute. reflexivity. Qed.
Lemma blanks_is_source : gen_blank_chars = [32; 13; 9]%N /\ gen_newline_chars = [10]%N /\ gen_quote_chars = [34]%N
                         /\ gen_comment_openers = [47; 47; 47; 42]%N.
Proof. vm_compute. repeat split; reflexivity. Qed.
Lemma alpha_is_source : gen_alpha_classes = ["unicode.IsLetter"; "unicode.IsMark"; "char:95"].
Proof. vm_compute. reflexivity. Qed.

(** the README's keyword table lists exactly the model's keywords other than [nil], code point for code point *)
Lemma documented_keywords_is_model :
  sort_strs ([110; 105; 108]%N :: gen_doc_keywords) = sort_strs (map fst keywords).
Proof. vm_compute. reflexivity. Qed.

(** a word is classified by looking its WHOLE lexeme up in the spelling table (not a prefix, a hash or a
    normalised form of it): the statements of [identifier()] after its scanning loop *)
Lemma word_classification_is_table_lookup :
  gen_word_classification =
  ["text := string(s.source[s.start:s.current])"; "if keyword, ok := keywords[text]; ok";
   "{ s.addToken(keyword) }"; "{ s.addToken(token.IDENTIFIER) }"]%string.
Proof. vm_compute. reflexivity. Qed.
