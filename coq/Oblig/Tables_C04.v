(** C04, tie (A): signals handled by a call and by the while arm (return propagates),
    the activation's parent, arity before arguments. *)
From Coq Require Import String ZArith.
From Borno Require Import Base Num Unicode Token Lexer Ast Parser Value Eval GenTables Tables.
Open Scope string_scope.

Lemma call_signals_is_source : gen_call_signals = call_signals_expected.
Proof. vm_compute. reflexivity. Qed.
Lemma call_scope_is_source : gen_call_scope = call_scope_expected.
Proof. vm_compute. reflexivity. Qed.
Lemma while_propagates_return : In "==ControlFlowReturn" (match assoc_s "While" gen_arm_signals with Some l => l | None => [] end).
Proof. vm_compute. tauto. Qed.
Lemma arity_before_arguments : assoc_s "Call" gen_eval_order = Some ["e.Callee@env"; "ARITY"; "arg@env"; "CALL"].
Proof. vm_compute. reflexivity. Qed.
