(** C01, tie (A): the precedence ladder, the prefix level, the suffix set and the
    assignment targets read from parser/parser.go equal the tables the model's parser is built on. *)
From Coq Require Import String ZArith.
From Borno Require Import Base Num Unicode Token Lexer Ast Parser Value Eval GenTables Tables.
Open Scope string_scope.

Lemma ladder_is_source : gen_ladder = map (fun l => (map tkind_name (fst l), snd l)) ladder.
Proof. vm_compute. reflexivity. Qed.
Lemma ladder_height : length gen_ladder_functions = length ladder.
Proof. vm_compute. reflexivity. Qed.
Lemma unary_is_source : gen_unary = (map tkind_name unary_ops, "unary", "call").
Proof. vm_compute. reflexivity. Qed.
Lemma assign_targets_is_source : gen_assign_targets = ["Identifier"; "ArrayAccess"; "PropertyAccess"].
Proof. vm_compute. reflexivity. Qed.
Lemma assign_right_assoc : gen_assign_value_parser = "assignment".
Proof. vm_compute. reflexivity. Qed.
Lemma suffixes_is_source : gen_suffix_openers = map tkind_name [TLEFT_PAREN; TLEFT_BRACKET; TDOT].
Proof. vm_compute. reflexivity. Qed.

(** the *published* ladder (grammer.txt) is the model's ladder: same levels, same operators per level,
    chained loosest to tightest, prefix operators between [**] and the call/suffix level *)
Lemma documented_ladder_is_model : doc_ladder_matches gen_doc_ladder ladder = true.
Proof. vm_compute. reflexivity. Qed.
Lemma documented_unary_is_model :
  gen_doc_unary = ["!"; "-"; "~"; "->call"] /\ all_some (map op_spelling ["!"; "-"; "~"]) = Some [TBANG; TMINUS; TNOT]
  /\ same_kinds [TBANG; TMINUS; TNOT] unary_ops = true.
Proof. vm_compute. repeat split; reflexivity. Qed.
