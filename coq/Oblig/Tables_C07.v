(** C07, tie (A): every node form has an arm in interpreter.eval (nothing falls into default). *)
From Coq Require Import String ZArith.
From Borno Require Import Base Num Unicode Token Lexer Ast Parser Value Eval GenTables Tables.
Open Scope string_scope.

Lemma eval_arms_is_source : gen_eval_arms = map fst eval_order_expected.
Proof. vm_compute. reflexivity. Qed.
