(** C05, tie (A): which control-flow signals each statement arm tests. *)
From Coq Require Import String ZArith.
From Borno Require Import Base Num Unicode Token Lexer Ast Parser Value Eval GenTables Tables.
Open Scope string_scope.

Lemma arm_signals_is_source : gen_arm_signals = arm_signals_expected.
Proof. vm_compute. reflexivity. Qed.
