(** C13, tie (A): the only iterations over Go maps left are the two listings, each followed by a sort. *)
From Coq Require Import String ZArith.
From Borno Require Import Base Num Unicode Token Lexer Ast Parser Value Eval GenTables Tables.
Open Scope string_scope.

Lemma map_ranges_is_source : gen_map_ranges = map_ranges_expected.
Proof. vm_compute. reflexivity. Qed.
