(** C14, tie (A): per arm of interpreter.eval, the order of the sub-evaluations. *)
From Coq Require Import String ZArith.
From Borno Require Import Base Num Unicode Token Lexer Ast Parser Value Eval GenTables Tables.
Open Scope string_scope.

Lemma eval_order_is_source : gen_eval_order = eval_order_expected.
Proof. vm_compute. reflexivity. Qed.
