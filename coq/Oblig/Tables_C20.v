(** C20, tie (A): the REPL resets both error flags after every line. *)
From Coq Require Import String ZArith.
From Borno Require Import Base Num Unicode Token Lexer Ast Parser Value Eval GenTables Tables.
Open Scope string_scope.

Lemma repl_resets_both : gen_repl_resets = ["utils.HadError=false"; "utils.HadRuntimeError=false"].
Proof. vm_compute. reflexivity. Qed.
