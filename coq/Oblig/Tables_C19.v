(** C19, tie (A): exit codes and the order of the two flag tests in main.go. *)
From Coq Require Import String ZArith.
From Borno Require Import Base Num Unicode Token Lexer Ast Parser Value Eval GenTables Tables.
Open Scope string_scope.

Lemma exits_is_source : gen_exits = exits_expected.
Proof. vm_compute. reflexivity. Qed.

(** the bodies of ক্লক and ইনপুট are the ones Model/Eval.v's [call_native] transcribes (Spec/NativeMechanism.v) *)
From Borno Require Import NativeMechanism.
Lemma native_bodies_match_C19 : pick io_natives gen_native_trace = pick io_natives native_trace_expected.
Proof. vm_compute. reflexivity. Qed.
