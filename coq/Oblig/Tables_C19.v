(** C19, tie (A): exit codes and the order of the two flag tests in main.go. *)
From Coq Require Import String ZArith.
From Borno Require Import Base Num Unicode Token Lexer Ast Parser Value Eval GenTables Tables.
Open Scope string_scope.

Lemma exits_is_source : gen_exits = exits_expected.
Proof. vm_compute. reflexivity. Qed.
