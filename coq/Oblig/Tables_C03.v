(** C03, tie (A): where scopes are allocated and what their parent is. *)
From Coq Require Import String ZArith.
From Borno Require Import Base Num Unicode Token Lexer Ast Parser Value Eval GenTables Tables.
Open Scope string_scope.

Lemma arm_scopes_is_source : gen_arm_scopes = arm_scopes_expected.
Proof. vm_compute. reflexivity. Qed.
Lemma call_scope_is_closure : gen_call_scope = call_scope_expected.
Proof. vm_compute. reflexivity. Qed.
