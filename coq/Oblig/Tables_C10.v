(** C10, tie (A): digit classification ranges and the transliteration table. *)
From Coq Require Import String ZArith.
From Borno Require Import Base Num Unicode Token Lexer Ast Parser Value Eval GenTables Tables.
Open Scope string_scope.

Lemma digit_ranges_is_source : gen_digit_ranges = [(48, 57); (2534, 2543)]%N.
Proof. vm_compute. reflexivity. Qed.
Lemma digit_ranges_is_model : forall c, is_digit c = existsb (fun r => (fst r <=? c)%N && (c <=? snd r)%N) gen_digit_ranges.
Proof. intro c. unfold is_digit. rewrite digit_ranges_is_source. cbn [existsb fst snd]. rewrite Bool.orb_false_r. reflexivity. Qed.
Lemma digit_table_is_source : gen_digit_table = bangla_digit_table.
Proof. vm_compute. reflexivity. Qed.
