(** C06, tie (A): the places where the Go code polls its runtime-error flag. *)
From Coq Require Import String ZArith.
From Borno Require Import Base Num Unicode Token Lexer Ast Parser Value Eval GenTables Tables.
Open Scope string_scope.

Lemma entry_poll_present : gen_entry_poll = true.
Proof. vm_compute. reflexivity. Qed.
Lemma call_poll_present : gen_call_poll = true.
Proof. vm_compute. reflexivity. Qed.

(** the whole error-flag mechanism around [eval], arm by arm, is the one Model/FlagEval.v transcribes
    (Spec/FlagMechanism.v): every sub-evaluation, poll, report, call, output and store, in source order *)
From Borno Require Import FlagMechanism.
Lemma arm_trace_matches : gen_arm_trace = arm_trace_expected.
Proof. vm_compute. reflexivity. Qed.
