(** C08, tie (A): reserved names, the parameter limit, statement dispatch, lenient
    consume sites, and the gate in main.go that keeps a rejected text from running. *)
From Coq Require Import String ZArith.
From Borno Require Import Base Num Unicode Token Lexer Ast Parser Value Eval GenTables Tables.
Open Scope string_scope.

Lemma reserved_is_source : gen_reserved = sort_strs reserved_names.
Proof. vm_compute. reflexivity. Qed.
Lemma max_params_is_source : gen_max_params = N.of_nat max_params.
Proof. vm_compute. reflexivity. Qed.
Lemma dispatch_is_source : gen_stmt_dispatch = stmt_dispatch_expected.
Proof. vm_compute. reflexivity. Qed.
Lemma lenient_is_source : gen_lenient_consumes = lenient_expected.
Proof. vm_compute. reflexivity. Qed.
Lemma front_gate_present : gen_front_gate = true.
Proof. vm_compute. reflexivity. Qed.
