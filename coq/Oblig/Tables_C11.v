(** C11, tie (A): no built-in appends onto (a slice of) its argument array. *)
From Coq Require Import String ZArith.
From Borno Require Import Base Num Unicode Token Lexer Ast Parser Value Eval GenTables Tables.
Open Scope string_scope.

Lemma no_append_onto_argument : gen_appends_onto_argument = [].
Proof. vm_compute. reflexivity. Qed.
