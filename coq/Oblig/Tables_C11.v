(** C11, tie (A): no built-in appends onto (a slice of) its argument array. *)
From Coq Require Import String ZArith.
From Borno Require Import Base Num Unicode Token Lexer Ast Parser Value Eval GenTables Tables.
Open Scope string_scope.

Lemma no_append_onto_argument : gen_appends_onto_argument = [].
Proof. vm_compute. reflexivity. Qed.

(** the bodies of লেন / এড / রিমুভ are the ones Model/Eval.v's [call_native] transcribes (Spec/NativeMechanism.v) *)
From Borno Require Import NativeMechanism.
Lemma native_bodies_match_C11 : pick array_natives gen_native_trace = pick array_natives native_trace_expected.
Proof. vm_compute. reflexivity. Qed.
