(** C17, tie (A): the registry of built-ins, their arities and labels. *)
From Coq Require Import String ZArith.
From Borno Require Import Base Num Unicode Token Lexer Ast Parser Value Eval GenTables Tables.
Open Scope string_scope.

Lemma natives_is_source : gen_natives = map (fun n => (native_name n, native_go_type n)) all_natives.
Proof. vm_compute. reflexivity. Qed.
Lemma arity_is_source :
  gen_native_arity = map (fun n => (native_go_type n, match native_arity n with Some k => Z.of_nat k | None => (-1)%Z end)) all_natives.
Proof. vm_compute. reflexivity. Qed.
Lemma label_is_source :
  gen_native_label = map (fun n => (native_go_type n, (([60;110;97;116;105;118;101;32;102;110] ++ native_label n ++ [62])%list)%N)) all_natives.
Proof. vm_compute. reflexivity. Qed.

(** the bodies of the nine mathematical built-ins are the ones Model/Eval.v's [call_native] transcribes (Spec/NativeMechanism.v) *)
From Borno Require Import NativeMechanism.
Lemma native_bodies_match_C17 : pick math_natives gen_native_trace = pick math_natives native_trace_expected.
Proof. vm_compute. reflexivity. Qed.
