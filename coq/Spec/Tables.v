(** Names and expected shapes used by the table obligations (tie A): how the
    model's tables are rendered in the vocabulary gotrans emits (Go identifier
    names as strings), and the mechanism facts of the Go evaluator that the model's
    clean semantics accounts for. *)
From Coq Require Import String.
From Borno Require Import Base Num Unicode Token Lexer Ast Parser Value Eval.
Open Scope string_scope.

Definition tkind_name (k : tkind) : string :=
  match k with
  | TLEFT_PAREN => "LEFT_PAREN" | TRIGHT_PAREN => "RIGHT_PAREN" | TLEFT_BRACE => "LEFT_BRACE"
  | TRIGHT_BRACE => "RIGHT_BRACE" | TLEFT_BRACKET => "LEFT_BRACKET" | TRIGHT_BRACKET => "RIGHT_BRACKET"
  | TCOMMA => "COMMA" | TDOT => "DOT" | TMINUS => "MINUS" | TPLUS => "PLUS" | TSEMICOLON => "SEMICOLON"
  | TCOLON => "COLON" | TSLASH => "SLASH" | TSTAR => "STAR" | TAND => "AND" | TOR => "OR" | TXOR => "XOR"
  | TPOWER => "POWER" | TNOT => "NOT" | TMODULO => "MODULO" | TBANG => "BANG" | TBANG_EQUAL => "BANG_EQUAL"
  | TEQUAL => "EQUAL" | TEQUAL_EQUAL => "EQUAL_EQUAL" | TGREATER => "GREATER" | TGREATER_EQUAL => "GREATER_EQUAL"
  | TLEFT_SHIFT => "LEFT_SHIFT" | TLESS => "LESS" | TLESS_EQUAL => "LESS_EQUAL" | TRIGHT_SHIFT => "RIGHT_SHIFT"
  | TIDENTIFIER => "IDENTIFIER" | TSTRING => "STRING" | TNUMBER => "NUMBER"
  | TBREAK => "BREAK" | TCONTINUE => "CONTINUE" | TLOGICAL_AND => "LOGICAL_AND" | TCLASS => "CLASS"
  | TELSE => "ELSE" | TFALSE => "FALSE" | TFUN => "FUN" | TFOR => "FOR" | TIF => "IF" | TNIL => "NIL"
  | TLOGICAL_OR => "LOGICAL_OR" | TPRINT => "PRINT" | TRETURN => "RETURN" | TTRUE => "TRUE" | TVAR => "VAR"
  | TWHILE => "WHILE"
  end.

Definition native_go_type (n : native) : string :=
  match n with
  | NClock => "NativeClockFn" | NLen => "NativeLenFn" | NAppend => "NativeAppendFn" | NRemove => "NativeRemoveFn"
  | NDelete => "NativeDeleteFn" | NKeys => "NativeKeysFn" | NValues => "NativeValuesFn" | NAbs => "NativeAbsFn"
  | NSqrt => "NativeSqrtFn" | NPow => "NativePowFn" | NSin => "NativeSinFn" | NCos => "NativeCosFn"
  | NTan => "NativeTanFn" | NMin => "NativeMinFn" | NMax => "NativeMaxFn" | NRound => "NativeRoundFn"
  | NInput => "NativeInputFn"
  end.

(** insertion sort of code-point strings by [str_ltb] (the order gotrans emits) *)
Fixpoint ins_str (x : list N) (l : list (list N)) : list (list N) :=
  match l with [] => [x] | y :: r => if str_ltb y x then y :: ins_str x r else x :: l end.
Definition sort_strs (l : list (list N)) : list (list N) := fold_right ins_str [] l.
Fixpoint ins_kv {A} (x : list N * A) (l : list (list N * A)) : list (list N * A) :=
  match l with [] => [x] | y :: r => if str_ltb (fst y) (fst x) then y :: ins_kv x r else x :: l end.
Definition sort_kvs {A} (l : list (list N * A)) : list (list N * A) := fold_right ins_kv [] l.

(** the lexer's single-character table as a list, from the function [one_char] (plus '/',
    which the scanner handles in the comment branch) *)
Definition ascii_range : list N := map N.of_nat (seq 0 256).
Definition one_char_table : list (N * string) :=
  flat_map (fun c => match (if (c =? 47)%N then Some TSLASH else one_char c) with
                     | Some k => [(c, tkind_name k)] | None => [] end) ascii_range.
Definition two_char_table : list (N * N * string) :=
  flat_map (fun c => if (c =? 47)%N then [] else
    flat_map (fun d => match two_char c d with Some k => [(c, d, tkind_name k)] | None => [] end) ascii_range) ascii_range.

(** Mechanism facts of the Go evaluator (interpreter.eval) that the model mirrors.
    Order of the [i.eval] calls per arm (field @ scope), "ARITY" = arity test, "CALL" = the call. *)
Definition eval_order_expected : list (string * list string) :=
  [ ("PropertyAssignment", ["e.Object@env"; "e.Value@env"]);
    ("ObjectLiteral", ["valueExpr@env"]);
    ("PropertyAccess", ["e.Object@env"]);
    ("ArrayLiteral", ["element@env"]);
    ("ArrayAccess", ["e.Array@env"; "e.Index@env"]);
    ("ArrayAssignment", ["e.Array@env"; "e.Index@env"; "e.Value@env"]);
    ("FunctionStmt", []);
    ("Return", ["e.Value@env"]);
    ("Call", ["e.Callee@env"; "ARITY"; "arg@env"; "CALL"]);
    ("PrintStatement", ["e.Expression@env"]);
    ("ExpressionStatement", ["e.Expression@env"]);
    ("Literal", []);
    ("Grouping", ["e.Expression@env"]);
    ("Unary", ["e.Right@env"]);
    ("Binary", ["e.Left@env"; "e.Right@env"]);
    ("VarStmt", ["e.Initializer@env"]);
    ("VarListStmt", ["&decl@env"]);
    ("AssignmentStmt", ["e.Value@env"]);
    ("Identifier", []);
    ("BlockStmt", ["statement@newEnv"]);
    ("IfStmt", ["e.Condition@env"; "e.ThenBranch@env"; "e.ElseBranch@env"]);
    ("Logical", ["e.Left@env"; "e.Right@env"]);
    ("While", ["e.Condition@env"; "e.Body@env"]);
    ("ForStmt", ["e.Initializer@newEnvironement"; "e.Condition@newEnvironement"; "e.Body@newEnvironement"; "e.Increment@newEnvironement"]);
    ("BreakStmt", []);
    ("ContinueStmt", []) ].

(** signals each arm tests: block and if propagate everything; while handles break and
    propagates return (continue falls through to the next test); for handles break and
    continue and propagates the rest; a call stops at return and swallows the others *)
Definition arm_signals_expected : list (string * list string) :=
  [ ("BlockStmt", ["!=ControlFlowNone"]);
    ("IfStmt", ["!=ControlFlowNone"]);
    ("While", ["!=ControlFlowNone"; "==ControlFlowBreak"; "==ControlFlowReturn"]);
    ("ForStmt", ["!=ControlFlowNone"; "==ControlFlowBreak"; "==ControlFlowContinue"]) ].
Definition call_signals_expected : list string := ["==ControlFlowReturn"; "!=ControlFlowNone"].

(** where a scope is allocated and what its parent is *)
Definition arm_scopes_expected : list (string * list string) :=
  [ ("FunctionStmt", ["env"]); ("BlockStmt", ["env"]); ("ForStmt", ["env"]) ].
Definition call_scope_expected : list string := ["f.Closure"].

(** every remaining iteration over a Go map is followed by a sort (C13) *)
Definition map_ranges_expected : list string :=
  [ "interpreter/nativeFunctionObject.go:NativeKeysFn.Call:object:sorted=true";
    "interpreter/nativeFunctionObject.go:NativeValuesFn.Call:object:sorted=true" ].

Definition exits_expected : list string :=
  [ "main:len()>2=>64"; "main:ext!="".bn""=>64"; "runFile:err!=nil=>1";
    "runFile:utils.HadError=>65"; "runFile:utils.HadRuntimeError=>70" ].

Definition stmt_dispatch_expected : list string :=
  [ "FUN->function"; "VAR->varDeclaration"; "IF->IfStatement"; "WHILE->while"; "FOR->forStatement";
    "PRINT->printStatement"; "RETURN->returnStatement"; "BREAK->consume:SEMICOLON";
    "CONTINUE->consume:SEMICOLON"; "LEFT_BRACE->block" ].
Definition lenient_expected : list string :=
  [ "block:RIGHT_BRACE"; "expressionStatement:SEMICOLON"; "printStatement:SEMICOLON" ].

Fixpoint assoc_s {A} (k : string) (l : list (string * A)) : option A :=
  match l with [] => None | (k', v) :: r => if String.eqb k k' then Some v else assoc_s k r end.

(** spellings used by the published grammar (grammer.txt) for the operator tokens *)
Definition op_spelling (s : string) : option tkind :=
  if String.eqb s "||" then Some TLOGICAL_OR else if String.eqb s "or" then Some TLOGICAL_OR
  else if String.eqb s "&&" then Some TLOGICAL_AND else if String.eqb s "and" then Some TLOGICAL_AND
  else if String.eqb s "|" then Some TOR else if String.eqb s "^" then Some TXOR else if String.eqb s "&" then Some TAND
  else if String.eqb s "!=" then Some TBANG_EQUAL else if String.eqb s "==" then Some TEQUAL_EQUAL
  else if String.eqb s ">" then Some TGREATER else if String.eqb s ">=" then Some TGREATER_EQUAL
  else if String.eqb s "<" then Some TLESS else if String.eqb s "<=" then Some TLESS_EQUAL
  else if String.eqb s ">>" then Some TRIGHT_SHIFT else if String.eqb s "<<" then Some TLEFT_SHIFT
  else if String.eqb s "-" then Some TMINUS else if String.eqb s "+" then Some TPLUS
  else if String.eqb s "/" then Some TSLASH else if String.eqb s "*" then Some TSTAR else if String.eqb s "%" then Some TMODULO
  else if String.eqb s "**" then Some TPOWER else if String.eqb s "!" then Some TBANG else if String.eqb s "~" then Some TNOT
  else None.

Definition same_kinds (a b : list tkind) : bool :=
  forallb (fun k => kind_in k b) a && forallb (fun k => kind_in k a) b.

Fixpoint all_some {A} (l : list (option A)) : option (list A) :=
  match l with
  | [] => Some []
  | Some x :: r => match all_some r with Some xs => Some (x :: xs) | None => None end
  | None :: _ => None
  end.

(** the documented ladder agrees with a table of levels: same number of levels, same operator set per
    level (both spellings of the logical operators allowed), each level's operands are the next level,
    the last level's operands are "unary" *)
Fixpoint doc_ladder_matches (doc : list (string * list string * string)) (lad : list (list tkind * bool)) : bool :=
  match doc, lad with
  | [], [] => true
  | (name, ops, operand) :: dr, (ks, _) :: lr =>
      match all_some (map op_spelling ops) with
      | Some dks => same_kinds dks ks
      | None => false
      end
      && match dr with
         | (next, _, _) :: _ => String.eqb operand next
         | [] => String.eqb operand "unary"
         end
      && doc_ladder_matches dr lr
  | _, _ => false
  end.
