(** The published grammar of Borno, as a specification that does not mention the
    parser's control flow: well-formed syntax trees ([WFfull], [WFk], [WFs]) and a
    yield function ([flat_e], [flat_s], [flat_prog]) from trees to token symbols.

    Definitions only; the theorems relating them to [Model/Parser.v] are in
    [Proofs/ParserSound.v] and [Proofs/ParserComplete.v].

    * Lines.  Tree nodes and tokens carry line numbers that the parser merely
      copies.  The grammar is blind to them: [erase_e]/[erase_s] set every line
      field to 0, [WF…]/[Yields…]/[flat…] ignore line fields, the theorems speak
      about erased trees.
    * Token symbols.  The parser looks at the kind of a token, at the lexeme of
      an identifier and at the literal of a NUMBER / STRING token; [sym_of] keeps
      exactly that.
    * [flat_…] is the canonical writing of a tree (parentheses only where the
      tree has an [EGroup]).  [Yields…] is the relation "this token sequence is
      a writing of this tree"; it contains [flat_…] and in addition the
      undocumented liberties of the parser (see the comment at [Yields]). *)
From Borno Require Import Base Num Token Ast Parser.
Local Open Scope nat_scope.

(** * Token symbols *)

Inductive tsym :=
  | Sym (k : tkind)
  | SymId (x : list N)
  | SymNum (v : f64)
  | SymStr (s : list N).

(** A NUMBER (STRING) token without a number (string) literal is never produced by
    the lexer; it is mapped to the bare kind. *)
Definition sym_of (t : token) : tsym :=
  match tk t with
  | TIDENTIFIER => SymId (tlex t)
  | TNUMBER => match tlit t with LNum v => SymNum v | _ => Sym TNUMBER end
  | TSTRING => match tlit t with LStr s => SymStr s | _ => Sym TSTRING end
  | k => Sym k
  end.

Definition kind_of_sym (s : tsym) : tkind :=
  match s with
  | Sym k => k
  | SymId _ => TIDENTIFIER
  | SymNum _ => TNUMBER
  | SymStr _ => TSTRING
  end.

(** a token with a given symbol, on line [l] (right inverse of [sym_of] except on
    the symbol [Sym TIDENTIFIER], which no token has) *)
Definition tok_of_sym (l : N) (s : tsym) : token :=
  match s with
  | Sym k => mkTok k [] LNone l
  | SymId x => mkTok TIDENTIFIER x LNone l
  | SymNum v => mkTok TNUMBER [] (LNum v) l
  | SymStr s => mkTok TSTRING [] (LStr s) l
  end.

(** * Erasure of line numbers *)

Fixpoint erase_e (e : expr) : expr :=
  match e with
  | ELit v _ => ELit v 0%N
  | EId x _ => EId x 0%N
  | EGroup e _ => EGroup (erase_e e) 0%N
  | EUnary op e _ => EUnary op (erase_e e) 0%N
  | EBinary op l r _ => EBinary op (erase_e l) (erase_e r) 0%N
  | ELogical op l r => ELogical op (erase_e l) (erase_e r)
  | EAssign x _ v _ => EAssign x 0%N (erase_e v) 0%N
  | EArrAssign a i v _ => EArrAssign (erase_e a) (erase_e i) (erase_e v) 0%N
  | EPropAssign o p v _ => EPropAssign (erase_e o) p (erase_e v) 0%N
  | ECall c _ args => ECall (erase_e c) 0%N (map erase_e args)
  | EIndex a i _ => EIndex (erase_e a) (erase_e i) 0%N
  | EProp o p _ => EProp (erase_e o) p 0%N
  | EArray es => EArray (map erase_e es)
  | EObject ps => EObject (map (fun kv => let '(k, v) := kv in (k, erase_e v)) ps)
  end.

Definition erase_d (d : vdecl) : vdecl :=
  let '(x, init, _) := d in (x, option_map erase_e init, 0%N).

Fixpoint erase_s (s : stmt) : stmt :=
  match s with
  | SExpr e => SExpr (erase_e e)
  | SPrint e => SPrint (erase_e e)
  | SVar d => SVar (erase_d d)
  | SVarList ds => SVarList (map erase_d ds)
  | SBlock ss => SBlock (map erase_s ss)
  | SIf c t e => SIf (erase_e c) (erase_s t) (match e with Some e => Some (erase_s e) | None => None end)
  | SWhile c b => SWhile (erase_e c) (erase_s b)
  | SFor init c inc b =>
      SFor (match init with Some s => Some (erase_s s) | None => None end)
           (erase_e c) (option_map erase_e inc) (erase_s b)
  | SBreak _ => SBreak 0%N
  | SContinue _ => SContinue 0%N
  | SReturn _ v => SReturn 0%N (option_map erase_e v)
  | SFun name ps body => SFun name ps (map erase_s body)
  end.

(** * The yield function *)

(** join with commas *)
Fixpoint join_comma (l : list (list tsym)) : list tsym :=
  match l with
  | [] => []
  | [s] => s
  | s :: l' => s ++ Sym TCOMMA :: join_comma l'
  end.

Definition flat_lit (v : lit) : tsym :=
  match v with
  | LitNil => Sym TNIL
  | LitBool true => Sym TTRUE
  | LitBool false => Sym TFALSE
  | LitNum v => SymNum v
  | LitStr s => SymStr s
  end.

Fixpoint flat_e (e : expr) : list tsym :=
  match e with
  | ELit v _ => [flat_lit v]
  | EId x _ => [SymId x]
  | EGroup e _ => Sym TLEFT_PAREN :: flat_e e ++ [Sym TRIGHT_PAREN]
  | EUnary op e _ => Sym op :: flat_e e
  | EBinary op l r _ => flat_e l ++ Sym op :: flat_e r
  | ELogical op l r => flat_e l ++ Sym op :: flat_e r
  | EAssign x _ v _ => SymId x :: Sym TEQUAL :: flat_e v
  | EArrAssign a i v _ =>
      flat_e a ++ Sym TLEFT_BRACKET :: flat_e i ++ Sym TRIGHT_BRACKET :: Sym TEQUAL :: flat_e v
  | EPropAssign o p v _ => flat_e o ++ Sym TDOT :: SymId p :: Sym TEQUAL :: flat_e v
  | ECall c _ args => flat_e c ++ Sym TLEFT_PAREN :: join_comma (map flat_e args) ++ [Sym TRIGHT_PAREN]
  | EIndex a i _ => flat_e a ++ Sym TLEFT_BRACKET :: flat_e i ++ [Sym TRIGHT_BRACKET]
  | EProp o p _ => flat_e o ++ [Sym TDOT; SymId p]
  | EArray es => Sym TLEFT_BRACKET :: join_comma (map flat_e es) ++ [Sym TRIGHT_BRACKET]
  | EObject ps =>
      Sym TLEFT_BRACE ::
      join_comma (map (fun kv => let '(k, v) := kv in SymId k :: Sym TCOLON :: flat_e v) ps)
      ++ [Sym TRIGHT_BRACE]
  end.

Definition flat_d (d : vdecl) : list tsym :=
  let '(x, init, _) := d in
  SymId x :: match init with Some e => Sym TEQUAL :: flat_e e | None => [] end.

(** The condition of a [ফর] is always written (also when it is the tree
    [ELit (LitBool true) 0] that the parser supplies for an absent condition: then
    it is written [সত্য], and reading that back gives, after erasure, the same
    tree).  The writing with the condition left out is a [YieldsS] liberty. *)
Fixpoint flat_s (s : stmt) : list tsym :=
  match s with
  | SExpr e => flat_e e ++ [Sym TSEMICOLON]
  | SPrint e => Sym TPRINT :: flat_e e ++ [Sym TSEMICOLON]
  | SVar d => Sym TVAR :: flat_d d ++ [Sym TSEMICOLON]
  | SVarList ds => Sym TVAR :: join_comma (map flat_d ds) ++ [Sym TSEMICOLON]
  | SBlock ss => Sym TLEFT_BRACE :: concat (map flat_s ss) ++ [Sym TRIGHT_BRACE]
  | SIf c t e =>
      Sym TIF :: Sym TLEFT_PAREN :: flat_e c ++ Sym TRIGHT_PAREN :: flat_s t ++
      match e with Some e => Sym TELSE :: flat_s e | None => [] end
  | SWhile c b => Sym TWHILE :: Sym TLEFT_PAREN :: flat_e c ++ Sym TRIGHT_PAREN :: flat_s b
  | SFor init c inc b =>
      Sym TFOR :: Sym TLEFT_PAREN ::
      match init with Some s => flat_s s | None => [Sym TSEMICOLON] end ++
      flat_e c ++ Sym TSEMICOLON ::
      match inc with Some e => flat_e e | None => [] end ++
      Sym TRIGHT_PAREN :: flat_s b
  | SBreak _ => [Sym TBREAK; Sym TSEMICOLON]
  | SContinue _ => [Sym TCONTINUE; Sym TSEMICOLON]
  | SReturn _ v => Sym TRETURN :: match v with Some e => flat_e e | None => [] end ++ [Sym TSEMICOLON]
  | SFun name ps body =>
      Sym TFUN :: SymId name :: Sym TLEFT_PAREN :: join_comma (map (fun p => [SymId p]) ps) ++
      Sym TRIGHT_PAREN :: Sym TLEFT_BRACE :: concat (map flat_s body) ++ [Sym TRIGHT_BRACE]
  end.

Definition flat_prog (ss : list stmt) : list tsym := concat (map flat_s ss).

(** * Well-formed expressions: the precedence ladder *)

(** Levels: [0 .. nlev-1] are the binary levels of [Parser.ladder] (0 loosest),
    [nlev] is the unary level, [S nlev] the postfix/primary level. *)
Definition nlev : nat := length ladder.

Fixpoint find_level (lv : list (list tkind * bool)) (k : nat) (op : tkind) : option nat :=
  match lv with
  | [] => None
  | l :: lv' => if kind_in op (fst l) then Some k else find_level lv' (S k) op
  end.
(** the ladder level of a binary operator *)
Definition op_level (op : tkind) : option nat := find_level ladder 0 op.
(** does level [k] build [ELogical] nodes (else [EBinary]) *)
Definition level_logical (k : nat) : bool := snd (nth k ladder ([], false)).
Definition is_unop (op : tkind) : bool := kind_in op unary_ops.

Definition put_kv (acc : list (list N * expr)) (kv : list N * expr) := props_put acc (fst kv) (snd kv).

(** [WFfull e]: [e] is an "expression" (assignment, right associative, or level 0).
    [WFk k e]: [e] may stand where the grammar asks for an operand of level [k]. *)
Inductive WFfull : expr -> Prop :=
  | WF_assign x nl v ln : WFfull v -> WFfull (EAssign x nl v ln)
  | WF_arrassign a i v ln : WFk (S nlev) a -> WFfull i -> WFfull v -> WFfull (EArrAssign a i v ln)
  | WF_propassign o p v ln : WFk (S nlev) o -> WFfull v -> WFfull (EPropAssign o p v ln)
  | WF_level e : WFk 0 e -> WFfull e
with WFk : nat -> expr -> Prop :=
  | WF_lit k v ln : WFk k (ELit v ln)
  | WF_id k x ln : WFk k (EId x ln)
  | WF_group k e ln : WFfull e -> WFk k (EGroup e ln)
  | WF_array k es : Forall WFfull es -> WFk k (EArray es)
  | WF_object k ps : NoDup (map fst ps) -> Forall WFfull (map snd ps) -> WFk k (EObject ps)
  | WF_unary k op e ln : is_unop op = true -> k <= nlev -> WFk nlev e -> WFk k (EUnary op e ln)
  | WF_binary k j op l r ln :
      op_level op = Some j -> level_logical j = false -> k <= j ->
      WFk j l -> WFk (S j) r -> WFk k (EBinary op l r ln)
  | WF_logical k j op l r :
      op_level op = Some j -> level_logical j = true -> k <= j ->
      WFk j l -> WFk (S j) r -> WFk k (ELogical op l r)
  | WF_call k c pl args : WFk (S nlev) c -> Forall WFfull args -> WFk k (ECall c pl args)
  | WF_index k a i ln : WFk (S nlev) a -> WFfull i -> WFk k (EIndex a i ln)
  | WF_prop k o p ln : WFk (S nlev) o -> WFk k (EProp o p ln).

(** * The yield relation for expressions

    [Yields e s]: the symbol sequence [s] is a writing of the tree [e].  It is
    [flat_e] (lemma [WF_Yields_flat] in ParserSound.v) plus the liberties that the
    parser takes beyond the published grammar:
    - an object literal may repeat a key (the tree keeps the position of the first
      and the initializer of the last occurrence, [props_put]) and may end in a
      comma when it has at least one entry;
    - a NUMBER / STRING token without literal (never produced by the lexer) reads
      as [nil]. *)
Inductive Yields : expr -> list tsym -> Prop :=
  | Y_lit v ln : Yields (ELit v ln) [flat_lit v]
  | Y_nil_num ln : Yields (ELit LitNil ln) [Sym TNUMBER]
  | Y_nil_str ln : Yields (ELit LitNil ln) [Sym TSTRING]
  | Y_id x ln : Yields (EId x ln) [SymId x]
  | Y_group e ln s : Yields e s -> Yields (EGroup e ln) (Sym TLEFT_PAREN :: s ++ [Sym TRIGHT_PAREN])
  | Y_unary op e ln s : Yields e s -> Yields (EUnary op e ln) (Sym op :: s)
  | Y_binary op l r ln sl sr : Yields l sl -> Yields r sr -> Yields (EBinary op l r ln) (sl ++ Sym op :: sr)
  | Y_logical op l r sl sr : Yields l sl -> Yields r sr -> Yields (ELogical op l r) (sl ++ Sym op :: sr)
  | Y_assign x nl v ln s : Yields v s -> Yields (EAssign x nl v ln) (SymId x :: Sym TEQUAL :: s)
  | Y_arrassign a i v ln sa si sv :
      Yields a sa -> Yields i si -> Yields v sv ->
      Yields (EArrAssign a i v ln) (sa ++ Sym TLEFT_BRACKET :: si ++ Sym TRIGHT_BRACKET :: Sym TEQUAL :: sv)
  | Y_propassign o p v ln so sv :
      Yields o so -> Yields v sv ->
      Yields (EPropAssign o p v ln) (so ++ Sym TDOT :: SymId p :: Sym TEQUAL :: sv)
  | Y_call c pl args sc sa :
      Yields c sc -> YieldsList args sa ->
      Yields (ECall c pl args) (sc ++ Sym TLEFT_PAREN :: sa ++ [Sym TRIGHT_PAREN])
  | Y_index a i ln sa si :
      Yields a sa -> Yields i si -> Yields (EIndex a i ln) (sa ++ Sym TLEFT_BRACKET :: si ++ [Sym TRIGHT_BRACKET])
  | Y_prop o p ln so : Yields o so -> Yields (EProp o p ln) (so ++ [Sym TDOT; SymId p])
  | Y_array es s : YieldsList es s -> Yields (EArray es) (Sym TLEFT_BRACKET :: s ++ [Sym TRIGHT_BRACKET])
  | Y_object raw s ps :
      YieldsRaw raw s -> fold_left put_kv raw [] = ps ->
      Yields (EObject ps) (Sym TLEFT_BRACE :: s ++ [Sym TRIGHT_BRACE])
(** comma-separated expressions *)
with YieldsList : list expr -> list tsym -> Prop :=
  | YL_nil : YieldsList [] []
  | YL_one e s : Yields e s -> YieldsList [e] s
  | YL_cons e es s ss : Yields e s -> es <> [] -> YieldsList es ss -> YieldsList (e :: es) (s ++ Sym TCOMMA :: ss)
(** the entries of an object literal as written; [YR_cons] with an empty tail is
    the trailing comma *)
with YieldsRaw : list (list N * expr) -> list tsym -> Prop :=
  | YR_nil : YieldsRaw [] []
  | YR_one k v s : Yields v s -> YieldsRaw [(k, v)] (SymId k :: Sym TCOLON :: s)
  | YR_cons k v s raw ss :
      Yields v s -> YieldsRaw raw ss -> YieldsRaw ((k, v) :: raw) (SymId k :: Sym TCOLON :: s ++ Sym TCOMMA :: ss).

(** * Well-formed statements *)

(** the tree's leftmost leaf is an object literal, i.e. its writing begins with a
    left brace (lemma [leftmost_obj_flat]); such an expression cannot be an
    expression statement: the statement would be read as a block *)
Fixpoint leftmost_obj (e : expr) : bool :=
  match e with
  | EObject _ => true
  | EBinary _ l _ _ | ELogical _ l _ => leftmost_obj l
  | ECall c _ _ => leftmost_obj c
  | EIndex a _ _ => leftmost_obj a
  | EProp o _ _ => leftmost_obj o
  | EArrAssign a _ _ _ => leftmost_obj a
  | EPropAssign o _ _ _ => leftmost_obj o
  | _ => false
  end.

(** declarations ([ধরি], [ফাংশন]) are allowed in statement lists only, not as the
    body of [যদি] / [যতক্ষণ] / [ফর] *)
Definition is_decl (s : stmt) : bool :=
  match s with SVar _ | SVarList _ | SFun _ _ _ => true | _ => false end.

(** the statement is, or ends in, an [যদি] without [নাহয়]: a following [নাহয়]
    would attach to it (nearest-if rule) *)
Fixpoint open_if (s : stmt) : bool :=
  match s with
  | SIf _ _ None => true
  | SIf _ _ (Some e) => open_if e
  | SWhile _ b => open_if b
  | SFor _ _ _ b => open_if b
  | _ => false
  end.

Definition WFd (d : vdecl) : Prop :=
  let '(x, init, _) := d in
  is_reserved x = false /\ match init with Some e => WFfull e | None => True end.

(** the initializer clause of [ফর]: nothing, a [ধরি] statement, an expression statement
    (here a leading brace is harmless) *)
Definition WFinit (i : option stmt) : Prop :=
  match i with
  | None => True
  | Some (SVar d) => WFd d
  | Some (SVarList ds) => 2 <= length ds /\ Forall WFd ds
  | Some (SExpr e) => WFfull e
  | Some _ => False
  end.

Definition WFopt (v : option expr) : Prop := match v with Some e => WFfull e | None => True end.

Inductive WFs : stmt -> Prop :=
  | WFs_expr e : WFfull e -> leftmost_obj e = false -> WFs (SExpr e)
  | WFs_print e : WFfull e -> WFs (SPrint e)
  | WFs_var d : WFd d -> WFs (SVar d)
  | WFs_varlist ds : 2 <= length ds -> Forall WFd ds -> WFs (SVarList ds)
  | WFs_block ss : Forall WFs ss -> WFs (SBlock ss)
  | WFs_if c t : WFfull c -> WFs t -> is_decl t = false -> WFs (SIf c t None)
  | WFs_ifelse c t e :
      WFfull c -> WFs t -> is_decl t = false -> open_if t = false ->
      WFs e -> is_decl e = false -> WFs (SIf c t (Some e))
  | WFs_while c b : WFfull c -> WFs b -> is_decl b = false -> WFs (SWhile c b)
  | WFs_for init c inc b :
      WFinit init -> WFfull c -> WFopt inc -> WFs b -> is_decl b = false -> WFs (SFor init c inc b)
  | WFs_break ln : WFs (SBreak ln)
  | WFs_continue ln : WFs (SContinue ln)
  | WFs_return ln v : WFopt v -> WFs (SReturn ln v)
  | WFs_fun name ps body :
      is_reserved name = false -> length ps <= max_params -> Forall WFs body -> WFs (SFun name ps body).

(** * The yield relation for statements

    [flat_s] with [Yields] for the expressions, plus one liberty: the condition of a
    [ফর] may be left out; the tree then has the literal [সত্য] as condition. *)
Inductive YieldsD : vdecl -> list tsym -> Prop :=
  | YD_none x ln : YieldsD (x, None, ln) [SymId x]
  | YD_some x e ln s : Yields e s -> YieldsD (x, Some e, ln) (SymId x :: Sym TEQUAL :: s).

Inductive YieldsDs : list vdecl -> list tsym -> Prop :=
  | YDs_one d s : YieldsD d s -> YieldsDs [d] s
  | YDs_cons d ds s ss : YieldsD d s -> YieldsDs ds ss -> YieldsDs (d :: ds) (s ++ Sym TCOMMA :: ss).

Inductive YieldsOpt : option expr -> list tsym -> Prop :=
  | YO_none : YieldsOpt None []
  | YO_some e s : Yields e s -> YieldsOpt (Some e) s.

Inductive YieldsS : stmt -> list tsym -> Prop :=
  | YS_expr e s : Yields e s -> YieldsS (SExpr e) (s ++ [Sym TSEMICOLON])
  | YS_print e s : Yields e s -> YieldsS (SPrint e) (Sym TPRINT :: s ++ [Sym TSEMICOLON])
  | YS_var d s : YieldsD d s -> YieldsS (SVar d) (Sym TVAR :: s ++ [Sym TSEMICOLON])
  | YS_varlist ds s : YieldsDs ds s -> YieldsS (SVarList ds) (Sym TVAR :: s ++ [Sym TSEMICOLON])
  | YS_block ss s : YieldsSs ss s -> YieldsS (SBlock ss) (Sym TLEFT_BRACE :: s ++ [Sym TRIGHT_BRACE])
  | YS_if c t sc st :
      Yields c sc -> YieldsS t st ->
      YieldsS (SIf c t None) (Sym TIF :: Sym TLEFT_PAREN :: sc ++ Sym TRIGHT_PAREN :: st)
  | YS_ifelse c t e sc st se :
      Yields c sc -> YieldsS t st -> YieldsS e se ->
      YieldsS (SIf c t (Some e)) (Sym TIF :: Sym TLEFT_PAREN :: sc ++ Sym TRIGHT_PAREN :: st ++ Sym TELSE :: se)
  | YS_while c b sc sb :
      Yields c sc -> YieldsS b sb ->
      YieldsS (SWhile c b) (Sym TWHILE :: Sym TLEFT_PAREN :: sc ++ Sym TRIGHT_PAREN :: sb)
  | YS_for init c inc b si sc sinc sb :
      YieldsInit init si -> YieldsCond c sc -> YieldsOpt inc sinc -> YieldsS b sb ->
      YieldsS (SFor init c inc b)
              (Sym TFOR :: Sym TLEFT_PAREN :: si ++ sc ++ Sym TSEMICOLON :: sinc ++ Sym TRIGHT_PAREN :: sb)
  | YS_break ln : YieldsS (SBreak ln) [Sym TBREAK; Sym TSEMICOLON]
  | YS_continue ln : YieldsS (SContinue ln) [Sym TCONTINUE; Sym TSEMICOLON]
  | YS_return ln v s : YieldsOpt v s -> YieldsS (SReturn ln v) (Sym TRETURN :: s ++ [Sym TSEMICOLON])
  | YS_fun name ps body sb :
      YieldsSs body sb ->
      YieldsS (SFun name ps body)
              (Sym TFUN :: SymId name :: Sym TLEFT_PAREN :: join_comma (map (fun p => [SymId p]) ps) ++
               Sym TRIGHT_PAREN :: Sym TLEFT_BRACE :: sb ++ [Sym TRIGHT_BRACE])
with YieldsSs : list stmt -> list tsym -> Prop :=
  | YSs_nil : YieldsSs [] []
  | YSs_cons s ss a b : YieldsS s a -> YieldsSs ss b -> YieldsSs (s :: ss) (a ++ b)
with YieldsInit : option stmt -> list tsym -> Prop :=
  | YI_none : YieldsInit None [Sym TSEMICOLON]
  | YI_some s a : YieldsS s a -> YieldsInit (Some s) a
with YieldsCond : expr -> list tsym -> Prop :=
  | YC_written c s : Yields c s -> YieldsCond c s
  | YC_absent ln : YieldsCond (ELit (LitBool true) ln) [].

Definition YieldsProg (ss : list stmt) (s : list tsym) : Prop := YieldsSs ss s.

(** * Side conditions of the completeness theorems *)

(** a token kind that cannot continue an expression: no binary operator of any
    level, not [=], [(], [[], [.] *)
Definition expr_follow (k : tkind) : bool :=
  match op_level k with
  | Some _ => false
  | None => match k with TEQUAL | TLEFT_PAREN | TLEFT_BRACKET | TDOT => false | _ => true end
  end.
Definition follow_ok (r : list token) : Prop :=
  match r with [] => True | t :: _ => expr_follow (tk t) = true end.

(** * Full parenthesisation (for the round-trip property) *)

(** a group around every operand of every operator, argument, element, index,
    initializer, assigned value *)
Definition grp (e : expr) : expr := EGroup e 0%N.

Fixpoint paren_all (e : expr) : expr :=
  match e with
  | ELit v ln => ELit v ln
  | EId x ln => EId x ln
  | EGroup e ln => EGroup (paren_all e) ln
  | EUnary op e ln => EUnary op (grp (paren_all e)) ln
  | EBinary op l r ln => EBinary op (grp (paren_all l)) (grp (paren_all r)) ln
  | ELogical op l r => ELogical op (grp (paren_all l)) (grp (paren_all r))
  | EAssign x nl v ln => EAssign x nl (grp (paren_all v)) ln
  | EArrAssign a i v ln => EArrAssign (grp (paren_all a)) (grp (paren_all i)) (grp (paren_all v)) ln
  | EPropAssign o p v ln => EPropAssign (grp (paren_all o)) p (grp (paren_all v)) ln
  | ECall c pl args => ECall (grp (paren_all c)) pl (map (fun a => grp (paren_all a)) args)
  | EIndex a i ln => EIndex (grp (paren_all a)) (grp (paren_all i)) ln
  | EProp o p ln => EProp (grp (paren_all o)) p ln
  | EArray es => EArray (map (fun a => grp (paren_all a)) es)
  | EObject ps => EObject (map (fun kv => let '(k, v) := kv in (k, grp (paren_all v))) ps)
  end.

Fixpoint strip_groups (e : expr) : expr :=
  match e with
  | ELit v ln => ELit v ln
  | EId x ln => EId x ln
  | EGroup e _ => strip_groups e
  | EUnary op e ln => EUnary op (strip_groups e) ln
  | EBinary op l r ln => EBinary op (strip_groups l) (strip_groups r) ln
  | ELogical op l r => ELogical op (strip_groups l) (strip_groups r)
  | EAssign x nl v ln => EAssign x nl (strip_groups v) ln
  | EArrAssign a i v ln => EArrAssign (strip_groups a) (strip_groups i) (strip_groups v) ln
  | EPropAssign o p v ln => EPropAssign (strip_groups o) p (strip_groups v) ln
  | ECall c pl args => ECall (strip_groups c) pl (map strip_groups args)
  | EIndex a i ln => EIndex (strip_groups a) (strip_groups i) ln
  | EProp o p ln => EProp (strip_groups o) p ln
  | EArray es => EArray (map strip_groups es)
  | EObject ps => EObject (map (fun kv => let '(k, v) := kv in (k, strip_groups v)) ps)
  end.
