(** The error-flag mechanism of interpreter/interpreter.go, function.go and environment.go as
    Model/FlagEval.v transcribes it: for every arm of [eval] (and for [Interpret], the entry of
    evaluateBinary / evaluateUnary, [Function.Call] and [Environment.Assign]) the sequence, in source
    order, of sub-evaluations (E), polls of utils.HadRuntimeError (P; with the condition when it is
    not the bare flag), reports (R + the first 24 bytes of the message), the callee's call (CALL),
    output (OUT), scope operations (ENV), operator helpers (OP), stores into a cell (STORE) and loops
    (LOOP).  [gotrans] regenerates the same table from the Go source on every run
    ([GenTables.gen_arm_trace]) and Oblig/Tables_C06.v proves the two equal: a poll added, removed or
    moved, a new report, a new arm, changes the generated table and breaks that obligation, and
    FlagEval.v (which the refinement theorem of Proofs/FlagRefine.v is about) has to be revisited. *)
From Coq Require Import String List.
Import ListNotations.
Open Scope string_scope.

Definition arm_trace_expected : list (string * list string) := [
  ("PropertyAssignment", ["E:e.Object"; "R:Invalid object assignmen"; "E:e.Value"; "STORE:object[]"]);
  ("ObjectLiteral", ["LOOP"; "E:valueExpr"; "STORE:properties[]"; "STORE:properties[]"]);
  ("PropertyAccess", ["E:e.Object"; "R:Invalid property access."; "R:Property '"]);
  ("ArrayLiteral", ["LOOP"; "E:element"]);
  ("ArrayAccess", ["E:e.Array"; "E:e.Index"; "R:Invalid array access. No"; "R:Array index must be an i"; "R:Array index out of bound"]);
  ("ArrayAssignment", ["E:e.Array"; "E:e.Index"; "E:e.Value"; "R:Invalid array assignment"; "R:Array index must be an i"; "R:Array index out of bound"; "STORE:array[]"]);
  ("FunctionStmt", ["ENV:Define"]);
  ("Return", ["E:e.Value"]);
  ("Call", ["E:e.Callee"; "R:Can only call functions."; "R:Expected %d arguments bu"; "LOOP"; "E:arg"; "P"; "CALL"; "R:Function call failed: "]);
  ("PrintStatement", ["E:e.Expression"; "P"; "OUT"; "OUT"]);
  ("ExpressionStatement", ["E:e.Expression"; "P:isRepl&&!utils.HadRuntimeError"; "OUT"; "OUT"]);
  ("Literal", []);
  ("Grouping", ["E:e.Expression"]);
  ("Unary", ["E:e.Right"; "P"; "OP:evaluateUnary"]);
  ("Binary", ["E:e.Left"; "P"; "E:e.Right"; "P"; "OP:evaluateBinary"]);
  ("VarStmt", ["E:e.Initializer"; "P"; "ENV:GetInCurrentScope"; "ENV:Define"; "R:Cannot redeclare variabl"]);
  ("VarListStmt", ["LOOP"; "E:&decl"; "P"]);
  ("AssignmentStmt", ["E:e.Value"; "P"; "ENV:Assign"]);
  ("Identifier", ["ENV:Get"; "R:Variable "]);
  ("BlockStmt", ["LOOP"; "E:statement"; "P"]);
  ("IfStmt", ["E:e.Condition"; "E:e.ThenBranch"; "E:e.ElseBranch"]);
  ("Logical", ["E:e.Left"; "E:e.Right"]);
  ("While", ["LOOP"; "E:e.Condition"; "E:e.Body"]);
  ("ForStmt", ["E:e.Initializer"; "LOOP"; "E:e.Condition"; "E:e.Body"; "E:e.Increment"]);
  ("BreakStmt", []);
  ("ContinueStmt", []);
  ("Interpret", ["LOOP"; "E:statement"; "R:Unexpected 'break' outsi"; "R:Unexpected 'continue' ou"; "R:Unexpected 'return' outs"; "P"]);
  ("evaluateBinary:entry", ["P"]);
  ("evaluateUnary:entry", ["P"]);
  ("Function.Call", ["ENV:Define"; "LOOP"; "ENV:Define"; "LOOP"; "E:statment"]);
  ("Environment.Assign", ["STORE:e.Values[]"; "ENV:Assign"; "R:Undefined variable '"])
].
