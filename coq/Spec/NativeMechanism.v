(** What every built-in's [Call] does, as Model/Eval.v's [call_native] transcribes it: per Go type, the
    sequence in source order of argument-count tests, error returns (ERR + the first 28 bytes of the
    message), helper calls (toNumber, toInt64), library calls (math.*, sort.*, strings.*, time.*, fmt.Print,
    the shared stdin reader), allocations / appends / deletes on the data, loops and comparisons.
    [gotrans] regenerates the same table from the Go source on every run ([GenTables.gen_native_trace]);
    the obligations in Oblig/Tables_C11 / C12 / C17 / C19 prove the entries of their built-ins equal. *)
From Coq Require Import String List Bool.
Import ListNotations.
Open Scope string_scope.

Definition native_trace_expected : list (string * list string) := [
  ("NativeClockFn", ["LIB:time.Now().UnixMilli"; "LIB:time.Now"]);
  ("NativeLenFn", ["LEN(arguments)!=1"; "ERR:len function expects exactly"; "ERR:len function only works on a"]);
  ("NativeAppendFn", ["LEN(arguments)<2"; "ERR:append function expects at l"; "ERR:append function only works o"; "BUILTIN:make(*ast.ArrayType)"; "BUILTIN:append(result)"; "BUILTIN:append(result)"]);
  ("NativeRemoveFn", ["LEN(arguments)!=2"; "ERR:remove function expects exac"; "ERR:remove function only works o"; "HELPER:toInt64"; "ERR:array index must be an integ"; "CMP:index<0"; "CMP:int()>=len()"; "ERR:array index out of bounds"; "BUILTIN:make(*ast.ArrayType)"; "BUILTIN:append(result)"; "BUILTIN:append(result)"]);
  ("NativeDeleteFn", ["LEN(arguments)!=2"; "ERR:delete function expects exac"; "ERR:delete function only works o"; "ERR:delete function expects the "; "BUILTIN:delete(object)"; "ERR:key '%s' not found in object"]);
  ("NativeKeysFn", ["LEN(arguments)!=1"; "ERR:keys function expects exactl"; "ERR:keys function only works on "; "BUILTIN:make(*ast.ArrayType)"; "LOOP"; "BUILTIN:append(names)"; "LIB:sort.Strings"; "BUILTIN:make(*ast.ArrayType)"; "LOOP"; "BUILTIN:append(keys)"]);
  ("NativeValuesFn", ["LEN(arguments)!=1"; "ERR:values function expects exac"; "ERR:values function only works o"; "BUILTIN:make(*ast.ArrayType)"; "LOOP"; "BUILTIN:append(names)"; "LIB:sort.Strings"; "BUILTIN:make(*ast.ArrayType)"; "LOOP"; "BUILTIN:append(values)"]);
  ("NativeAbsFn", ["LEN(arguments)!=1"; "ERR:abs function expects exactly"; "HELPER:toNumber"; "ERR:argument must be a number"; "LIB:math.Abs"]);
  ("NativeSqrtFn", ["LEN(arguments)!=1"; "ERR:sqrt function expects exactl"; "HELPER:toNumber"; "ERR:argument must be a number"; "LIB:math.Sqrt"]);
  ("NativePowFn", ["LEN(arguments)!=2"; "ERR:pow function expects exactly"; "HELPER:toNumber"; "ERR:base must be a number"; "HELPER:toNumber"; "ERR:exponent must be a number"; "LIB:math.Pow"]);
  ("NativeSinFn", ["LEN(arguments)!=1"; "ERR:sin function expects exactly"; "HELPER:toNumber"; "ERR:argument must be a number"; "LIB:math.Sin"]);
  ("NativeCosFn", ["LEN(arguments)!=1"; "ERR:cos function expects exactly"; "HELPER:toNumber"; "ERR:argument must be a number"; "LIB:math.Cos"]);
  ("NativeTanFn", ["LEN(arguments)!=1"; "ERR:tan function expects exactly"; "HELPER:toNumber"; "ERR:argument must be a number"; "LIB:math.Tan"]);
  ("NativeMinFn", ["LEN(arguments)==0"; "ERR:min function expects at leas"; "LEN(arguments)==1"; "LEN(arguments)==0"; "ERR:min function expects a non-e"; "HELPER:toNumber"; "ERR:all arguments must be number"; "LOOP"; "HELPER:toNumber"; "ERR:all arguments must be number"; "CMP:num<minValue"]);
  ("NativeMaxFn", ["LEN(arguments)==0"; "ERR:max function expects at leas"; "LEN(arguments)==1"; "LEN(arguments)==0"; "ERR:max function expects a non-e"; "HELPER:toNumber"; "ERR:all arguments must be number"; "LOOP"; "HELPER:toNumber"; "ERR:all arguments must be number"; "CMP:num>maxValue"]);
  ("NativeRoundFn", ["LEN(arguments)!=1"; "ERR:round function expects exact"; "HELPER:toNumber"; "ERR:argument must be a number"; "LIB:math.Round"]);
  ("NativeInputFn", ["LEN(arguments)>1"; "ERR:input function accepts at mo"; "LEN(arguments)==1"; "ERR:input function's argument mu"; "LIB:fmt.Print"; "LIB:bufio.NewReader"; "LIB:stdinReader.ReadString"; "ERR:failed to read input: %v"; "LIB:strings.TrimSpace"])
].

Definition pick (names : list string) (t : list (string * list string)) : list (string * list string) :=
  filter (fun p => existsb (String.eqb (fst p)) names) t.

Definition array_natives : list string := ["NativeLenFn"; "NativeAppendFn"; "NativeRemoveFn"].
Definition object_natives : list string := ["NativeDeleteFn"; "NativeKeysFn"; "NativeValuesFn"].
Definition math_natives : list string :=
  ["NativeAbsFn"; "NativeSqrtFn"; "NativePowFn"; "NativeSinFn"; "NativeCosFn"; "NativeTanFn"; "NativeMinFn"; "NativeMaxFn"; "NativeRoundFn"].
Definition io_natives : list string := ["NativeClockFn"; "NativeInputFn"].
