(** The scanner (lexer/scanner.go).  It produces *items*: tokens, and the skipped
    pieces (blanks, newlines, comments, rejected pieces with their diagnostic), each
    with the exact source text it covers, so that "nothing is dropped, duplicated or
    reordered" can be stated and proved. *)
From Borno Require Import Base Num Unicode Token.
Open Scope N_scope.

Inductive lexdiag := LexUnexpectedChar | LexBadNumber | LexUnterminatedString | LexUnterminatedComment.

Inductive ikind :=
  | IToken (k : tkind) (l : literal)
  | IBlank | INewline | ILineComment | IBlockComment
  | IBad (d : lexdiag).

Record item := mkItem { ik : ikind; itext : list N; iline : N }.

Definition count_nl (l : list N) : N := N.of_nat (length (filter (fun c => c =? 10) l)).

(** body of a [/* ... */] comment after the opener: (text up to and including the closer, rest) *)
Fixpoint block_comment (l : list N) : option (list N * list N) :=
  match l with
  | [] => None
  | c :: r =>
      match r with
      | d :: r' =>
          if (c =? 42) && (d =? 47) then Some ([c; d], r')
          else match block_comment r with Some (b, rest) => Some (c :: b, rest) | None => None end
      | [] => None
      end
  end.

Definition two_char (c d : N) : option tkind :=
  if (c =? 124) && (d =? 124) then Some TLOGICAL_OR
  else if (c =? 38) && (d =? 38) then Some TLOGICAL_AND
  else if (c =? 42) && (d =? 42) then Some TPOWER
  else if (c =? 33) && (d =? 61) then Some TBANG_EQUAL
  else if (c =? 61) && (d =? 61) then Some TEQUAL_EQUAL
  else if (c =? 60) && (d =? 61) then Some TLESS_EQUAL
  else if (c =? 60) && (d =? 60) then Some TLEFT_SHIFT
  else if (c =? 62) && (d =? 61) then Some TGREATER_EQUAL
  else if (c =? 62) && (d =? 62) then Some TRIGHT_SHIFT
  else None.

Definition one_char (c : N) : option tkind :=
  if c =? 40 then Some TLEFT_PAREN else if c =? 41 then Some TRIGHT_PAREN
  else if c =? 123 then Some TLEFT_BRACE else if c =? 125 then Some TRIGHT_BRACE
  else if c =? 91 then Some TLEFT_BRACKET else if c =? 93 then Some TRIGHT_BRACKET
  else if c =? 44 then Some TCOMMA else if c =? 46 then Some TDOT
  else if c =? 45 then Some TMINUS else if c =? 58 then Some TCOLON
  else if c =? 43 then Some TPLUS else if c =? 59 then Some TSEMICOLON
  else if c =? 124 then Some TOR else if c =? 38 then Some TAND
  else if c =? 94 then Some TXOR else if c =? 126 then Some TNOT
  else if c =? 42 then Some TSTAR else if c =? 33 then Some TBANG
  else if c =? 61 then Some TEQUAL else if c =? 60 then Some TLESS
  else if c =? 62 then Some TGREATER else if c =? 37 then Some TMODULO
  else None.

Definition not_nl (c : N) : bool := negb (c =? 10).
Definition not_quote (c : N) : bool := negb (c =? 34).

(** One step of the scanner: the next item, the rest of the text, and the line
    counter after it.  [line] is the counter before the item. *)
Definition scan1 (l : list N) (line : N) : option (item * list N * N) :=
  match l with
  | [] => None
  | c :: r =>
      if c =? 10 then Some (mkItem INewline [c] (line + 1), r, line + 1)
      else if (c =? 32) || (c =? 13) || (c =? 9) then Some (mkItem IBlank [c] line, r, line)
      else if c =? 47 then
        match r with
        | d :: r' =>
            if d =? 47 then
              let '(body, rest) := span not_nl r' in
              Some (mkItem ILineComment (c :: d :: body) line, rest, line)
            else if d =? 42 then
              match block_comment r' with
              | Some (body, rest) =>
                  let line' := line + count_nl body in
                  Some (mkItem IBlockComment (c :: d :: body) line', rest, line')
              | None =>
                  let line' := line + count_nl r' in
                  Some (mkItem (IBad LexUnterminatedComment) (c :: d :: r') line', [], line')
              end
            else Some (mkItem (IToken TSLASH LNone) [c] line, r, line)
        | [] => Some (mkItem (IToken TSLASH LNone) [c] line, r, line)
        end
      else if c =? 34 then
        let '(body, rest) := span not_quote r in
        let line' := line + count_nl body in
        match rest with
        | q :: rest' => Some (mkItem (IToken TSTRING (LStr body)) (c :: body ++ [q]) line', rest', line')
        | [] => Some (mkItem (IBad LexUnterminatedString) (c :: body) line', [], line')
        end
      else
        match (match r with d :: r' => match two_char c d with Some k => Some (k, d, r') | None => None end | [] => None end) with
        | Some (k, d, r') => Some (mkItem (IToken k LNone) [c; d] line, r', line)
        | None =>
            match one_char c with
            | Some k => Some (mkItem (IToken k LNone) [c] line, r, line)
            | None =>
                if is_digit c then
                  let '(ds, rest) := span is_digit r in
                  let '(fs, rest') :=
                    match rest with
                    | p :: e :: rest0 =>
                        if (p =? 46) && is_digit e then
                          let '(fs, rest1) := span is_digit (e :: rest0) in (p :: fs, rest1)
                        else ([], rest)
                    | _ => ([], rest)
                    end in
                  let lexeme := (c :: ds) ++ fs in
                  match literal_value (translit_str (c :: ds)) (translit_str (tl fs)) with
                  | Some v => Some (mkItem (IToken TNUMBER (LNum v)) lexeme line, rest', line)
                  | None => Some (mkItem (IBad LexBadNumber) lexeme line, rest', line)
                  end
                else if is_alpha c then
                  let '(cs, rest) := span is_alnum r in
                  let k := match keyword_of (c :: cs) with Some k => k | None => TIDENTIFIER end in
                  Some (mkItem (IToken k LNone) (c :: cs) line, rest, line)
                else Some (mkItem (IBad LexUnexpectedChar) [c] line, r, line)
            end
        end
  end.

Fixpoint scan (fuel : nat) (l : list N) (line : N) : list item * N :=
  match fuel with
  | O => ([], line)
  | S f =>
      match scan1 l line with
      | None => ([], line)
      | Some (it, rest, line') => let '(its, fin) := scan f rest line' in (it :: its, fin)
      end
  end.

(** all items of a text, and the line of the end-of-input token *)
Definition lex_items (src : list N) : list item * N := scan (length src) src 1.

Definition token_of_item (it : item) : option token :=
  match ik it with
  | IToken k l => Some (mkTok k (itext it) l (iline it))
  | _ => None
  end.

Fixpoint tokens_of (its : list item) : list token :=
  match its with
  | [] => []
  | it :: r => match token_of_item it with Some t => t :: tokens_of r | None => tokens_of r end
  end.

Definition diag_of_item (it : item) : option (N * lexdiag) :=
  match ik it with IBad d => Some (iline it, d) | _ => None end.

Fixpoint lexdiags_of (its : list item) : list (N * lexdiag) :=
  match its with
  | [] => []
  | it :: r => match diag_of_item it with Some d => d :: lexdiags_of r | None => lexdiags_of r end
  end.

Record lexed := mkLexed { lx_tokens : list token; lx_eof_line : N; lx_diags : list (N * lexdiag) }.

Definition lex (src : list N) : lexed :=
  let '(its, fin) := lex_items src in mkLexed (tokens_of its) fin (lexdiags_of its).
