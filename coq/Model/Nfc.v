(** Unicode Normalization Form C, as golang.org/x/text/unicode/norm computes it for the text
    [দেখাও] writes (interpreter.go: [fmt.Println(norm.NFC.String(...))]).  The data
    (canonical decompositions, combining classes, primary composites) are regenerated on every
    run from the x/text version the interpreter is linked with ([Gen/GenNfc.v], written by
    [godump nfctables]); the algorithm is UAX #15: full canonical decomposition, canonical
    ordering of combining marks, canonical composition (Hangul syllables arithmetically). *)
From Coq Require Import FMapPositive.
From Borno Require Import Base GenNfc.
Open Scope N_scope.

Definition ckey (c : N) : positive := N.succ_pos c.

Definition nfd_map : PositiveMap.t (list N) :=
  fold_left (fun m kv => PositiveMap.add (ckey (fst kv)) (snd kv) m) gen_nfd (PositiveMap.empty _).

(** combining classes: the ranges of the table expanded to one entry per code point *)
Fixpoint add_range (n : nat) (c k : N) (m : PositiveMap.t N) : PositiveMap.t N :=
  match n with
  | O => m
  | S n' => add_range n' (c + 1) k (PositiveMap.add (ckey c) k m)
  end.
Definition ccc_map : PositiveMap.t N :=
  fold_left (fun m r => let '(lo, hi, k) := r in add_range (N.to_nat (hi + 1 - lo)) lo k m) gen_ccc (PositiveMap.empty _).

Definition pair_key (a b : N) : positive := N.succ_pos (a * 2097152 + b).
Definition comp_map : PositiveMap.t N :=
  fold_left (fun m r => let '(a, b, c) := r in PositiveMap.add (pair_key a b) c m) gen_comp (PositiveMap.empty _).

(** The three tables, built once and passed around (a caller evaluates [the_tabs] once; referring
    to the constants at every look-up would rebuild them under [vm_compute]). *)
Record tabs := mkTabs { t_nfd : PositiveMap.t (list N); t_ccc : PositiveMap.t N; t_comp : PositiveMap.t N }.
Definition the_tabs : tabs := mkTabs nfd_map ccc_map comp_map.

(** Hangul (UAX #15, section 3.12) *)
Definition SBase : N := 44032.  Definition LBase : N := 4352.  Definition VBase : N := 4449.  Definition TBase : N := 4519.
Definition LCount : N := 19.  Definition VCount : N := 21.  Definition TCount : N := 28.
Definition NCount : N := 588.  Definition SCount : N := 11172.

Section WithTabs.
Variable T : tabs.

Definition ccc (c : N) : N :=
  match PositiveMap.find (ckey c) (t_ccc T) with Some k => k | None => 0 end.

Definition decompose1 (c : N) : list N :=
  if (SBase <=? c) && (c <? SBase + SCount) then
    let si := c - SBase in
    let l := LBase + si / NCount in
    let v := VBase + (si mod NCount) / TCount in
    let t := TBase + si mod TCount in
    if t =? TBase then [l; v] else [l; v; t]
  else match PositiveMap.find (ckey c) (t_nfd T) with Some d => d | None => [c] end.

Definition decompose (s : list N) : list N := flat_map decompose1 s.

(** canonical ordering: a mark moves left past marks of strictly greater class (stable) *)
Fixpoint insert_mark (c k : N) (racc : list N) : list N :=
  (* [racc]: what precedes, last character first *)
  match racc with
  | p :: r => if (0 <? ccc p) && (k <? ccc p) then p :: insert_mark c k r else c :: racc
  | [] => [c]
  end.
Definition reorder (s : list N) : list N :=
  rev_append (fold_left (fun acc c => let k := ccc c in if k =? 0 then c :: acc else insert_mark c k acc) s []) [].

Definition compose_pair (a b : N) : option N :=
  if (LBase <=? a) && (a <? LBase + LCount) && (VBase <=? b) && (b <? VBase + VCount) then
    Some (SBase + ((a - LBase) * VCount + (b - VBase)) * TCount)
  else if (SBase <=? a) && (a <? SBase + SCount) && ((a - SBase) mod TCount =? 0) && (TBase <? b) && (b <? TBase + TCount) then
    Some (a + (b - TBase))
  else PositiveMap.find (pair_key a b) (t_comp T).

(** canonical composition.  State: finished output (reversed), the current starter, the marks
    kept after it (reversed), the class of the last of them (0 if none). *)
Record cstate := mkC { c_done : list N; c_starter : option N; c_pend : list N; c_last : N }.

Definition compose_step (st : cstate) (c : N) : cstate :=
  let k := ccc c in
  match c_starter st with
  | Some s =>
      let unblocked := (c_last st <? k) || (c_last st =? 0) in
      match (if unblocked then compose_pair s c else None) with
      | Some x => mkC (c_done st) (Some x) (c_pend st) (c_last st)
      | None =>
          if k =? 0 then mkC (c_pend st ++ s :: c_done st) (Some c) [] 0
          else mkC (c_done st) (Some s) (c :: c_pend st) k
      end
  | None =>
      if k =? 0 then mkC (c_done st) (Some c) [] 0
      else mkC (c :: c_done st) None [] 0
  end.

Definition compose (s : list N) : list N :=
  let st := fold_left compose_step s (mkC [] None [] 0) in
  rev_append (match c_starter st with Some x => c_pend st ++ x :: c_done st | None => c_done st end) [].

Definition nfc_with (s : list N) : list N := compose (reorder (decompose s)).

End WithTabs.

(** NFC as UAX #15 defines it.  golang.org/x/text/unicode/norm computes this function except on two kinds of
    exotic text, where it deviates from the standard (both recorded as findings against property C15, see
    DESIGN.md): it inserts U+034F after 30 consecutive non-starters ("stream-safe" output), and its composition
    pass does not treat a backward-combining character of class 0 (U+09BE, Hangul V/T jamo, ...) as a starter
    that blocks later marks. *)
Definition nfc (s : list N) : list N := let T := the_tabs in nfc_with T s.
