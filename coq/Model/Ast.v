(** Syntax trees (ast/expr.go, ast/stmt.go).  Two sorts; every node carries the
    same line data as the Go node.  Operators are token kinds. *)
From Borno Require Import Base Num Token.
Open Scope N_scope.

Inductive lit := LitNil | LitBool (b : bool) | LitNum (f : f64) | LitStr (s : list N).

Inductive expr :=
  | ELit (v : lit) (line : N)
  | EId (name : list N) (line : N)
  | EGroup (e : expr) (line : N)
  | EUnary (op : tkind) (e : expr) (line : N)
  | EBinary (op : tkind) (l r : expr) (line : N)
  | ELogical (op : tkind) (l r : expr)
  | EAssign (name : list N) (nline : N) (v : expr) (line : N)
  | EArrAssign (a i v : expr) (line : N)
  | EPropAssign (o : expr) (p : list N) (v : expr) (line : N)
  | ECall (callee : expr) (pline : N) (args : list expr)
  | EIndex (a i : expr) (line : N)
  | EProp (o : expr) (p : list N) (line : N)
  | EArray (es : list expr)
  | EObject (ps : list (list N * expr)).

(** one declarator of a [ধরি] statement: name, optional initializer, line of the name *)
Definition vdecl := (list N * option expr * N)%type.

Inductive stmt :=
  | SExpr (e : expr)
  | SPrint (e : expr)
  | SVar (d : vdecl)
  | SVarList (ds : list vdecl)
  | SBlock (ss : list stmt)
  | SIf (c : expr) (t : stmt) (e : option stmt)
  | SWhile (c : expr) (b : stmt)
  | SFor (init : option stmt) (c : expr) (inc : option expr) (b : stmt)
  | SBreak (line : N)
  | SContinue (line : N)
  | SReturn (kwline : N) (v : option expr)
  | SFun (name : list N) (params : list (list N)) (body : list stmt).

(** object-literal property table as the (repaired) parser builds it: keys in
    first-occurrence order, the last initializer written for a key wins *)
Fixpoint props_put {A} (ps : list (list N * A)) (k : list N) (v : A) : list (list N * A) :=
  match ps with
  | [] => [(k, v)]
  | (k', v') :: r => if str_eqb k k' then (k', v) :: r else (k', v') :: props_put r k v
  end.
