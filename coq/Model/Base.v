(** Base definitions shared by every layer of the Borno model.
    Text is a list of Unicode code points ([N]); lines are [N]. *)
From Coq Require Export List NArith ZArith Bool Arith Lia.
Export ListNotations.

Notation cp := N (only parsing).
Notation str := (list N) (only parsing).

Open Scope N_scope.

Fixpoint str_eqb (a b : list N) : bool :=
  match a, b with
  | [], [] => true
  | x :: a', y :: b' => (x =? y) && str_eqb a' b'
  | _, _ => false
  end.

(** Lexicographic order by code point = byte order of the UTF-8 encodings,
    which is what Go's [sort.Strings] and [fmt]'s sorted map printing use. *)
Fixpoint str_ltb (a b : list N) : bool :=
  match a, b with
  | [], [] => false
  | [], _ :: _ => true
  | _ :: _, [] => false
  | x :: a', y :: b' => if x <? y then true else if y <? x then false else str_ltb a' b'
  end.

Fixpoint span {A} (p : A -> bool) (l : list A) : list A * list A :=
  match l with
  | c :: r => if p c then let '(a, b) := span p r in (c :: a, b) else ([], l)
  | [] => ([], [])
  end.

Fixpoint assoc {A} (k : list N) (l : list (list N * A)) : option A :=
  match l with
  | [] => None
  | (k', v) :: r => if str_eqb k k' then Some v else assoc k r
  end.

Definition ascii (s : list N) := s.

(** decimal rendering of a natural number as code points *)
Fixpoint digits_of_pos_fuel (fuel : nat) (z : Z) (acc : list N) : list N :=
  match fuel with
  | O => acc
  | S f => if (z <? 10)%Z then (Z.to_N z + 48) :: acc
           else digits_of_pos_fuel f (z / 10)%Z ((Z.to_N (z mod 10)%Z + 48) :: acc)
  end.
Definition decimal_of_Z (z : Z) : list N :=
  if (z <? 0)%Z then 45 :: digits_of_pos_fuel (S (Z.to_nat (Z.log2 (- z)))) (- z)%Z []
  else digits_of_pos_fuel (S (Z.to_nat (Z.log2 z))) z [].

Fixpoint replicate {A} (n : nat) (x : A) : list A :=
  match n with O => [] | S k => x :: replicate k x end.

Definition lower_ascii (c : N) : N := if (65 <=? c) && (c <=? 90) then c + 32 else c.
