(** Character classes.  The range tables are regenerated from the Go toolchain's
    own [unicode.L], [unicode.M] and [unicode.White_Space] tables ([Gen/GenUnicode.v],
    written by [goref unicode] at set-up time), so [is_letter] / [is_mark] are
    Go's [unicode.IsLetter] / [unicode.IsMark] by construction of the table. *)
From Borno Require Import Base.
From Borno Require Import GenUnicode.
Open Scope N_scope.

Fixpoint in_ranges (l : list (N * N)) (c : N) : bool :=
  match l with
  | [] => false
  | (lo, hi) :: r => if c <? lo then false else if c <=? hi then true else in_ranges r c
  end.

(** two-level index: bucket [c / 4096] holds the ranges that intersect it *)
Definition bucket_size : N := 4096.
Definition ranges_for_bucket (l : list (N * N)) (b : N) : list (N * N) :=
  filter (fun r => (fst r <=? b * bucket_size + (bucket_size - 1)) && (b * bucket_size <=? snd r)) l.
Definition n_buckets : nat := 273.
Definition bucketize (l : list (N * N)) : list (list (N * N)) :=
  map (fun i => ranges_for_bucket l (N.of_nat i)) (seq 0 n_buckets).

Definition letter_buckets : list (list (N * N)) := Eval vm_compute in bucketize letter_ranges.
Definition mark_buckets : list (list (N * N)) := Eval vm_compute in bucketize mark_ranges.

Definition in_buckets (bs : list (list (N * N))) (c : N) : bool :=
  in_ranges (nth (N.to_nat (c / bucket_size)) bs []) c.

Definition is_letter (c : N) : bool := in_buckets letter_buckets c.
Definition is_mark (c : N) : bool := in_buckets mark_buckets c.
Definition is_space (c : N) : bool := in_ranges white_space_ranges c.

(** the lexer's classes (lexer/scanner.go: isDigit, isAlpha, isAlphaNumeric) *)
Definition is_digit (c : N) : bool := ((48 <=? c) && (c <=? 57)) || ((2534 <=? c) && (c <=? 2543)).
Definition is_alpha (c : N) : bool := is_letter c || is_mark c || (c =? 95).
Definition is_alnum (c : N) : bool := is_alpha c || is_digit c.

(** utils.ConvertBanglaDigitsToASCII on one character: the ten-entry table *)
Definition bangla_digit_table : list (N * N) :=
  [(2534, 48); (2535, 49); (2536, 50); (2537, 51); (2538, 52);
   (2539, 53); (2540, 54); (2541, 55); (2542, 56); (2543, 57)].
Fixpoint lookupN (c : N) (t : list (N * N)) : option N :=
  match t with [] => None | (k, v) :: r => if c =? k then Some v else lookupN c r end.
Definition translit (c : N) : N := match lookupN c bangla_digit_table with Some d => d | None => c end.
Definition translit_str (s : list N) : list N := map translit s.

(** strings.TrimSpace *)
Fixpoint drop_space (s : list N) : list N :=
  match s with c :: r => if is_space c then drop_space r else s | [] => [] end.
Definition trim_space (s : list N) : list N := rev (drop_space (rev (drop_space s))).
