(** The command-line driver (main.go): argument handling, the script pipeline
    lex -> parse -> (only if no diagnostic) interpret, exit status, and the REPL. *)
From Borno Require Import Base Num Unicode Token Lexer Ast Parser Value Eval.
Open Scope N_scope.

Inductive run_result :=
  | RFront (ld : list (N * lexdiag)) (pd : list pdiag)   (* rejected: nothing is executed *)
  | RDone (s : state)
  | RRuntime (e : rterr) (line : N) (s : state)
  | RCrash (s : state)
  | RFuel                                                  (* evaluation budget exhausted *)
  | RStuck
  | RParseFuel.                                            (* never: theorem parse_total *)

Inductive stderr_item :=
  | DLex (line : N) (d : lexdiag)
  | DParse (d : pdiag)
  | DRuntime (e : rterr) (line : N)
  | DFileError
  | DGoCrash.

Record proc_result := mkProc { p_stdout : list event; p_stderr : list stderr_item; p_status : N }.

Inductive outcome := PExit (r : proc_result) | PNoResult (why : run_result).

Inductive file_read := FileOk (content : list N) | FileErr.

(** filepath.Ext: the suffix from the last '.' of the last path element *)
Fixpoint ext_rev (l acc : list N) : list N :=
  (* [l] is the reversed path *)
  match l with
  | [] => []
  | c :: r => if c =? 47 then [] else if c =? 46 then c :: acc else ext_rev r (c :: acc)
  end.
Definition filepath_ext (p : list N) : list N := ext_rev (rev p) [].

Definition ext_bn : list N := [46; 98; 110].

(** bufio.ScanLines on the whole input *)
Fixpoint split_lines_aux (l cur : list N) : list (list N) :=
  (* [cur] is the current line, reversed *)
  match l with
  | [] => match cur with [] => [] | _ => [rev cur] end
  | c :: r => if c =? 10 then rev cur :: split_lines_aux r [] else split_lines_aux r (c :: cur)
  end.
Definition drop_cr (l : list N) : list N :=
  match rev l with c :: r => if c =? 13 then rev r else l | [] => l end.
Definition scan_lines (l : list N) : list (list N) := map drop_cr (split_lines_aux l []).

Definition s_usage : list N :=
  [85;115;97;103;101;58;32;98;111;114;110;111;32;91;115;99;114;105;112;116;93].
Definition s_badext : list N :=
  [73;110;118;97;108;105;100;32;102;105;108;101;32;101;120;116;101;110;115;105;111;110;46;32;80;108;101;97;115;101;32;117;115;101;32;96;46;98;110;96;32;102;111;114;32;66;111;114;110;111;32;115;99;114;105;112;116;115;46].
Definition s_prompt : list N := [62; 62; 32].

Section WithOracles.
Variable libm : N -> f64 -> f64 -> f64.
Variable clock : f64.
Variable sched : N -> list (list N * value) -> list (list N * value).
Variable eval_fuel : nat.

Definition run_source (repl : bool) (src : list N) (stdin : list N) : run_result :=
  let lx := lex src in
  let pr := parse (lx_tokens lx) (lx_eof_line lx) in
  if pr_fuel_out pr then RParseFuel
  else
    match lx_diags lx, pr_diags pr, pr_prog pr with
    | [], [], Some prog =>
        match run_stmts libm clock sched eval_fuel repl prog (init_state stdin) with
        | Ok _ s => RDone s
        | Err e l s => RRuntime e l s
        | Crash s => RCrash s
        | Fuel => RFuel
        | Stuck => RStuck
        end
    | ld, pd, _ => RFront ld pd
    end.

Definition front_items (ld : list (N * lexdiag)) (pd : list pdiag) : list stderr_item :=
  map (fun d => DLex (fst d) (snd d)) ld ++ map DParse pd.

(** what one run contributes to stdout / stderr, and the exit status a script run ends with *)
Definition result_streams (r : run_result) : option (list event * list stderr_item * N) :=
  match r with
  | RFront ld pd => Some ([], front_items ld pd, 65)
  | RDone s => Some (rev (out s), [], 0)
  | RRuntime e l s => Some (rev (out s), [DRuntime e l], 70)
  | RCrash s => Some (rev (out s), [DGoCrash], 2)
  | _ => None
  end.

Definition run_file (src stdin : list N) : outcome :=
  let r := run_source false src stdin in
  match result_streams r with
  | Some (o, e, st) => PExit (mkProc o e st)
  | None => PNoResult r
  end.

(** the REPL: every line is run by a fresh interpreter; the session's stdin is
    owned by the prompt reader, so ইনপুট inside a line sees end of input *)
Fixpoint repl_lines (ls : list (list N)) : option (list event * list stderr_item) :=
  match ls with
  | [] => Some ([EvPrompt s_prompt], [])
  | l :: r =>
      match result_streams (run_source true l []), repl_lines r with
      | Some (o, e, _), Some (o', e') => Some (EvPrompt s_prompt :: o ++ o', e ++ e')
      | _, _ => None
      end
  end.

Definition repl (stdin : list N) : outcome :=
  match repl_lines (scan_lines stdin) with
  | Some (o, e) => PExit (mkProc o e 0)
  | None => PNoResult RFuel
  end.

(** [args] = os.Args[1:] *)
Definition main (args : list (list N)) (fs : list N -> file_read) (stdin : list N) : outcome :=
  match args with
  | [] => repl stdin
  | [path] =>
      if str_eqb (filepath_ext path) ext_bn then
        match fs path with
        | FileOk src => run_file src stdin
        | FileErr => PExit (mkProc [] [DFileError] 1)
        end
      else PExit (mkProc [EvText s_badext] [] 64)
  | _ => PExit (mkProc [EvText s_usage] [] 64)
  end.

End WithOracles.

(** A concrete schedule for drivers: rotate the content by an amount that depends on a
    seed and on the iteration number (what Go does for maps of at most 8 entries). *)
Definition rotate_sched (seed : N) (n : N) (l : list (list N * value)) : list (list N * value) :=
  match l with
  | [] => []
  | _ => let k := N.to_nat ((seed + n * 7) mod N.of_nat (length l)) in skipn k l ++ firstn k l
  end.
