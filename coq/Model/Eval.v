(** The evaluator (interpreter/interpreter.go, function.go, native*.go): operators,
    value printing, built-ins, expressions and statements.  A run-time error is the
    [Err] outcome of the monad (the Go code sets a flag that every entry of [eval]
    polls; see DESIGN section 9, C06).  Oracles are section variables. *)
From Borno Require Import Base Num Unicode Token Ast Value.
Open Scope N_scope.

Inductive signal := SigNone | SigBreak (line : N) | SigContinue (line : N) | SigReturn (line : N) (v : value).

Inductive ores := OVal (v : value) | OErr (e : rterr) | ONoText.

(** three-way result of rendering a value *)
Inductive tres := TOk (t : list N) | TCycle | TStuck | TNoText.

Definition truthy (v : value) : bool :=
  match v with
  | VNil => false
  | VBool b => b
  | VNum x => negb (f_is_zero x)
  | VStr s => match s with [] => false | _ => true end
  | _ => true
  end.

Definition value_of_lit (l : lit) : value :=
  match l with LitNil => VNil | LitBool b => VBool b | LitNum x => VNum x | LitStr s => VStr s end.

(** [toNumber]: numbers, and strings that [strconv.ParseFloat] accepts after digit transliteration *)
Definition to_number (v : value) : option f64 :=
  match v with
  | VNum x => Some x
  | VStr s => parse_float (translit_str s)
  | _ => None
  end.

(** [toInt64] *)
Definition to_int (v : value) : option Z :=
  match to_number v with Some x => to_int64 x | None => None end.

Definition s_true : list N := [116;114;117;101].
Definition s_false : list N := [102;97;108;115;101].
Definition s_nil : list N := [110;105;108].
Definition s_nil_nested : list N := [60;110;105;108;62].

Fixpoint join_sp (l : list (list N)) : list N :=
  match l with
  | [] => []
  | [x] => x
  | x :: r => x ++ 32 :: join_sp r
  end.

Section WithOracles.
(** libm 0 = math.Pow, 1 = Sin, 2 = Cos, 3 = Tan (second argument ignored for 1-3) *)
Variable libm : N -> f64 -> f64 -> f64.
Variable clock : f64.
(** the order in which the host iterates a map of this content, at iteration number [n] *)
Variable sched : N -> list (list N * value) -> list (list N * value).

Definition f_pow (x y : f64) : f64 := libm 0 x y.

(* ---------------------------------------------------------------- *)
(** ** value text: fmt's %v *)

Definition wrap_arr (r : tres) : tres := match r with TOk t => TOk (91 :: t ++ [93]) | x => x end.
Definition wrap_obj (r : tres) : tres := match r with TOk t => TOk ([109;97;112;91] ++ t ++ [93]) | x => x end.

Fixpoint text_in (fuel : nat) (s : state) (v : value) {struct fuel} : tres :=
  match fuel with
  | O => TCycle
  | S f =>
      match v with
      | VNil => TOk s_nil_nested
      | VBool b => TOk (if b then s_true else s_false)
      | VNum x => match text_num x with Some t => TOk t | None => TNoText end
      | VStr t => TOk t
      | VArr l =>
          match get_arr l s with
          | Some vs =>
              wrap_arr ((fix go (vs : list value) : tres :=
                 match vs with
                 | [] => TOk []
                 | [v] => text_in f s v
                 | v :: r =>
                     match text_in f s v with
                     | TOk t => match go r with TOk t' => TOk (t ++ 32 :: t') | x => x end
                     | x => x
                     end
                 end) vs)
          | None => TStuck
          end
      | VObj l =>
          match get_obj l s with
          | Some ps =>
              wrap_obj ((fix go (ps : list (list N * value)) : tres :=
                 match ps with
                 | [] => TOk []
                 | [(k, v)] => match text_in f s v with TOk t => TOk (k ++ 58 :: t) | x => x end
                 | (k, v) :: r =>
                     match text_in f s v with
                     | TOk t => match go r with TOk t' => TOk (k ++ 58 :: t ++ 32 :: t') | x => x end
                     | x => x
                     end
                 end) ps)
          | None => TStuck
          end
      | VFun l =>
          match get_fun l s with
          | Some c => TOk ([60;102;117;110;99;116;105;111;110;32] ++ c_name c ++ [62])
          | None => TStuck
          end
      | VNative n => TOk ([60;110;97;116;105;118;101;32;102;110] ++ native_label n ++ [62])
      end
  end.

Definition print_fuel (s : state) : nat := S (S (length (arrs s) + length (objs s))).

(** [stringify] *)
Definition text_of (s : state) (v : value) : tres :=
  match v with
  | VNil => TOk s_nil
  | _ => text_in (print_fuel s) s v
  end.

(** the text [+] splices for a number *)
Definition num_text (x : f64) : option (list N) := text_num x.

(* ---------------------------------------------------------------- *)
(** ** operators *)

Definition arr_eqb (s : state) (x y : nat) : bool :=
  Nat.eqb x y ||
  match get_arr x s, get_arr y s with
  | Some [], Some [] => true
  | _, _ => false
  end.

Definition val_eqb (s : state) (a b : value) : bool :=
  match a, b with
  | VNil, VNil => true
  | VBool x, VBool y => Bool.eqb x y
  | VNum x, VNum y => f_eqb x y
  | VStr x, VStr y => str_eqb x y
  | VArr x, VArr y => arr_eqb s x y
  | VObj x, VObj y => Nat.eqb x y
  | VFun x, VFun y => Nat.eqb x y
  | VNative x, VNative y => native_eqb x y
  | _, _ => false
  end.

Definition arith (op : tkind) (a b : value) : ores :=
  match to_number a with
  | None => OErr RLeftNumber
  | Some x =>
      match to_number b with
      | None => OErr RRightNumber
      | Some y =>
          match op with
          | TMINUS => OVal (VNum (f_sub x y))
          | TSTAR => OVal (VNum (f_mul x y))
          | TSLASH => if f_is_zero y then OErr RDivZero else OVal (VNum (f_div x y))
          | TMODULO => if f_is_zero y then OErr RDivZero else OVal (VNum (f_mod x y))
          | TPOWER => OVal (VNum (f_pow x y))
          | TGREATER => OVal (VBool (f_gtb x y))
          | TGREATER_EQUAL => OVal (VBool (f_geb x y))
          | TLESS => OVal (VBool (f_ltb x y))
          | TLESS_EQUAL => OVal (VBool (f_leb x y))
          | _ => OVal VNil
          end
      end
  end.

Definition bitwise (op : tkind) (a b : value) : ores :=
  match to_int a with
  | None => OErr RLeftInteger
  | Some x =>
      match to_int b with
      | None => OErr RRightInteger
      | Some y =>
          match op with
          | TAND => OVal (VNum (f_of_Z (i64_and x y)))
          | TOR => OVal (VNum (f_of_Z (i64_or x y)))
          | TXOR => OVal (VNum (f_of_Z (i64_xor x y)))
          | TLEFT_SHIFT => if (y <? 0)%Z then OErr RNegShift else OVal (VNum (f_of_Z (i64_shl x y)))
          | TRIGHT_SHIFT => if (y <? 0)%Z then OErr RNegShift else OVal (VNum (f_of_Z (i64_shr x y)))
          | _ => OVal VNil
          end
      end
  end.

Definition add (a b : value) : ores :=
  match a with
  | VNum x =>
      match b with
      | VStr t => match num_text x with Some tx => OVal (VStr (tx ++ t)) | None => ONoText end
      | _ => match to_number b with
             | Some y => OVal (VNum (f_add x y))
             | None => OErr ROperandsNumStr
             end
      end
  | VStr t =>
      match b with
      | VStr u => OVal (VStr (t ++ u))
      | VNum y => match num_text y with Some ty => OVal (VStr (t ++ ty)) | None => ONoText end
      | VBool c => OVal (VStr (t ++ (if c then s_true else s_false)))
      | _ => OErr RRightStrNum
      end
  | _ => OErr ROperandsNumStr
  end.

Definition binop (s : state) (op : tkind) (a b : value) : ores :=
  match op with
  | TPLUS => add a b
  | TMINUS | TSTAR | TSLASH | TMODULO | TPOWER
  | TGREATER | TGREATER_EQUAL | TLESS | TLESS_EQUAL => arith op a b
  | TEQUAL_EQUAL => OVal (VBool (val_eqb s a b))
  | TBANG_EQUAL => OVal (VBool (negb (val_eqb s a b)))
  | TAND | TOR | TXOR | TLEFT_SHIFT | TRIGHT_SHIFT => bitwise op a b
  | _ => OVal VNil
  end.

Definition unop (op : tkind) (a : value) : ores :=
  match op with
  | TMINUS => match to_number a with Some x => OVal (VNum (f_neg x)) | None => OErr RUnaryNumber end
  | TBANG => OVal (VBool (negb (truthy a)))
  | TNOT => match to_int a with Some x => OVal (VNum (f_of_Z (i64_not x))) | None => OErr RUnaryInteger end
  | _ => OVal VNil
  end.

Definition lift_ores {A} (r : ores) (line : N) (s : state) (k : value -> res A) : res A :=
  match r with
  | OVal v => k v
  | OErr e => Err e line s
  | ONoText => Fuel
  end.

(* ---------------------------------------------------------------- *)
(** ** built-ins *)

Inductive nres := NOk (v : value) (s : state) | NFail (why : nfail) | NStuck.

Fixpoint insert_prop (p : list N * value) (l : list (list N * value)) : list (list N * value) :=
  match l with
  | [] => [p]
  | q :: r => if str_ltb (fst q) (fst p) then q :: insert_prop p r else p :: l
  end.
Definition sort_props (l : list (list N * value)) : list (list N * value) := fold_right insert_prop [] l.

(** one iteration over a Go map: the host's order, then (in the repaired code) a sort by key *)
Definition iterate_sorted (s : state) (cell : list (list N * value)) : list (list N * value) * state :=
  (sort_props (sched (tick s) cell), bump_tick s).

Fixpoint numbers_of (vs : list value) : option (list f64) :=
  match vs with
  | [] => Some []
  | v :: r => match to_number v, numbers_of r with Some x, Some xs => Some (x :: xs) | _, _ => None end
  end.

Definition least (xs : list f64) (first : f64) : f64 := fold_left (fun m x => if f_ltb x m then x else m) xs first.
Definition greatest (xs : list f64) (first : f64) : f64 := fold_left (fun m x => if f_gtb x m then x else m) xs first.

Definition min_max (is_min : bool) (args : list value) (s : state) : nres :=
  match args with
  | [] => NFail NfArgCount
  | _ =>
      let flat :=
        match args with
        | [VArr l] => get_arr l s
        | _ => Some args
        end in
      match flat with
      | None => NStuck
      | Some [] => NFail NfEmpty
      | Some vs =>
          match numbers_of vs with
          | Some (x :: xs) => NOk (VNum (if is_min then least xs x else greatest xs x)) s
          | _ => NFail NfNotNumber
          end
      end
  end.

Definition math1 (fn : f64 -> f64) (args : list value) (s : state) : nres :=
  match args with
  | [v] => match to_number v with Some x => NOk (VNum (fn x)) s | None => NFail NfNotNumber end
  | _ => NFail NfArgCount
  end.

(** one line of standard input, as [bufio.Reader.ReadString('\n')] returns it
    (including the newline), and the rest; [None] at end of input *)
Fixpoint read_line (l : list N) : list N * list N :=
  match l with
  | [] => ([], [])
  | c :: r => if c =? 10 then ([c], r) else let '(a, b) := read_line r in (c :: a, b)
  end.

Definition call_native (n : native) (args : list value) (s : state) : nres :=
  match n with
  | NClock => NOk (VNum clock) s
  | NLen =>
      match args with
      | [VArr l] => match get_arr l s with Some vs => NOk (VNum (f_of_Z (Z.of_nat (length vs)))) s | None => NStuck end
      | [_] => NFail NfNotArray
      | _ => NFail NfArgCount
      end
  | NAppend =>
      match args with
      | [] | [_] => NFail NfArgCount
      | VArr l :: extra =>
          match get_arr l s with
          | Some vs => let '(l', s') := alloc_arr (vs ++ extra) s in NOk (VArr l') s'
          | None => NStuck
          end
      | _ => NFail NfNotArray
      end
  | NRemove =>
      match args with
      | [VArr l; i] =>
          match get_arr l s with
          | Some vs =>
              match to_int i with
              | None => NFail NfIndexInt
              | Some z =>
                  if ((z <? 0) || (Z.of_nat (length vs) <=? z))%Z then NFail NfIndexBounds
                  else let '(l', s') := alloc_arr (remove_nth (Z.to_nat z) vs) s in NOk (VArr l') s'
              end
          | None => NStuck
          end
      | [_; _] => NFail NfNotArray
      | _ => NFail NfArgCount
      end
  | NDelete =>
      match args with
      | [VObj l; k] =>
          match get_obj l s with
          | Some ps =>
              match k with
              | VStr key =>
                  match assoc key ps with
                  | Some _ => NOk (VObj l) (set_obj l (alist_remove key ps) s)
                  | None => NFail NfKeyMissing
                  end
              | _ => NFail NfKeyType
              end
          | None => NStuck
          end
      | [_; _] => NFail NfNotObject
      | _ => NFail NfArgCount
      end
  | NKeys =>
      match args with
      | [VObj l] =>
          match get_obj l s with
          | Some ps =>
              let '(it, s1) := iterate_sorted s ps in
              let '(l', s2) := alloc_arr (map (fun p => VStr (fst p)) it) s1 in NOk (VArr l') s2
          | None => NStuck
          end
      | [_] => NFail NfNotObject
      | _ => NFail NfArgCount
      end
  | NValues =>
      match args with
      | [VObj l] =>
          match get_obj l s with
          | Some ps =>
              let '(it, s1) := iterate_sorted s ps in
              let '(l', s2) := alloc_arr (map snd it) s1 in NOk (VArr l') s2
          | None => NStuck
          end
      | [_] => NFail NfNotObject
      | _ => NFail NfArgCount
      end
  | NAbs => math1 f_abs args s
  | NSqrt => math1 f_sqrt args s
  | NRound => math1 f_round args s
  | NSin => math1 (fun x => libm 1 x x) args s
  | NCos => math1 (fun x => libm 2 x x) args s
  | NTan => math1 (fun x => libm 3 x x) args s
  | NPow =>
      match args with
      | [a; b] =>
          match to_number a, to_number b with
          | Some x, Some y => NOk (VNum (f_pow x y)) s
          | _, _ => NFail NfNotNumber
          end
      | _ => NFail NfArgCount
      end
  | NMin => min_max true args s
  | NMax => min_max false args s
  | NInput =>
      match args with
      | _ :: _ :: _ => NFail NfInputArgs
      | _ =>
          let prompted :=
            match args with
            | [VStr p] => Some (emit (EvPrompt p) s)
            | [_] => None
            | _ => Some s
            end in
          match prompted with
          | None => NFail NfInputType
          | Some s1 =>
              match inp s1 with
              | [] => NFail NfInputEOF     (* the prompt, if any, has been written; the caller keeps [s1]'s output *)
              | _ => let '(line, rest) := read_line (inp s1) in NOk (VStr (trim_space line)) (set_inp rest s1)
              end
          end
      end
  end.

(** the state after a failing built-in: only ইনপুট has an effect before it fails (its prompt) *)
Definition native_fail_state (n : native) (args : list value) (s : state) : state :=
  match n, args with
  | NInput, [VStr p] => emit (EvPrompt p) s
  | _, _ => s
  end.

(* ---------------------------------------------------------------- *)
(** ** expressions and statements *)

Definition arity_ok (expected : option nat) (given : nat) : bool :=
  match expected with Some k => Nat.eqb k given | None => true end.

Fixpoint bind_params (act : nat) (ps : list (list N)) (vs : list value) (s : state) : option state :=
  match ps, vs with
  | p :: ps', v :: vs' => match env_define act p v s with Some s' => bind_params act ps' vs' s' | None => None end
  | _, _ => Some s
  end.

Definition build_obj (kvs : list (list N * value)) : list (list N * value) :=
  fold_left (fun acc kv => sorted_put (fst kv) (snd kv) acc) kvs [].

Definition index_of (vs : list value) (iv : value) : option (option nat) :=
  (* outer None: not an integer; inner None: out of bounds *)
  match to_int iv with
  | None => None
  | Some z => if ((z <? 0) || (Z.of_nat (length vs) <=? z))%Z then Some None else Some (Some (Z.to_nat z))
  end.

Fixpoint eval (f : nat) (e : expr) (rho : nat) (s : state) {struct f} : res value :=
  match f with O => Fuel | S f =>
    match e with
    | ELit l _ => Ok (value_of_lit l) s
    | EId x line =>
        match env_get rho x s with
        | Some (Some v) => Ok v s
        | Some None => Err RUndefinedVar line s
        | None => Stuck
        end
    | EGroup e' _ => eval f e' rho s
    | EUnary op e' line =>
        let* (v, s1) := eval f e' rho s in
        lift_ores (unop op v) line s1 (fun r => Ok r s1)
    | EBinary op l r line =>
        let* (a, s1) := eval f l rho s in
        let* (b, s2) := eval f r rho s1 in
        lift_ores (binop s2 op a b) line s2 (fun r => Ok r s2)
    | ELogical op l r =>
        let* (a, s1) := eval f l rho s in
        if tkind_eqb op TLOGICAL_OR then (if truthy a then Ok a s1 else eval f r rho s1)
        else (if truthy a then eval f r rho s1 else Ok a s1)
    | EAssign x nline ve _ =>
        let* (v, s1) := eval f ve rho s in
        match env_assign rho x v s1 with
        | Some (Some s2) => Ok v s2
        | Some None => Err RUndefinedAssign nline s1
        | None => Stuck
        end
    | EArrAssign ae ie ve line =>
        let* (a, s1) := eval f ae rho s in
        let* (i, s2) := eval f ie rho s1 in
        let* (v, s3) := eval f ve rho s2 in
        match a with
        | VArr l =>
            match get_arr l s3 with
            | Some vs =>
                match index_of vs i with
                | None => Err RIndexInteger line s3
                | Some None => Err RIndexBounds line s3
                | Some (Some n) => Ok v (set_arr l (set_nth n v vs) s3)
                end
            | None => Stuck
            end
        | _ => Err RNotArrayAssign line s3
        end
    | EPropAssign oe p ve line =>
        let* (o, s1) := eval f oe rho s in
        match o with
        | VObj l =>
            let* (v, s2) := eval f ve rho s1 in
            match get_obj l s2 with
            | Some ps => Ok v (set_obj l (sorted_put p v ps) s2)
            | None => Stuck
            end
        | _ => Err RNotObjectAssign line s1
        end
    | ECall ce pline args =>
        let* (c, s1) := eval f ce rho s in
        match c with
        | VFun l =>
            match get_fun l s1 with
            | Some clo =>
                if negb (Nat.eqb (length (c_params clo)) (length args)) then Err RArity pline s1
                else
                  let* (vs, s2) := eval_list f args rho s1 in
                  let '(act, s3) := alloc_env (Some (c_env clo)) s2 in
                  match env_define act (c_name clo) (VFun l) s3 with
                  | Some s4 =>
                      match bind_params act (c_params clo) vs s4 with
                      | Some s5 =>
                          let* (sig, s6) := exec_list f false (c_body clo) act s5 in
                          Ok (match sig with SigReturn _ v => v | _ => VNil end) s6
                      | None => Stuck
                      end
                  | None => Stuck
                  end
            | None => Stuck
            end
        | VNative n =>
            if negb (arity_ok (native_arity n) (length args)) then Err RArity pline s1
            else
              let* (vs, s2) := eval_list f args rho s1 in
              match call_native n vs s2 with
              | NOk v s3 => Ok v s3
              | NFail why => Err (RCallFailed why) pline (native_fail_state n vs s2)
              | NStuck => Stuck
              end
        | _ => Err RNotCallable pline s1
        end
    | EIndex ae ie line =>
        let* (a, s1) := eval f ae rho s in
        let* (i, s2) := eval f ie rho s1 in
        match a with
        | VArr l =>
            match get_arr l s2 with
            | Some vs =>
                match index_of vs i with
                | None => Err RIndexInteger line s2
                | Some None => Err RIndexBounds line s2
                | Some (Some n) => match nth_error vs n with Some v => Ok v s2 | None => Stuck end
                end
            | None => Stuck
            end
        | _ => Err RNotArrayAccess line s2
        end
    | EProp oe p line =>
        let* (o, s1) := eval f oe rho s in
        match o with
        | VObj l =>
            match get_obj l s1 with
            | Some ps => match assoc p ps with Some v => Ok v s1 | None => Err RNoProperty line s1 end
            | None => Stuck
            end
        | _ => Err RNotObjectAccess line s1
        end
    | EArray es =>
        let* (vs, s1) := eval_list f es rho s in
        let '(l, s2) := alloc_arr vs s1 in Ok (VArr l) s2
    | EObject ps =>
        let* (kvs, s1) := eval_props f ps rho s in
        let '(l, s2) := alloc_obj (build_obj kvs) s1 in Ok (VObj l) s2
    end
  end
with eval_list (f : nat) (es : list expr) (rho : nat) (s : state) {struct f} : res (list value) :=
  match f with O => Fuel | S f =>
    match es with
    | [] => Ok [] s
    | e :: r =>
        let* (v, s1) := eval f e rho s in
        let* (vs, s2) := eval_list f r rho s1 in
        Ok (v :: vs) s2
    end
  end
with eval_props (f : nat) (ps : list (list N * expr)) (rho : nat) (s : state) {struct f} : res (list (list N * value)) :=
  match f with O => Fuel | S f =>
    match ps with
    | [] => Ok [] s
    | (k, e) :: r =>
        let* (v, s1) := eval f e rho s in
        let* (kvs, s2) := eval_props f r rho s1 in
        Ok ((k, v) :: kvs) s2
    end
  end
with exec (f : nat) (repl : bool) (st : stmt) (rho : nat) (s : state) {struct f} : res signal :=
  match f with O => Fuel | S f =>
    match st with
    | SExpr e =>
        let* (v, s1) := eval f e rho s in
        if repl then
          match text_of s1 v with
          | TOk t => Ok SigNone (emit (EvEcho t) s1)
          | TCycle => Crash s1
          | TStuck => Stuck
          | TNoText => Fuel
          end
        else Ok SigNone s1
    | SPrint e =>
        let* (v, s1) := eval f e rho s in
        match text_of s1 v with
        | TOk t => Ok SigNone (emit (EvPrint t) s1)
        | TCycle => Crash s1
        | TStuck => Stuck
        | TNoText => Fuel
        end
    | SVar d => exec_var f d rho s
    | SVarList ds => exec_vars f ds rho s
    | SBlock ss =>
        let '(rho', s1) := alloc_env (Some rho) s in
        exec_list f repl ss rho' s1
    | SIf c t e =>
        let* (cv, s1) := eval f c rho s in
        if truthy cv then exec f repl t rho s1
        else match e with Some e' => exec f repl e' rho s1 | None => Ok SigNone s1 end
    | SWhile c b => exec_while f repl c b rho s
    | SFor init c inc b =>
        let '(rho', s1) := alloc_env (Some rho) s in
        let* (sig, s2) := (match init with Some i => exec f repl i rho' s1 | None => Ok SigNone s1 end) in
        match sig with
        | SigNone => exec_for f repl c inc b rho' s2
        | _ => Ok sig s2
        end
    | SBreak line => Ok (SigBreak line) s
    | SContinue line => Ok (SigContinue line) s
    | SReturn kw ve =>
        match ve with
        | Some e => let* (v, s1) := eval f e rho s in Ok (SigReturn kw v) s1
        | None => Ok (SigReturn kw VNil) s
        end
    | SFun name params body =>
        let '(cenv, s1) := alloc_env (Some rho) s in
        let '(l, s2) := alloc_fun (mkClo name params body cenv) s1 in
        match env_define rho name (VFun l) s2 with
        | Some s3 => Ok SigNone s3
        | None => Stuck
        end
    end
  end
with exec_var (f : nat) (d : vdecl) (rho : nat) (s : state) {struct f} : res signal :=
  match f with O => Fuel | S f =>
    let '(x, init, line) := d in
    let* (v, s1) := (match init with Some e => eval f e rho s | None => Ok VNil s end) in
    match env_get_here rho x s1 with
    | Some None => match env_define rho x v s1 with Some s2 => Ok SigNone s2 | None => Stuck end
    | Some (Some _) => Err RRedeclare line s1
    | None => Stuck
    end
  end
with exec_vars (f : nat) (ds : list vdecl) (rho : nat) (s : state) {struct f} : res signal :=
  match f with O => Fuel | S f =>
    match ds with
    | [] => Ok SigNone s
    | d :: r => let* (_x, s1) := exec_var f d rho s in exec_vars f r rho s1
    end
  end
with exec_list (f : nat) (repl : bool) (ss : list stmt) (rho : nat) (s : state) {struct f} : res signal :=
  match f with O => Fuel | S f =>
    match ss with
    | [] => Ok SigNone s
    | st :: r =>
        let* (sig, s1) := exec f repl st rho s in
        match sig with
        | SigNone => exec_list f repl r rho s1
        | _ => Ok sig s1
        end
    end
  end
with exec_while (f : nat) (repl : bool) (c : expr) (b : stmt) (rho : nat) (s : state) {struct f} : res signal :=
  match f with O => Fuel | S f =>
    let* (cv, s1) := eval f c rho s in
    if truthy cv then
      let* (sig, s2) := exec f repl b rho s1 in
      match sig with
      | SigBreak _ => Ok SigNone s2
      | SigReturn _ _ => Ok sig s2
      | _ => exec_while f repl c b rho s2
      end
    else Ok SigNone s1
  end
with exec_for (f : nat) (repl : bool) (c : expr) (inc : option expr) (b : stmt) (rho : nat) (s : state) {struct f} : res signal :=
  match f with O => Fuel | S f =>
    let* (cv, s1) := eval f c rho s in
    if truthy cv then
      let* (sig, s2) := exec f repl b rho s1 in
      match sig with
      | SigBreak _ => Ok SigNone s2
      | SigReturn _ _ => Ok sig s2
      | _ =>
          let* (_v, s3) := (match inc with Some i => eval f i rho s2 | None => Ok VNil s2 end) in
          exec_for f repl c inc b rho s3
      end
    else Ok SigNone s1
  end.

(** [Interpret]: the statements of a program in the top-level scope; a signal that
    reaches the top level is a runtime error at the line it carries *)
Fixpoint run_stmts (f : nat) (repl : bool) (ss : list stmt) (s : state) {struct ss} : res unit :=
  match ss with
  | [] => Ok tt s
  | st :: r =>
      let* (sig, s1) := exec f repl st top_env s in
      match sig with
      | SigNone => run_stmts f repl r s1
      | SigBreak l => Err RStrayBreak l s1
      | SigContinue l => Err RStrayContinue l s1
      | SigReturn l _ => Err RStrayReturn l s1
      end
  end.

End WithOracles.
