(** Run-time values, the store (scopes, array cells, object cells, closures),
    output events, diagnostics, and the primitive operations on them
    (environment/environment.go; Go slices, maps and pointers). *)
From Borno Require Import Base Num Token Ast.
Open Scope N_scope.

(** the 17 built-ins, in the order interpreter.NewInterpreter registers them *)
Inductive native :=
  | NClock | NLen | NAppend | NRemove | NDelete | NKeys | NValues
  | NAbs | NSqrt | NPow | NSin | NCos | NTan | NMin | NMax | NRound | NInput.

Definition all_natives : list native :=
  [NClock; NLen; NAppend; NRemove; NDelete; NKeys; NValues;
   NAbs; NSqrt; NPow; NSin; NCos; NTan; NMin; NMax; NRound; NInput].

Definition native_code (n : native) : N :=
  match n with
  | NClock => 0 | NLen => 1 | NAppend => 2 | NRemove => 3 | NDelete => 4 | NKeys => 5 | NValues => 6
  | NAbs => 7 | NSqrt => 8 | NPow => 9 | NSin => 10 | NCos => 11 | NTan => 12 | NMin => 13 | NMax => 14
  | NRound => 15 | NInput => 16
  end.
Definition native_eqb (a b : native) : bool := native_code a =? native_code b.

(** the global name each built-in is registered under *)
Definition native_name (n : native) : list N :=
  match n with
  | NClock => [2453;2509;2482;2453]
  | NLen => [2482;2503;2472]
  | NAppend => [2447;2465]
  | NRemove => [2480;2495;2478;2497;2477]
  | NDelete => [2453;2495;95;2480;2495;2478;2497;2477]
  | NKeys => [2437;2476;2509;2460;2503;2453;2509;2463;95;2453;2495]
  | NValues => [2437;2476;2509;2460;2503;2453;2509;2463;95;2478;2494;2472]
  | NAbs => [2474;2480;2478;2478;2494;2472]
  | NSqrt => [2476;2480;2509;2455;2478;2498;2482]
  | NPow => [2456;2494;2468]
  | NSin => [2488;2494;2439;2472]
  | NCos => [2453;2488;2494;2439;2472]
  | NTan => [2463;2509;2479;2494;2472]
  | NMin => [2488;2480;2509;2476;2472;2495;2478;2509;2472]
  | NMax => [2488;2480;2509;2476;2507;2458;2509;2458]
  | NRound => [2480;2494;2441;2472;2509;2465]
  | NInput => [2439;2472;2474;2497;2463]
  end.

(** [Arity()]: [None] = variadic (-1) *)
Definition native_arity (n : native) : option nat :=
  match n with
  | NClock => Some 0%nat
  | NLen => Some 1%nat
  | NAppend => None
  | NRemove => Some 2%nat
  | NDelete => Some 2%nat
  | NKeys => Some 1%nat
  | NValues => Some 1%nat
  | NAbs | NSqrt | NSin | NCos | NTan | NRound => Some 1%nat
  | NPow => Some 2%nat
  | NMin | NMax => None
  | NInput => None
  end.

(** what [String()] prints after "<native fn" *)
Definition native_label (n : native) : list N :=
  match n with
  | NClock => []
  | NLen => [32;108;101;110]
  | NAppend => [32;97;112;112;101;110;100]
  | NRemove => [32;114;101;109;111;118;101]
  | NDelete => [32;100;101;108;101;116;101]
  | NKeys => [32;107;101;121;115]
  | NValues => [32;118;97;108;117;101;115]
  | NAbs => [32;97;98;115]
  | NSqrt => [32;115;113;114;116]
  | NPow => [32;112;111;119]
  | NSin => [32;115;105;110]
  | NCos => [32;99;111;115]
  | NTan => [32;116;97;110]
  | NMin => [32;109;105;110]
  | NMax => [32;109;97;120]
  | NRound => [32;114;111;117;110;100]
  | NInput => [32;105;110;112;117;116]
  end.

Inductive value :=
  | VNil
  | VBool (b : bool)
  | VNum (f : f64)
  | VStr (s : list N)
  | VArr (l : nat)      (* location of an array cell *)
  | VObj (l : nat)      (* location of an object cell *)
  | VFun (l : nat)      (* location of a closure *)
  | VNative (n : native).

Record closure := mkClo { c_name : list N; c_params : list (list N); c_body : list stmt; c_env : nat }.

(** a scope: bindings (unique names, newest last) and the parent scope *)
Definition scope := (list (list N * value) * option nat)%type.

Inductive event :=
  | EvPrint (txt : list N)     (* দেখাও: text, then newline; the process NFC-normalises the text *)
  | EvEcho (txt : list N)      (* REPL echo of an expression statement: text, newline, not normalised *)
  | EvPrompt (txt : list N)    (* ইনপুট prompt, or the REPL's ">> " *)
  | EvText (txt : list N).     (* a fixed message line on stdout (usage, bad extension) *)

Record state := mkState {
  envs : list scope;
  arrs : list (list value);
  objs : list (list (list N * value));      (* each cell sorted by key, keys unique *)
  funs : list closure;
  out : list event;                         (* newest first *)
  inp : list N;                             (* unread stdin *)
  tick : N                                  (* number of map iterations so far: index into the schedule *)
}.

(** run-time diagnostics, one constructor per message *)
Inductive nfail :=
  | NfArgCount | NfNotArray | NfNotObject | NfIndexInt | NfIndexBounds | NfKeyType | NfKeyMissing
  | NfNotNumber | NfEmpty | NfInputArgs | NfInputType | NfInputEOF.

Inductive rterr :=
  | RLeftNumber | RRightNumber | RLeftInteger | RRightInteger | RDivZero
  | ROperandsNumStr | RRightStrNum | RNegShift
  | RUnaryNumber | RUnaryInteger
  | RUndefinedVar | RUndefinedAssign | RRedeclare
  | RNotObjectAssign | RNotObjectAccess | RNoProperty
  | RNotArrayAccess | RNotArrayAssign | RIndexInteger | RIndexBounds
  | RNotCallable | RArity | RCallFailed (why : nfail)
  | RStrayBreak | RStrayContinue | RStrayReturn.

(** outcome of a computation.  [Fuel]: the step budget ran out (the program may
    not terminate).  [Stuck]: a dangling location or scope id (proved unreachable).
    [Crash]: what the Go runtime does when printing a value that contains itself
    (unbounded recursion in fmt). *)
Inductive res (A : Type) :=
  | Ok (a : A) (s : state)
  | Err (e : rterr) (line : N) (s : state)
  | Fuel
  | Stuck
  | Crash (s : state).
Arguments Ok {A}. Arguments Err {A}. Arguments Fuel {A}. Arguments Stuck {A}. Arguments Crash {A}.

Definition bind {A B} (r : res A) (k : A -> state -> res B) : res B :=
  match r with
  | Ok a s => k a s
  | Err e l s => Err e l s
  | Fuel => Fuel
  | Stuck => Stuck
  | Crash s => Crash s
  end.
Notation "'let*' ( a , s ) := e 'in' k" := (bind e (fun a s => k)) (at level 200, a name, s name, e at level 100, k at level 200).

(* ---------------------------------------------------------------- *)
(** ** list helpers *)

Fixpoint set_nth {A} (n : nat) (x : A) (l : list A) : list A :=
  match l, n with
  | [], _ => []
  | _ :: r, O => x :: r
  | y :: r, S k => y :: set_nth k x r
  end.

Fixpoint remove_nth {A} (n : nat) (l : list A) : list A :=
  match l, n with
  | [], _ => []
  | _ :: r, O => r
  | y :: r, S k => y :: remove_nth k r
  end.

Fixpoint alist_set {A} (k : list N) (v : A) (l : list (list N * A)) : list (list N * A) :=
  match l with
  | [] => [(k, v)]
  | (k', v') :: r => if str_eqb k k' then (k', v) :: r else (k', v') :: alist_set k v r
  end.

(** insertion into a key-sorted association list (replace if present) *)
Fixpoint sorted_put {A} (k : list N) (v : A) (l : list (list N * A)) : list (list N * A) :=
  match l with
  | [] => [(k, v)]
  | (k', v') :: r =>
      if str_eqb k k' then (k', v) :: r
      else if str_ltb k k' then (k, v) :: l
      else (k', v') :: sorted_put k v r
  end.

Fixpoint alist_remove {A} (k : list N) (l : list (list N * A)) : list (list N * A) :=
  match l with
  | [] => []
  | (k', v') :: r => if str_eqb k k' then r else (k', v') :: alist_remove k r
  end.

(* ---------------------------------------------------------------- *)
(** ** scopes *)

Definition alloc_env (parent : option nat) (s : state) : nat * state :=
  (length (envs s),
   mkState (envs s ++ [([], parent)]) (arrs s) (objs s) (funs s) (out s) (inp s) (tick s)).

Definition set_envs (s : state) (e : list scope) : state :=
  mkState e (arrs s) (objs s) (funs s) (out s) (inp s) (tick s).

(** [Define]: overwrite or add, in this scope only *)
Definition env_define (rho : nat) (x : list N) (v : value) (s : state) : option state :=
  match nth_error (envs s) rho with
  | Some (b, p) => Some (set_envs s (set_nth rho (alist_set x v b, p) (envs s)))
  | None => None
  end.

Definition env_get_here (rho : nat) (x : list N) (s : state) : option (option value) :=
  match nth_error (envs s) rho with
  | Some (b, _) => Some (assoc x b)
  | None => None
  end.

(** [Get]: walk the parent chain.  [fuel] bounds the walk; with parents older than
    children, [length (envs s)] steps always suffice.  Outer [None] = dangling id or
    the bound was hit (never, by [wf_state]); inner [None] = unbound name. *)
Fixpoint env_lookup (fuel : nat) (rho : nat) (x : list N) (s : state) : option (option (nat * value)) :=
  match fuel with
  | O => None
  | S f =>
      match nth_error (envs s) rho with
      | Some (b, p) =>
          match assoc x b with
          | Some v => Some (Some (rho, v))
          | None => match p with Some q => env_lookup f q x s | None => Some None end
          end
      | None => None
      end
  end.

Definition env_get (rho : nat) (x : list N) (s : state) : option (option value) :=
  match env_lookup (S (length (envs s))) rho x s with
  | Some (Some (_, v)) => Some (Some v)
  | Some None => Some None
  | None => None
  end.

(** [Assign]: update the binding [Get] would find; inner [None] = no such binding *)
Definition env_assign (rho : nat) (x : list N) (v : value) (s : state) : option (option state) :=
  match env_lookup (S (length (envs s))) rho x s with
  | Some (Some (q, _)) =>
      match env_define q x v s with Some s' => Some (Some s') | None => None end
  | Some None => Some None
  | None => None
  end.

(* ---------------------------------------------------------------- *)
(** ** heap cells *)

Definition alloc_arr (vs : list value) (s : state) : nat * state :=
  (length (arrs s), mkState (envs s) (arrs s ++ [vs]) (objs s) (funs s) (out s) (inp s) (tick s)).
Definition alloc_obj (ps : list (list N * value)) (s : state) : nat * state :=
  (length (objs s), mkState (envs s) (arrs s) (objs s ++ [ps]) (funs s) (out s) (inp s) (tick s)).
Definition alloc_fun (c : closure) (s : state) : nat * state :=
  (length (funs s), mkState (envs s) (arrs s) (objs s) (funs s ++ [c]) (out s) (inp s) (tick s)).

Definition get_arr (l : nat) (s : state) : option (list value) := nth_error (arrs s) l.
Definition get_obj (l : nat) (s : state) : option (list (list N * value)) := nth_error (objs s) l.
Definition get_fun (l : nat) (s : state) : option closure := nth_error (funs s) l.

Definition set_arr (l : nat) (vs : list value) (s : state) : state :=
  mkState (envs s) (set_nth l vs (arrs s)) (objs s) (funs s) (out s) (inp s) (tick s).
Definition set_obj (l : nat) (ps : list (list N * value)) (s : state) : state :=
  mkState (envs s) (arrs s) (set_nth l ps (objs s)) (funs s) (out s) (inp s) (tick s).

Definition emit (e : event) (s : state) : state :=
  mkState (envs s) (arrs s) (objs s) (funs s) (e :: out s) (inp s) (tick s).
Definition set_inp (i : list N) (s : state) : state :=
  mkState (envs s) (arrs s) (objs s) (funs s) (out s) i (tick s).
Definition bump_tick (s : state) : state :=
  mkState (envs s) (arrs s) (objs s) (funs s) (out s) (inp s) (tick s + 1).

(** the initial store: scope 0 = globals with the 17 built-ins, scope 1 = the
    program's own top-level scope (child of the globals) *)
Definition globals_bindings : list (list N * value) :=
  map (fun n => (native_name n, VNative n)) all_natives.
Definition init_state (stdin : list N) : state :=
  mkState [(globals_bindings, None); ([], Some 0%nat)] [] [] [] [] stdin 0.
Definition top_env : nat := 1%nat.
