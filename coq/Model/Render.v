(** Rendering of the model's observables as text (code points), used by the
    extracted driver and by the kernel cross-check: the same function is evaluated
    by [vm_compute] inside coqc and by the extracted OCaml code, and the two texts
    must be identical. *)
From Coq Require Import String Ascii.
From Borno Require Import Base Num Unicode Token Lexer Ast Parser Value Eval Cli Nfc.
Open Scope N_scope.

Definition s2l (s : string) : list N := map (fun a => N.of_nat (nat_of_ascii a)) (list_ascii_of_string s).

Definition dec (n : N) : list N := decimal_of_Z (Z.of_N n).

Fixpoint join (sep : list N) (l : list (list N)) : list N :=
  match l with
  | [] => []
  | [x] => x
  | x :: r => x ++ sep ++ join sep r
  end.

Definition cps (l : list N) : list N := join [44] (map dec l).      (* 1,2,3 *)

Definition lexdiag_name (d : lexdiag) : list N :=
  s2l match d with
      | LexUnexpectedChar => "LexUnexpectedChar" | LexBadNumber => "LexBadNumber"
      | LexUnterminatedString => "LexUnterminatedString" | LexUnterminatedComment => "LexUnterminatedComment"
      end.

Definition pkind_name (k : pkind) : list N :=
  s2l match k with
      | PExpectVarName => "PExpectVarName" | PReservedVar => "PReservedVar" | PSemiBeforeNewline => "PSemiBeforeNewline"
      | PSemiAfterVar => "PSemiAfterVar" | PSemiAfterBreak => "PSemiAfterBreak" | PSemiAfterContinue => "PSemiAfterContinue"
      | PLParenAfterFor => "PLParenAfterFor" | PSemiAfterLoopCond => "PSemiAfterLoopCond" | PRParenAfterFor => "PRParenAfterFor"
      | PLParenAfterWhile => "PLParenAfterWhile" | PRParenAfterCond => "PRParenAfterCond" | PLParenAfterIf => "PLParenAfterIf"
      | PRParenAfterIfCond => "PRParenAfterIfCond" | PSemiAfterValue => "PSemiAfterValue" | PSemiAfterReturn => "PSemiAfterReturn"
      | PExpectFunName => "PExpectFunName" | PReservedFun => "PReservedFun" | PLParenAfterFunName => "PLParenAfterFunName"
      | PTooManyParams => "PTooManyParams" | PExpectParam => "PExpectParam" | PRParenAfterParams => "PRParenAfterParams"
      | PLBraceBeforeBody => "PLBraceBeforeBody" | PRBraceAfterBlock => "PRBraceAfterBlock" | PInvalidAssign => "PInvalidAssign"
      | PRBracketAfterIndex => "PRBracketAfterIndex" | PPropAfterDot => "PPropAfterDot" | PRParenAfterArgs => "PRParenAfterArgs"
      | PRParenAfterExpr => "PRParenAfterExpr" | PExpectExpr => "PExpectExpr" | PPropName => "PPropName"
      | PColonAfterProp => "PColonAfterProp" | PRBraceAfterObject => "PRBraceAfterObject" | PRBracketAfterElems => "PRBracketAfterElems"
      end.

Definition nfail_name (w : nfail) : list N :=
  s2l match w with
      | NfArgCount => "NfArgCount" | NfNotArray => "NfNotArray" | NfNotObject => "NfNotObject" | NfIndexInt => "NfIndexInt"
      | NfIndexBounds => "NfIndexBounds" | NfKeyType => "NfKeyType" | NfKeyMissing => "NfKeyMissing" | NfNotNumber => "NfNotNumber"
      | NfEmpty => "NfEmpty" | NfInputArgs => "NfInputArgs" | NfInputType => "NfInputType" | NfInputEOF => "NfInputEOF"
      end.

Definition rterr_name (e : rterr) : list N :=
  match e with
  | RCallFailed w => s2l "RCallFailed." ++ nfail_name w
  | _ =>
    s2l match e with
        | RLeftNumber => "RLeftNumber" | RRightNumber => "RRightNumber" | RLeftInteger => "RLeftInteger"
        | RRightInteger => "RRightInteger" | RDivZero => "RDivZero" | ROperandsNumStr => "ROperandsNumStr"
        | RRightStrNum => "RRightStrNum" | RNegShift => "RNegShift" | RUnaryNumber => "RUnaryNumber"
        | RUnaryInteger => "RUnaryInteger" | RUndefinedVar => "RUndefinedVar" | RUndefinedAssign => "RUndefinedAssign"
        | RRedeclare => "RRedeclare" | RNotObjectAssign => "RNotObjectAssign" | RNotObjectAccess => "RNotObjectAccess"
        | RNoProperty => "RNoProperty" | RNotArrayAccess => "RNotArrayAccess" | RNotArrayAssign => "RNotArrayAssign"
        | RIndexInteger => "RIndexInteger" | RIndexBounds => "RIndexBounds" | RNotCallable => "RNotCallable"
        | RArity => "RArity" | RCallFailed _ => "RCallFailed"
        | RStrayBreak => "RStrayBreak" | RStrayContinue => "RStrayContinue" | RStrayReturn => "RStrayReturn"
        end
  end.

(** what the process writes for a [দেখাও] is the NFC form of the text ([T]: the normalisation tables) *)
Definition event_str (T : tabs) (e : event) : list N :=
  match e with
  | EvPrint t => s2l "P:" ++ cps (nfc_with T t)
  | EvEcho t => s2l "E:" ++ cps t
  | EvPrompt t => s2l "Q:" ++ cps t
  | EvText t => s2l "T:" ++ cps t
  end.

Definition where_str (w : option (list N)) : list N :=
  match w with None => s2l "end" | Some l => s2l "at=" ++ cps l end.

Definition item_str (i : stderr_item) : list N :=
  match i with
  | DLex l d => s2l "L:" ++ dec l ++ [58] ++ lexdiag_name d
  | DParse d => s2l "S:" ++ dec (pd_line d) ++ [58] ++ pkind_name (pd_kind d) ++ [58] ++ where_str (pd_where d)
  | DRuntime e l => s2l "R:" ++ dec l ++ [58] ++ rterr_name e
  | DFileError => s2l "F"
  | DGoCrash => s2l "C"
  end.

(** status TAB events TAB stderr-items *)
Definition outcome_str (o : outcome) : list N :=
  match o with
  | PExit r => let T := the_tabs in
      dec (p_status r) ++ [9] ++ join [32] (map (event_str T) (p_stdout r)) ++ [9] ++ join [32] (map item_str (p_stderr r))
  | PNoResult why =>
      s2l "noresult:" ++ s2l (match why with RFuel => "fuel" | RStuck => "stuck" | RParseFuel => "parsefuel" | _ => "other" end) ++ [9; 9]
  end.

(** tokens and syntax trees in godump's notation *)
Definition angle (l : list N) : list N := [60] ++ join [46] (map dec l) ++ [62].
Definition bits_str (f : f64) : list N := decimal_of_Z (f_to_bits f).
Definition lit_tok_str (l : literal) : list N :=
  match l with LNone => s2l "nil" | LNum f => s2l "num:" ++ bits_str f | LStr s => s2l "str:" ++ angle s end.
Definition tok_str (t : token) : list N :=
  dec (tkind_code (tk t)) ++ [32] ++ angle (tlex t) ++ [32] ++ lit_tok_str (tlit t) ++ [32] ++ dec (tline t).
Definition lit_ast_str (l : lit) : list N :=
  match l with
  | LitNil => s2l "nil" | LitBool true => s2l "true" | LitBool false => s2l "false"
  | LitNum f => s2l "num:" ++ bits_str f | LitStr s => s2l "str:" ++ angle s
  end.
Definition code (k : tkind) : list N := dec (tkind_code k).
Definition par (l : list (list N)) : list N := [40] ++ join [32] l ++ [41].
Definition brk (l : list (list N)) : list N := [91] ++ join [32] l ++ [93].

Fixpoint sx (e : expr) : list N :=
  match e with
  | ELit v l => par [s2l "lit"; lit_ast_str v; dec l]
  | EId x l => par [s2l "id"; angle x; dec l]
  | EGroup e l => par [s2l "group"; sx e; dec l]
  | EUnary op e l => par [s2l "unary"; code op; sx e; dec l]
  | EBinary op a b l => par [s2l "binary"; code op; sx a; sx b; dec l]
  | ELogical op a b => par [s2l "logical"; code op; sx a; sx b]
  | EAssign x _ v l => par [s2l "assign"; angle x; sx v; dec l]
  | EArrAssign a i v l => par [s2l "aassign"; sx a; sx i; sx v; dec l]
  | EPropAssign o p v l => par [s2l "passign"; sx o; angle p; sx v; dec l]
  | ECall c pl args => par [s2l "call"; sx c; dec pl; brk (map sx args)]
  | EIndex a i l => par [s2l "index"; sx a; sx i; dec l]
  | EProp o p l => par [s2l "prop"; sx o; angle p; dec l]
  | EArray es => par [s2l "array"; brk (map sx es)]
  | EObject ps => par [s2l "object"; brk (map (fun kv => par [angle (fst kv); sx (snd kv)]) ps)]
  end.

Definition opt_str {A} (f : A -> list N) (o : option A) : list N := match o with Some x => f x | None => s2l "none" end.
Definition vdecl_sx (d : vdecl) : list N :=
  let '(x, init, l) := d in par [s2l "var"; angle x; opt_str sx init; dec l].

Fixpoint ssx (s : stmt) : list N :=
  match s with
  | SExpr e => par [s2l "expr"; sx e]
  | SPrint e => par [s2l "print"; sx e]
  | SVar d => vdecl_sx d
  | SVarList ds => par [s2l "varlist"; brk (map vdecl_sx ds)]
  | SBlock ss => par [s2l "block"; brk (map ssx ss)]
  | SIf c t e => par [s2l "if"; sx c; ssx t; match e with Some e' => ssx e' | None => s2l "none" end]
  | SWhile c b => par [s2l "while"; sx c; ssx b]
  | SFor i c inc b => par [s2l "for"; match i with Some i' => ssx i' | None => s2l "none" end; sx c; opt_str sx inc; ssx b]
  | SBreak l => par [s2l "break"; dec l]
  | SContinue l => par [s2l "continue"; dec l]
  | SReturn l v => par [s2l "return"; dec l; opt_str sx v]
  | SFun x ps body => par [s2l "fun"; angle x; brk (map angle ps); brk (map ssx body)]
  end.

(** front end of a text: tokens (separated by 31), eof line, lexer diagnostics *)
Definition tokens_str (src : list N) : list N :=
  let lx := lex src in
  join [31] (map tok_str (lx_tokens lx)) ++ [9] ++ dec (lx_eof_line lx) ++ [9] ++
  join [32] (map (fun d => item_str (DLex (fst d) (snd d))) (lx_diags lx)).

(** tree (or "-"), all diagnostics, "parsefuel" flag *)
Definition parse_str (src : list N) : list N :=
  let lx := lex src in
  let pr := parse (lx_tokens lx) (lx_eof_line lx) in
  (match pr_prog pr with Some ss => brk (map ssx ss) | None => [45] end) ++ [9] ++
  join [32] (map item_str (front_items (lx_diags lx) (pr_diags pr))) ++ [9] ++
  (if pr_fuel_out pr then s2l "parsefuel" else []).
