(** The evaluator once more, at the level of the mechanism the Go code really uses
    to signal run-time errors (utils.RuntimeError / utils.HadRuntimeError):

    - reporting an error appends a diagnostic to stderr and raises a process-global
      flag; the reporting arm then returns the Go value [nil] with no signal;
    - evaluation is NOT unwound: every caller goes on with that [nil] until it
      either consults the flag itself (the polls transcribed below, arm by arm, in
      the order of interpreter/interpreter.go) or evaluates something else, which
      returns at once because the first thing [eval] does is consult the flag;
    - so after the first error further diagnostics can be written (an arm that goes
      on with [nil] and finds it is "not an object", "not callable", ...), cells can
      still be written ([a[0] = 1/0] stores nil), and loops end because nil is falsy.

    [Eval.v] models a run-time error as an exception.  Proofs/FlagRefine.v proves that
    this file and [Eval.v] agree on everything a user can see: same output events,
    same input consumption, same first diagnostic, same status; and that once the flag
    is up nothing is printed, prompted, read or scheduled any more.  The driver runs
    this evaluator against the real binary comparing the WHOLE of stderr. *)
From Borno Require Import Base Num Unicode Token Ast Value Eval.
Open Scope N_scope.

Record fstate := mkF {
  fs_st : state;
  fs_flag : bool;                       (* utils.HadRuntimeError *)
  fs_diags : list (rterr * N)           (* stderr so far, oldest first *)
}.

Definition fclean (s : state) : fstate := mkF s false [].
Definition upd (fs : fstate) (s : state) : fstate := mkF s (fs_flag fs) (fs_diags fs).
(** utils.RuntimeError *)
Definition report (e : rterr) (line : N) (fs : fstate) : fstate :=
  mkF (fs_st fs) true (fs_diags fs ++ [(e, line)]).

Inductive fres (A : Type) :=
  | FOk (a : A) (fs : fstate)
  | FFuel
  | FStuck
  | FCrash (fs : fstate).
Arguments FOk {A}. Arguments FFuel {A}. Arguments FStuck {A}. Arguments FCrash {A}.

Definition fbind {A B} (r : fres A) (k : A -> fstate -> fres B) : fres B :=
  match r with
  | FOk a fs => k a fs
  | FFuel => FFuel
  | FStuck => FStuck
  | FCrash fs => FCrash fs
  end.
Notation "'let+' ( a , s ) := e 'in' k" := (fbind e (fun a s => k)) (at level 200, a name, s name, e at level 100, k at level 200).

Section WithOracles.
Variable libm : N -> f64 -> f64 -> f64.
Variable clock : f64.
Variable sched : N -> list (list N * value) -> list (list N * value).

(** evaluateUnary / evaluateBinary: their own poll, then the operator; an error is
    reported at the operator's line and the result is nil *)
Definition funop (op : tkind) (v : value) (line : N) (fs : fstate) : fres value :=
  if fs_flag fs then FOk VNil fs
  else match unop op v with
       | OVal r => FOk r fs
       | OErr e => FOk VNil (report e line fs)
       | ONoText => FFuel
       end.

Definition fbinop (op : tkind) (a b : value) (line : N) (fs : fstate) : fres value :=
  if fs_flag fs then FOk VNil fs
  else match binop libm (fs_st fs) op a b with
       | OVal r => FOk r fs
       | OErr e => FOk VNil (report e line fs)
       | ONoText => FFuel
       end.

Definition fprint (mk : list N -> event) (v : value) (fs : fstate) : fres signal :=
  match text_of (fs_st fs) v with
  | TOk t => FOk SigNone (upd fs (emit (mk t) (fs_st fs)))
  | TCycle => FCrash fs
  | TStuck => FStuck
  | TNoText => FFuel
  end.

Fixpoint feval (f : nat) (e : expr) (rho : nat) (fs : fstate) {struct f} : fres value :=
  if fs_flag fs then FOk VNil fs else            (* the poll at the entry of eval *)
  match f with O => FFuel | S f =>
    match e with
    | ELit l _ => FOk (value_of_lit l) fs
    | EId x line =>
        match env_get rho x (fs_st fs) with
        | Some (Some v) => FOk v fs
        | Some None => FOk VNil (report RUndefinedVar line fs)
        | None => FStuck
        end
    | EGroup e' _ => feval f e' rho fs
    | EUnary op e' line =>
        let+ (v, fs1) := feval f e' rho fs in
        if fs_flag fs1 then FOk VNil fs1 else funop op v line fs1
    | EBinary op l r line =>
        let+ (a, fs1) := feval f l rho fs in
        if fs_flag fs1 then FOk VNil fs1 else
        let+ (b, fs2) := feval f r rho fs1 in
        if fs_flag fs2 then FOk VNil fs2 else fbinop op a b line fs2
    | ELogical op l r =>
        let+ (a, fs1) := feval f l rho fs in
        if tkind_eqb op TLOGICAL_OR then (if truthy a then FOk a fs1 else feval f r rho fs1)
        else (if truthy a then feval f r rho fs1 else FOk a fs1)
    | EAssign x nline ve _ =>
        let+ (v, fs1) := feval f ve rho fs in
        if fs_flag fs1 then FOk VNil fs1 else
        match env_assign rho x v (fs_st fs1) with
        | Some (Some s2) => FOk v (upd fs1 s2)
        | Some None => FOk v (report RUndefinedAssign nline fs1)     (* Assign reports; the arm still returns the value *)
        | None => FStuck
        end
    | EArrAssign ae ie ve line =>
        let+ (a, fs1) := feval f ae rho fs in
        let+ (i, fs2) := feval f ie rho fs1 in
        let+ (v, fs3) := feval f ve rho fs2 in
        match a with
        | VArr l =>
            match get_arr l (fs_st fs3) with
            | Some vs =>
                match index_of vs i with
                | None => FOk VNil (report RIndexInteger line fs3)
                | Some None => FOk VNil (report RIndexBounds line fs3)
                | Some (Some n) => FOk v (upd fs3 (set_arr l (set_nth n v vs) (fs_st fs3)))
                end
            | None => FStuck
            end
        | _ => FOk VNil (report RNotArrayAssign line fs3)
        end
    | EPropAssign oe p ve line =>
        let+ (o, fs1) := feval f oe rho fs in
        match o with
        | VObj l =>
            let+ (v, fs2) := feval f ve rho fs1 in
            match get_obj l (fs_st fs2) with
            | Some ps => FOk v (upd fs2 (set_obj l (sorted_put p v ps) (fs_st fs2)))
            | None => FStuck
            end
        | _ => FOk VNil (report RNotObjectAssign line fs1)
        end
    | ECall ce pline args =>
        let+ (c, fs1) := feval f ce rho fs in
        match c with
        | VFun l =>
            match get_fun l (fs_st fs1) with
            | Some clo =>
                if negb (Nat.eqb (length (c_params clo)) (length args)) then FOk VNil (report RArity pline fs1)
                else
                  let+ (vs, fs2) := feval_list f args rho fs1 in
                  if fs_flag fs2 then FOk VNil fs2 else            (* the poll before function.Call *)
                  let '(act, s3) := alloc_env (Some (c_env clo)) (fs_st fs2) in
                  match env_define act (c_name clo) (VFun l) s3 with
                  | Some s4 =>
                      match bind_params act (c_params clo) vs s4 with
                      | Some s5 =>
                          let+ (sig, fs6) := fexec_body f (c_body clo) act (upd fs2 s5) in
                          FOk (match sig with SigReturn _ v => v | _ => VNil end) fs6
                      | None => FStuck
                      end
                  | None => FStuck
                  end
            | None => FStuck
            end
        | VNative n =>
            if negb (arity_ok (native_arity n) (length args)) then FOk VNil (report RArity pline fs1)
            else
              let+ (vs, fs2) := feval_list f args rho fs1 in
              if fs_flag fs2 then FOk VNil fs2 else
              match call_native libm clock sched n vs (fs_st fs2) with
              | NOk v s3 => FOk v (upd fs2 s3)
              | NFail why => FOk VNil (report (RCallFailed why) pline (upd fs2 (native_fail_state n vs (fs_st fs2))))
              | NStuck => FStuck
              end
        | _ => FOk VNil (report RNotCallable pline fs1)
        end
    | EIndex ae ie line =>
        let+ (a, fs1) := feval f ae rho fs in
        let+ (i, fs2) := feval f ie rho fs1 in
        match a with
        | VArr l =>
            match get_arr l (fs_st fs2) with
            | Some vs =>
                match index_of vs i with
                | None => FOk VNil (report RIndexInteger line fs2)
                | Some None => FOk VNil (report RIndexBounds line fs2)
                | Some (Some n) => match nth_error vs n with Some v => FOk v fs2 | None => FStuck end
                end
            | None => FStuck
            end
        | _ => FOk VNil (report RNotArrayAccess line fs2)
        end
    | EProp oe p line =>
        let+ (o, fs1) := feval f oe rho fs in
        match o with
        | VObj l =>
            match get_obj l (fs_st fs1) with
            | Some ps => match assoc p ps with Some v => FOk v fs1 | None => FOk VNil (report RNoProperty line fs1) end
            | None => FStuck
            end
        | _ => FOk VNil (report RNotObjectAccess line fs1)
        end
    | EArray es =>
        let+ (vs, fs1) := feval_list f es rho fs in
        let '(l, s2) := alloc_arr vs (fs_st fs1) in FOk (VArr l) (upd fs1 s2)
    | EObject ps =>
        let+ (kvs, fs1) := feval_props f ps rho fs in
        let '(l, s2) := alloc_obj (build_obj kvs) (fs_st fs1) in FOk (VObj l) (upd fs1 s2)
    end
  end
with feval_list (f : nat) (es : list expr) (rho : nat) (fs : fstate) {struct f} : fres (list value) :=
  match f with O => FFuel | S f =>
    match es with
    | [] => FOk [] fs
    | e :: r =>
        let+ (v, fs1) := feval f e rho fs in
        let+ (vs, fs2) := feval_list f r rho fs1 in
        FOk (v :: vs) fs2
    end
  end
with feval_props (f : nat) (ps : list (list N * expr)) (rho : nat) (fs : fstate) {struct f} : fres (list (list N * value)) :=
  match f with O => FFuel | S f =>
    match ps with
    | [] => FOk [] fs
    | (k, e) :: r =>
        let+ (v, fs1) := feval f e rho fs in
        let+ (kvs, fs2) := feval_props f r rho fs1 in
        FOk ((k, v) :: kvs) fs2
    end
  end
with fexec (f : nat) (repl : bool) (st : stmt) (rho : nat) (fs : fstate) {struct f} : fres signal :=
  if fs_flag fs then FOk SigNone fs else         (* statements go through the same eval: same entry poll *)
  match f with O => FFuel | S f =>
    match st with
    | SExpr e =>
        let+ (v, fs1) := feval f e rho fs in
        if repl && negb (fs_flag fs1) then fprint EvEcho v fs1 else FOk SigNone fs1
    | SPrint e =>
        let+ (v, fs1) := feval f e rho fs in
        if fs_flag fs1 then FOk SigNone fs1 else fprint EvPrint v fs1
    | SVar d => fexec_var f d rho fs
    | SVarList ds => fexec_vars f ds rho fs
    | SBlock ss =>
        let '(rho', s1) := alloc_env (Some rho) (fs_st fs) in
        fexec_list f repl ss rho' (upd fs s1)
    | SIf c t e =>
        let+ (cv, fs1) := feval f c rho fs in
        if truthy cv then fexec f repl t rho fs1
        else match e with Some e' => fexec f repl e' rho fs1 | None => FOk SigNone fs1 end
    | SWhile c b => fexec_while f repl c b rho fs
    | SFor init c inc b =>
        let '(rho', s1) := alloc_env (Some rho) (fs_st fs) in
        let+ (sig, fs2) := (match init with Some i => fexec f repl i rho' (upd fs s1) | None => FOk SigNone (upd fs s1) end) in
        match sig with
        | SigNone => fexec_for f repl c inc b rho' fs2
        | _ => FOk sig fs2
        end
    | SBreak line => FOk (SigBreak line) fs
    | SContinue line => FOk (SigContinue line) fs
    | SReturn kw ve =>
        match ve with
        | Some e => let+ (v, fs1) := feval f e rho fs in FOk (SigReturn kw v) fs1
        | None => FOk (SigReturn kw VNil) fs
        end
    | SFun name params body =>
        let '(cenv, s1) := alloc_env (Some rho) (fs_st fs) in
        let '(l, s2) := alloc_fun (mkClo name params body cenv) s1 in
        match env_define rho name (VFun l) s2 with
        | Some s3 => FOk SigNone (upd fs s3)
        | None => FStuck
        end
    end
  end
with fexec_var (f : nat) (d : vdecl) (rho : nat) (fs : fstate) {struct f} : fres signal :=
  if fs_flag fs then FOk SigNone fs else         (* a declarator of a list is evaluated through eval: entry poll *)
  match f with O => FFuel | S f =>
    let '(x, init, line) := d in
    let+ (v, fs1) := (match init with Some e => feval f e rho fs | None => FOk VNil fs end) in
    if fs_flag fs1 then FOk SigNone fs1 else
    match env_get_here rho x (fs_st fs1) with
    | Some None => match env_define rho x v (fs_st fs1) with Some s2 => FOk SigNone (upd fs1 s2) | None => FStuck end
    | Some (Some _) => FOk SigNone (report RRedeclare line fs1)
    | None => FStuck
    end
  end
with fexec_vars (f : nat) (ds : list vdecl) (rho : nat) (fs : fstate) {struct f} : fres signal :=
  match f with O => FFuel | S f =>
    match ds with
    | [] => FOk SigNone fs
    | d :: r =>
        let+ (_x, fs1) := fexec_var f d rho fs in
        if fs_flag fs1 then FOk SigNone fs1 else fexec_vars f r rho fs1
    end
  end
with fexec_list (f : nat) (repl : bool) (ss : list stmt) (rho : nat) (fs : fstate) {struct f} : fres signal :=
  (* the statements of a block: signal test, then poll, after each *)
  match f with O => FFuel | S f =>
    match ss with
    | [] => FOk SigNone fs
    | st :: r =>
        let+ (sig, fs1) := fexec f repl st rho fs in
        match sig with
        | SigNone => if fs_flag fs1 then FOk SigNone fs1 else fexec_list f repl r rho fs1
        | _ => FOk sig fs1
        end
    end
  end
with fexec_body (f : nat) (ss : list stmt) (rho : nat) (fs : fstate) {struct f} : fres signal :=
  (* Function.Call: the statements of a body; no poll of its own *)
  match f with O => FFuel | S f =>
    match ss with
    | [] => FOk SigNone fs
    | st :: r =>
        let+ (sig, fs1) := fexec f false st rho fs in
        match sig with
        | SigNone => fexec_body f r rho fs1
        | _ => FOk sig fs1
        end
    end
  end
with fexec_while (f : nat) (repl : bool) (c : expr) (b : stmt) (rho : nat) (fs : fstate) {struct f} : fres signal :=
  match f with O => FFuel | S f =>
    let+ (cv, fs1) := feval f c rho fs in
    if truthy cv then
      let+ (sig, fs2) := fexec f repl b rho fs1 in
      match sig with
      | SigBreak _ => FOk SigNone fs2
      | SigReturn _ _ => FOk sig fs2
      | _ => fexec_while f repl c b rho fs2
      end
    else FOk SigNone fs1
  end
with fexec_for (f : nat) (repl : bool) (c : expr) (inc : option expr) (b : stmt) (rho : nat) (fs : fstate) {struct f} : fres signal :=
  match f with O => FFuel | S f =>
    let+ (cv, fs1) := feval f c rho fs in
    if truthy cv then
      let+ (sig, fs2) := fexec f repl b rho fs1 in
      match sig with
      | SigBreak _ => FOk SigNone fs2
      | SigReturn _ _ => FOk sig fs2
      | _ =>
          let+ (_v, fs3) := (match inc with Some i => feval f i rho fs2 | None => FOk VNil fs2 end) in
          fexec_for f repl c inc b rho fs3
      end
    else FOk SigNone fs1
  end.

(** [Interpret]: a signal that reaches the top level is reported; then the flag is polled *)
Fixpoint frun_stmts (f : nat) (repl : bool) (ss : list stmt) (fs : fstate) {struct ss} : fres unit :=
  match ss with
  | [] => FOk tt fs
  | st :: r =>
      let+ (sig, fs1) := fexec f repl st top_env fs in
      match sig with
      | SigBreak l => FOk tt (report RStrayBreak l fs1)
      | SigContinue l => FOk tt (report RStrayContinue l fs1)
      | SigReturn l _ => FOk tt (report RStrayReturn l fs1)
      | SigNone => if fs_flag fs1 then FOk tt fs1 else frun_stmts f repl r fs1
      end
  end.

End WithOracles.
