(** Tokens: the constructors of [tkind] are those of token/token.go, in the same
    order (so a Go [TokenType] integer is the position in this enumeration);
    the end-of-input marker is not a list element in the model: a token stream is
    a list of tokens plus the line of the EOF token. *)
From Borno Require Import Base Num.
Open Scope N_scope.

Inductive tkind :=
  | TLEFT_PAREN | TRIGHT_PAREN | TLEFT_BRACE | TRIGHT_BRACE | TLEFT_BRACKET | TRIGHT_BRACKET
  | TCOMMA | TDOT | TMINUS | TPLUS | TSEMICOLON | TCOLON | TSLASH | TSTAR
  | TAND | TOR | TXOR | TPOWER | TNOT | TMODULO
  | TBANG | TBANG_EQUAL | TEQUAL | TEQUAL_EQUAL | TGREATER | TGREATER_EQUAL
  | TLEFT_SHIFT | TLESS | TLESS_EQUAL | TRIGHT_SHIFT
  | TIDENTIFIER | TSTRING | TNUMBER
  | TBREAK | TCONTINUE | TLOGICAL_AND | TCLASS | TELSE | TFALSE | TFUN | TFOR | TIF | TNIL
  | TLOGICAL_OR | TPRINT | TRETURN | TTRUE | TVAR | TWHILE.

Definition all_tkinds : list tkind :=
  [TLEFT_PAREN; TRIGHT_PAREN; TLEFT_BRACE; TRIGHT_BRACE; TLEFT_BRACKET; TRIGHT_BRACKET;
   TCOMMA; TDOT; TMINUS; TPLUS; TSEMICOLON; TCOLON; TSLASH; TSTAR;
   TAND; TOR; TXOR; TPOWER; TNOT; TMODULO;
   TBANG; TBANG_EQUAL; TEQUAL; TEQUAL_EQUAL; TGREATER; TGREATER_EQUAL;
   TLEFT_SHIFT; TLESS; TLESS_EQUAL; TRIGHT_SHIFT;
   TIDENTIFIER; TSTRING; TNUMBER;
   TBREAK; TCONTINUE; TLOGICAL_AND; TCLASS; TELSE; TFALSE; TFUN; TFOR; TIF; TNIL;
   TLOGICAL_OR; TPRINT; TRETURN; TTRUE; TVAR; TWHILE].

Definition tkind_code (k : tkind) : N :=
  match k with
  | TLEFT_PAREN => 0 | TRIGHT_PAREN => 1 | TLEFT_BRACE => 2 | TRIGHT_BRACE => 3
  | TLEFT_BRACKET => 4 | TRIGHT_BRACKET => 5 | TCOMMA => 6 | TDOT => 7 | TMINUS => 8
  | TPLUS => 9 | TSEMICOLON => 10 | TCOLON => 11 | TSLASH => 12 | TSTAR => 13
  | TAND => 14 | TOR => 15 | TXOR => 16 | TPOWER => 17 | TNOT => 18 | TMODULO => 19
  | TBANG => 20 | TBANG_EQUAL => 21 | TEQUAL => 22 | TEQUAL_EQUAL => 23 | TGREATER => 24
  | TGREATER_EQUAL => 25 | TLEFT_SHIFT => 26 | TLESS => 27 | TLESS_EQUAL => 28 | TRIGHT_SHIFT => 29
  | TIDENTIFIER => 30 | TSTRING => 31 | TNUMBER => 32
  | TBREAK => 33 | TCONTINUE => 34 | TLOGICAL_AND => 35 | TCLASS => 36 | TELSE => 37 | TFALSE => 38
  | TFUN => 39 | TFOR => 40 | TIF => 41 | TNIL => 42 | TLOGICAL_OR => 43 | TPRINT => 44
  | TRETURN => 45 | TTRUE => 46 | TVAR => 47 | TWHILE => 48
  end.

Definition tkind_eqb (a b : tkind) : bool := tkind_code a =? tkind_code b.

Inductive literal := LNone | LNum (f : f64) | LStr (s : list N).

Record token := mkTok { tk : tkind; tlex : list N; tlit : literal; tline : N }.

(** The 15 keywords (lexer/scanner.go [keywords]); note U+09DF (2527) in two of them. *)
Definition keywords : list (list N * tkind) :=
  [ ([2475; 2494; 2434; 2486; 2472], TFUN);
    ([2471; 2480; 2495], TVAR);
    ([2475; 2480], TFOR);
    ([2479; 2470; 2495], TIF);
    ([2472; 2494; 2489; 2527], TELSE);
    ([2479; 2468; 2453; 2509; 2487; 2467], TWHILE);
    ([2488; 2468; 2509; 2479], TTRUE);
    ([2478; 2495; 2469; 2509; 2479; 2494], TFALSE);
    ([110; 105; 108], TNIL);
    ([2470; 2503; 2454; 2494; 2451], TPRINT);
    ([2475; 2503; 2480; 2468], TRETURN);
    ([2469; 2494; 2478; 2507], TBREAK);
    ([2458; 2494; 2482; 2495; 2527; 2503; 95; 2479; 2494; 2451], TCONTINUE);
    ([2447; 2476; 2434], TLOGICAL_AND);
    ([2476; 2494], TLOGICAL_OR) ].

Definition keyword_of (s : list N) : option tkind := assoc s keywords.
