(** IEEE-754 binary64 for the Borno model: Flocq's [BinarySingleNaN] instantiated
    at (53, 1024).  No primitive floats, no float axioms: every value is a valid
    double by construction and every operation is Flocq's formal specification.
    Also: decimal -> double (literals, run-time coercion of strings, i.e. Go's
    [strconv.ParseFloat]), double -> shortest decimal and [fmt]'s [%v] layout,
    int64 conversions, [math.Mod], [math.Round]. *)
From Coq Require Import ZArith NArith List Bool Lia.
From Flocq Require Import Core BinarySingleNaN.
From Borno Require Import Base.
Import ListNotations.
Open Scope Z_scope.

Definition prec := 53.
Definition emax := 1024.
Lemma Hprec : Prec_gt_0 prec. Proof. unfold Prec_gt_0, prec; lia. Qed.
Lemma Hmax : Prec_lt_emax prec emax. Proof. unfold Prec_lt_emax, prec, emax; lia. Qed.
#[global] Existing Instance Hprec.
#[global] Existing Instance Hmax.

Definition f64 := binary_float prec emax.

Definition f_zero : f64 := B754_zero false.
Definition f_nzero : f64 := B754_zero true.
Definition f_nan : f64 := B754_nan.
Definition f_inf (s : bool) : f64 := B754_infinity s.

Definition f_add (a b : f64) : f64 := Bplus mode_NE a b.
Definition f_sub (a b : f64) : f64 := Bminus mode_NE a b.
Definition f_mul (a b : f64) : f64 := Bmult mode_NE a b.
Definition f_div (a b : f64) : f64 := Bdiv mode_NE a b.
Definition f_sqrt (a : f64) : f64 := Bsqrt mode_NE a.
Definition f_abs (a : f64) : f64 := Babs a.
Definition f_neg (a : f64) : f64 := Bopp a.
Definition f_round (a : f64) : f64 := Bnearbyint mode_NA a.   (* math.Round: half away from zero *)

Definition f_cmp (a b : f64) : option comparison := Bcompare a b.
Definition f_eqb (a b : f64) : bool := match f_cmp a b with Some Eq => true | _ => false end.
Definition f_ltb (a b : f64) : bool := match f_cmp a b with Some Lt => true | _ => false end.
Definition f_leb (a b : f64) : bool := match f_cmp a b with Some Lt | Some Eq => true | _ => false end.
Definition f_gtb (a b : f64) : bool := match f_cmp a b with Some Gt => true | _ => false end.
Definition f_geb (a b : f64) : bool := match f_cmp a b with Some Gt | Some Eq => true | _ => false end.
Definition f_is_zero (a : f64) : bool := match a with B754_zero _ => true | _ => false end.
Definition f_is_nan (a : f64) : bool := match a with B754_nan => true | _ => false end.
Definition f_is_finite (a : f64) : bool := is_finite a.

(** Structural identity of two doubles (same datum; NaN = NaN, +0 <> -0). *)
Definition f_same (a b : f64) : bool :=
  match a, b with
  | B754_zero s1, B754_zero s2 => Bool.eqb s1 s2
  | B754_infinity s1, B754_infinity s2 => Bool.eqb s1 s2
  | B754_nan, B754_nan => true
  | B754_finite s1 m1 e1 _, B754_finite s2 m2 e2 _ => Bool.eqb s1 s2 && Pos.eqb m1 m2 && Z.eqb e1 e2
  | _, _ => false
  end.

(** float64(int64): round to nearest even *)
Definition f_of_Z (z : Z) : f64 := binary_normalize prec emax Hprec Hmax mode_NE z 0 false.

(** [m * 2^e], rounded to nearest even; [sz] = sign of a zero result *)
Definition f_of_Z2 (m e : Z) (sz : bool) : f64 := binary_normalize prec emax Hprec Hmax mode_NE m e sz.

(** The integer value of an integral double, if it has one. *)
Definition f_to_Z (a : f64) : option Z :=
  match a with
  | B754_zero _ => Some 0
  | B754_finite s m e _ =>
      if 0 <=? e then Some (cond_Zopp s (Zpos m * 2 ^ e))
      else if (Zpos m) mod (2 ^ (- e)) =? 0 then Some (cond_Zopp s (Zpos m / 2 ^ (- e)))
      else None
  | _ => None
  end.

Definition two63 := 9223372036854775808.
Definition two64 := 18446744073709551616.

(** What Go's [float64(int64(v)) == v] accepts on amd64: exactly the integral
    doubles in [-2^63, 2^63). *)
Definition to_int64 (a : f64) : option Z :=
  match f_to_Z a with
  | Some z => if (- two63 <=? z) && (z <? two63) then Some z else None
  | None => None
  end.

Definition wrap64 (z : Z) : Z := (z + two63) mod two64 - two63.

Definition i64_and (a b : Z) : Z := Z.land a b.
Definition i64_or (a b : Z) : Z := Z.lor a b.
Definition i64_xor (a b : Z) : Z := Z.lxor a b.
Definition i64_not (a : Z) : Z := Z.lnot a.
(** Go's [int64 << count] and [>>] for a non-negative count (a negative count panics in Go;
    the evaluator rejects it before getting here). *)
Definition i64_shl (a n : Z) : Z := if 64 <=? n then 0 else wrap64 (a * 2 ^ n).
Definition i64_shr (a n : Z) : Z := if 64 <=? n then (if a <? 0 then -1 else 0) else Z.shiftr a n.

(** [math.Mod]: exact remainder with the sign of the dividend. *)
Definition f_mod (x y : f64) : f64 :=
  match x, y with
  | B754_nan, _ | _, B754_nan => B754_nan
  | B754_infinity _, _ => B754_nan
  | _, B754_zero _ => B754_nan
  | B754_zero _, _ => x
  | _, B754_infinity _ => x
  | B754_finite sx mx ex _, B754_finite _ my ey _ =>
      let e := Z.min ex ey in
      let X := Zpos mx * 2 ^ (ex - e) in
      let Y := Zpos my * 2 ^ (ey - e) in
      let r := X mod Y in
      f_of_Z2 (cond_Zopp sx r) e sx
  end.

(* ------------------------------------------------------------------ *)
(** ** Decimal to double *)

Definition pow10 (k : Z) : Z := 10 ^ k.

(** [n / 10^k] correctly rounded (ties to even); +Inf on overflow.  [n >= 0]. *)
Definition dec_div (n : Z) (k : Z) : f64 :=
  match n with
  | Zpos p =>
      match pow10 k with
      | Zpos q => SF2B _ (proj1 (Bdiv_correct_aux prec emax Hprec Hmax mode_NE false p 0 false q 0))
      | _ => B754_nan
      end
  | _ => B754_zero false
  end.

(** [n * 10^x] for any integer x, correctly rounded; [n >= 0] *)
Definition dec_to_f64 (n : Z) (x : Z) : f64 :=
  if 0 <=? x then f_of_Z (n * pow10 x) else dec_div n (- x).

Definition is_ascii_digit (c : N) : bool := ((48 <=? c) && (c <=? 57))%N.

Fixpoint digits_val_acc (acc : Z) (ds : list N) : Z :=
  match ds with
  | [] => acc
  | d :: r => digits_val_acc (acc * 10 + Z.of_N (d - 48)%N) r
  end.
Definition digits_val (ds : list N) : Z := digits_val_acc 0 ds.

(** A source literal: ASCII digits [ip], optional fraction digits [fp].
    [None] = out of range (Go: ParseFloat reports ErrRange; the lexer emits a diagnostic). *)
Definition literal_value (ip fp : list N) : option f64 :=
  let v := dec_to_f64 (digits_val (ip ++ fp)) (- Z.of_nat (length fp)) in
  if f_is_finite v then Some v else None.

(** *** Go's strconv.ParseFloat(s, 64) on a run-time string (code points). *)

Definition lower (c : N) : N := if ((65 <=? c) && (c <=? 90))%N then (c + 32)%N else c.

Fixpoint common_prefix_ci (s t : list N) : nat :=
  match s, t with
  | c :: s', d :: t' => if (lower c =? d)%N then S (common_prefix_ci s' t') else O
  | _, _ => O
  end.

Definition s_infinity : list N := [105;110;102;105;110;105;116;121]%N.
Definition s_nan : list N := [110;97;110]%N.

(** special values: result and number of characters consumed *)
Definition pf_special (s : list N) : option (f64 * nat) :=
  match s with
  | [] => None
  | c :: r =>
      let inf_case (neg : bool) (nsign : nat) (t : list N) :=
        let n := common_prefix_ci t s_infinity in
        let n := if (Nat.ltb 3 n && Nat.ltb n 8)%bool then 3%nat else n in
        if (Nat.eqb n 3 || Nat.eqb n 8)%bool then Some (f_inf neg, (nsign + n)%nat) else None in
      if (c =? 43)%N then inf_case false 1%nat r
      else if (c =? 45)%N then inf_case true 1%nat r
      else if (lower c =? 105)%N then inf_case false 0%nat s
      else if (lower c =? 110)%N then
        (if Nat.eqb (common_prefix_ci s s_nan) 3 then Some (f_nan, 3%nat) else None)
      else None
  end.

Definition is_hex_digit (c : N) : bool :=
  (is_ascii_digit c || ((97 <=? lower c) && (lower c <=? 102)))%N%bool.
Definition hex_val (c : N) : Z :=
  if is_ascii_digit c then Z.of_N (c - 48)%N else Z.of_N (lower c - 97 + 10)%N.

(** state of the mantissa scan (Go's readFloat loop) *)
Record mscan := {
  ms_mant : Z;          (* all significant digits, leading zeros dropped *)
  ms_nd : Z;            (* number of digits counted (after leading zeros) *)
  ms_dp : Z;            (* decimal point position *)
  ms_sawdot : bool;
  ms_sawdigits : bool;
  ms_unders : bool
}.

Fixpoint pf_mantissa (hex : bool) (s : list N) (st : mscan) : mscan * list N :=
  match s with
  | [] => (st, [])
  | c :: r =>
      if (c =? 95)%N then
        pf_mantissa hex r {| ms_mant := ms_mant st; ms_nd := ms_nd st; ms_dp := ms_dp st;
                             ms_sawdot := ms_sawdot st; ms_sawdigits := ms_sawdigits st; ms_unders := true |}
      else if (c =? 46)%N then
        if ms_sawdot st then (st, s)
        else pf_mantissa hex r {| ms_mant := ms_mant st; ms_nd := ms_nd st; ms_dp := ms_nd st;
                                  ms_sawdot := true; ms_sawdigits := ms_sawdigits st; ms_unders := ms_unders st |}
      else if is_ascii_digit c then
        if ((c =? 48)%N && (ms_nd st =? 0))%bool then
          pf_mantissa hex r {| ms_mant := ms_mant st; ms_nd := ms_nd st; ms_dp := ms_dp st - 1;
                               ms_sawdot := ms_sawdot st; ms_sawdigits := true; ms_unders := ms_unders st |}
        else
          pf_mantissa hex r {| ms_mant := ms_mant st * (if hex then 16 else 10) + Z.of_N (c - 48)%N;
                               ms_nd := ms_nd st + 1; ms_dp := ms_dp st;
                               ms_sawdot := ms_sawdot st; ms_sawdigits := true; ms_unders := ms_unders st |}
      else if (hex && is_hex_digit c)%bool then
        pf_mantissa hex r {| ms_mant := ms_mant st * 16 + hex_val c;
                             ms_nd := ms_nd st + 1; ms_dp := ms_dp st;
                             ms_sawdot := ms_sawdot st; ms_sawdigits := true; ms_unders := ms_unders st |}
      else (st, s)
  end.

(** exponent digits (with underscores), saturating like Go at 10000 *)
Fixpoint pf_expdigits (s : list N) (e : Z) (unders : bool) : Z * bool * list N :=
  match s with
  | c :: r =>
      if (c =? 95)%N then pf_expdigits r e true
      else if is_ascii_digit c then
        pf_expdigits r (if e <? 10000 then e * 10 + Z.of_N (c - 48)%N else e) unders
      else (e, unders, s)
  | [] => (e, unders, [])
  end.

(** Go's underscoreOK on the consumed prefix *)
Inductive usaw := SawStart | SawDigit | SawUnder | SawOther.
Fixpoint underscore_ok_loop (hex : bool) (s : list N) (saw : usaw) : bool :=
  match s with
  | [] => match saw with SawUnder => false | _ => true end
  | c :: r =>
      if (is_ascii_digit c || (hex && ((97 <=? lower c) && (lower c <=? 102))%N))%bool then underscore_ok_loop hex r SawDigit
      else if (c =? 95)%N then
        match saw with SawDigit => underscore_ok_loop hex r SawUnder | _ => false end
      else match saw with SawUnder => false | _ => underscore_ok_loop hex r SawOther end
  end.
Definition underscore_ok (s : list N) : bool :=
  let s := match s with c :: r => if ((c =? 43) || (c =? 45))%N then r else s | [] => s end in
  match s with
  | z :: x :: r =>
      if ((z =? 48) && ((lower x =? 98) || (lower x =? 111) || (lower x =? 120)))%N
      then underscore_ok_loop (lower x =? 120)%N r SawDigit
      else underscore_ok_loop false s SawStart
  | _ => underscore_ok_loop false s SawStart
  end.

Definition count_digits10 (z : Z) : Z :=
  if z <=? 0 then 0 else Z.of_nat (length (digits_of_pos_fuel (S (Z.to_nat (Z.log2 z))) z [])).

(** exact value [mant * 10^x] (decimal) with range clamps that keep the powers small *)
Definition dec_value (neg : bool) (mant x : Z) : option f64 :=
  if mant =? 0 then Some (B754_zero neg)
  else
    let nd := count_digits10 mant in
    if 311 <? nd + x then None                       (* overflow: ErrRange *)
    else if nd + x <? -330 then Some (B754_zero neg)    (* underflow to zero: no error *)
    else
      let v := dec_to_f64 mant x in
      if f_is_finite v then Some (if neg then f_neg v else v) else None.

Definition hex_value (neg : bool) (mant e : Z) : option f64 :=
  if mant =? 0 then Some (B754_zero neg)
  else
    let nb := Z.log2 mant + 1 in
    if 1025 <? nb + e then None
    else if nb + e <? -1080 then Some (B754_zero neg)
    else
      let v := f_of_Z2 mant e false in
      if f_is_finite v then Some (if neg then f_neg v else v) else None.

Definition mscan0 : mscan :=
  {| ms_mant := 0; ms_nd := 0; ms_dp := 0; ms_sawdot := false; ms_sawdigits := false; ms_unders := false |}.

Definition pf_number (s : list N) : option f64 :=
  match s with
  | [] => None
  | c0 :: r0 =>
      let '(neg, s1) := if (c0 =? 43)%N then (false, r0) else if (c0 =? 45)%N then (true, r0) else (false, s) in
      let '(hex, s2) :=
        match s1 with
        | z :: x :: (_ :: _) as r => if ((z =? 48) && (lower x =? 120))%N%bool then (true, r) else (false, s1)
        | _ => (false, s1)
        end in
      let '(st, s3) := pf_mantissa hex s2 mscan0 in
      if negb (ms_sawdigits st) then None
      else
        let dp := if ms_sawdot st then ms_dp st else ms_nd st in
        let dp := if hex then dp * 4 else dp in
        let ndm := if hex then ms_nd st * 4 else ms_nd st in
        let expchar := if hex then 112%N else 101%N in
        let finish (dp : Z) (unders : bool) (rest : list N) : option f64 :=
          match rest with
          | _ :: _ => None
          | [] =>
              if (unders && negb (underscore_ok s))%bool then None
              else if hex then hex_value neg (ms_mant st) (dp - ndm)
              else dec_value neg (ms_mant st) (dp - ndm)
          end in
        match s3 with
        | c :: r =>
            if (lower c =? expchar)%N then
              match r with
              | [] => None
              | d :: r' =>
                  let '(esign, r1) := if (d =? 43)%N then (1, r') else if (d =? 45)%N then (-1, r') else (1, r) in
                  match r1 with
                  | d1 :: _ =>
                      if is_ascii_digit d1 then
                        let '(e, unders, rest) := pf_expdigits r1 0 (ms_unders st) in
                        finish (dp + e * esign) unders rest
                      else None
                  | [] => None
                  end
              end
            else if hex then None else finish dp (ms_unders st) s3
        | [] => if hex then None else finish dp (ms_unders st) s3
        end
  end.

Definition parse_float (s : list N) : option f64 :=
  match pf_special s with
  | Some (v, n) => if Nat.eqb n (length s) then Some v else pf_number s
  | None => pf_number s
  end.

(* ------------------------------------------------------------------ *)
(** ** Double to shortest decimal, and fmt's %v layout *)

(** exact positive rational value of a finite non-zero double: p / q *)
Definition ratio (m : positive) (e : Z) : Z * Z :=
  if 0 <=? e then (Zpos m * 2 ^ e, 1) else (Zpos m, 2 ^ (- e)).

(** rounding interval of [m * 2^e] as rationals over the common denominator [den]:
    (low, high, den, inclusive).  Everything is scaled by 4 so that the half-ulp
    offsets are integers. *)
Definition interval (m : positive) (e : Z) : Z * Z * Z * Z * bool :=
  let '(p, q) := ratio m e in
  (* value = p/q ; ulp = 2^e ; half ulp up = 2^(e-1) ; down = 2^(e-1), or 2^(e-2) at a binade boundary *)
  let boundary := (Pos.eqb m 4503599627370496 && negb (e =? -1074))%bool in
  (* scale: multiply numerator by 4 and express ulp/4 *)
  let '(u4n, den) := if 0 <=? e - 2 then (2 ^ (e - 2), 1) else (1, 2 ^ (2 - e)) in
  (* with den: p/q = P/den where P = p * den / q ; q divides den because den = 2^(2-e) >= q = 2^(-e) (or q = 1) *)
  let P := p * den / q in
  let up := 2 * u4n in
  let down := if boundary then u4n else 2 * u4n in
  (P - down, P, P + up, den, Z.even (Zpos m)).

(** floor(log10(p/q)) *)
Fixpoint fix_log10 (fuel : nat) (p q g : Z) : Z :=
  match fuel with
  | O => g
  | S f =>
      let le_lo := if 0 <=? g then (q * 10 ^ g <=? p) else (q <=? p * 10 ^ (- g)) in
      let lt_hi := if 0 <=? g + 1 then (p <? q * 10 ^ (g + 1)) else (p * 10 ^ (- (g + 1)) <? q) in
      if negb le_lo then fix_log10 f p q (g - 1)
      else if negb lt_hi then fix_log10 f p q (g + 1) else g
  end.
Definition log10_floor (p q : Z) : Z := fix_log10 8 p q ((Z.log2 p - Z.log2 q) * 30103 / 100000).

(** Is the decimal [d * 10^x] inside the rounding interval? *)
Definition in_interval (lo hi den : Z) (incl : bool) (d x : Z) : bool :=
  (* compare d*10^x with lo/den and hi/den *)
  let '(a, b) := if 0 <=? x then (d * 10 ^ x * den, 1) else (d * den, 10 ^ (- x)) in
  (* value = a / b / den ; compare a with lo*b and hi*b *)
  if incl then (lo * b <=? a) && (a <=? hi * b) else (lo * b <? a) && (a <? hi * b).

(** search for the least number of digits n such that floor or ceiling of
    value*10^(n-1-E) lies in the rounding interval; nearest of the two if both do
    (ties to the even digit, like strconv's decimal rounding) *)
Fixpoint shortest_from (fuel : nat) (n : Z) (lo mid hi den : Z) (incl : bool) (E : Z) : option (Z * Z) :=
  match fuel with
  | O => None
  | S fuel' =>
      let s := n - 1 - E in       (* digits d = value * 10^s *)
      let '(num, dn) := if 0 <=? s then (mid * 10 ^ s, den) else (mid, den * 10 ^ (- s)) in
      let dfl := num / dn in
      let rem := num mod dn in
      let okf := in_interval lo hi den incl dfl (- s) in
      let okc := in_interval lo hi den incl (dfl + 1) (- s) in
      if (rem =? 0) && okf then Some (dfl, - s)
      else if okf && okc then
        (if 2 * rem <? dn then Some (dfl, - s)
         else if dn <? 2 * rem then Some (dfl + 1, - s)
         else if Z.even dfl then Some (dfl, - s) else Some (dfl + 1, - s))
      else if okf then Some (dfl, - s)
      else if okc then Some (dfl + 1, - s)
      else shortest_from fuel' (n + 1) lo mid hi den incl E
  end.

Fixpoint strip0 (fuel : nat) (d x : Z) : Z * Z :=
  match fuel with
  | O => (d, x)
  | S f => if ((d mod 10 =? 0) && negb (d =? 0))%bool then strip0 f (d / 10) (x + 1) else (d, x)
  end.

(** candidate shortest digits of |f|: value d * 10^x, d without trailing zeros *)
Definition shortest_candidate (m : positive) (e : Z) : option (Z * Z) :=
  let '(lo, mid, hi, den, incl) := interval m e in
  let '(p, q) := ratio m e in
  match shortest_from 18 1 lo mid hi den incl (log10_floor p q) with
  | Some (d, x) => Some (strip0 25 d x)
  | None => None
  end.

(** The digits actually used: the candidate is *checked* by reading it back with the
    verified decimal reader; [None] if the check fails (never observed; the
    correspondence and [goref] sweeps test it, the round-trip theorem does not rely on it). *)
Definition shortest_digits (f : f64) : option (Z * Z) :=
  match f with
  | B754_finite s m e _ =>
      match shortest_candidate m e with
      | Some (d, x) => if f_same (dec_to_f64 d x) (Babs f) then Some (d, x) else None
      | None => None
      end
  | _ => None
  end.

Definition zeros (n : Z) : list N := replicate (Z.to_nat n) 48%N.

(** fmt %v layout from digits d (no trailing zeros unless d = 0) and exponent x *)
Definition layout (neg : bool) (d x : Z) : list N :=
  let ds := decimal_of_Z d in
  let nd := Z.of_nat (length ds) in
  let exp := nd + x - 1 in            (* decimal exponent of the first digit *)
  let sign := if neg then [45%N] else [] in
  sign ++
  if (exp <? -4) || (6 <=? exp) then
    (* %e form: d.ddd e±XX *)
    let mant := match ds with
                | [] => []
                | c :: [] => [c]
                | c :: r => c :: 46%N :: r
                end in
    let ea := Z.abs exp in
    let es := decimal_of_Z ea in
    mant ++ [101%N] ++ [if exp <? 0 then 45%N else 43%N] ++ (if ea <? 10 then 48%N :: es else es)
  else if 0 <=? x then ds ++ zeros x
  else if 0 <=? exp then
    (* integer part has exp+1 digits *)
    firstn (Z.to_nat (exp + 1)) ds ++ [46%N] ++ skipn (Z.to_nat (exp + 1)) ds
  else [48%N; 46%N] ++ zeros (- exp - 1) ++ ds.

Definition s_NaN : list N := [78;97;78]%N.
Definition s_pInf : list N := [43;73;110;102]%N.
Definition s_nInf : list N := [45;73;110;102]%N.

(** The text Go's fmt prints for a float64 under %v; [None] only if the digit check failed. *)
Definition text_num (f : f64) : option (list N) :=
  match f with
  | B754_nan => Some s_NaN
  | B754_infinity false => Some s_pInf
  | B754_infinity true => Some s_nInf
  | B754_zero false => Some [48%N]
  | B754_zero true => Some [45%N; 48%N]
  | B754_finite s m e _ =>
      match f_to_Z (Babs f) with
      | Some z =>
          if z <? 9007199254740992 then let '(d, x) := strip0 25 z 0 in Some (layout s d x)
          else match shortest_digits f with Some (d, x) => Some (layout s d x) | None => None end
      | None => match shortest_digits f with Some (d, x) => Some (layout s d x) | None => None end
      end
  end.

(* ------------------------------------------------------------------ *)
(** ** Bit patterns (driver I/O and oracle interface only) *)

Definition f_of_bits (z : Z) : f64 :=
  let s := Z.testbit z 63 in
  let ex := (z / 2 ^ 52) mod 2 ^ 11 in
  let mant := z mod 2 ^ 52 in
  if ex =? 2047 then (if mant =? 0 then B754_infinity s else B754_nan)
  else if ex =? 0 then (if mant =? 0 then B754_zero s else
                        let v := f_of_Z2 mant (-1074) false in if s then f_neg v else v)
  else let v := f_of_Z2 (mant + 2 ^ 52) (ex - 1075) false in if s then f_neg v else v.

Definition f_to_bits (f : f64) : Z :=
  match f with
  | B754_zero s => if s then 2 ^ 63 else 0
  | B754_infinity s => (if s then 2 ^ 63 else 0) + 2047 * 2 ^ 52
  | B754_nan => 2047 * 2 ^ 52 + 2 ^ 51 + 1   (* Go's math.NaN() *)
  | B754_finite s m e _ =>
      let sb := if s then 2 ^ 63 else 0 in
      if Zpos m <? 2 ^ 52 then sb + Zpos m                       (* subnormal: e = -1074 *)
      else sb + (e + 1075) * 2 ^ 52 + (Zpos m - 2 ^ 52)
  end.
