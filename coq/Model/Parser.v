(** The recursive-descent parser (parser/parser.go), as a fuel-indexed mutual
    fixpoint.  The binary-operator levels are one function generic in the ladder
    table.  A token stream is a list of tokens plus the line of the end-of-input
    token ([eofl]); "peek" on the empty list is that EOF token.  Every function
    returns the diagnostics it issued, in order. *)
From Borno Require Import Base Num Token Ast.
Open Scope N_scope.

Inductive pkind :=
  | PExpectVarName | PReservedVar | PSemiBeforeNewline | PSemiAfterVar
  | PSemiAfterBreak | PSemiAfterContinue
  | PLParenAfterFor | PSemiAfterLoopCond | PRParenAfterFor
  | PLParenAfterWhile | PRParenAfterCond
  | PLParenAfterIf | PRParenAfterIfCond
  | PSemiAfterValue | PSemiAfterReturn
  | PExpectFunName | PReservedFun | PLParenAfterFunName | PTooManyParams | PExpectParam
  | PRParenAfterParams | PLBraceBeforeBody | PRBraceAfterBlock
  | PInvalidAssign | PRBracketAfterIndex | PPropAfterDot | PRParenAfterArgs
  | PRParenAfterExpr | PExpectExpr | PPropName | PColonAfterProp | PRBraceAfterObject
  | PRBracketAfterElems.

(** where: [None] = " at end", [Some lexeme] = " at 'lexeme'" *)
Record pdiag := mkPD { pd_line : N; pd_where : option (list N); pd_kind : pkind }.

Inductive pres (A : Type) :=
  | POk (a : A) (rest : list token) (ds : list pdiag)
  | PErr (ds : list pdiag)
  | PFuel.
Arguments POk {A}. Arguments PErr {A}. Arguments PFuel {A}.

Definition pbind {A B} (r : pres A) (k : A -> list token -> pres B) : pres B :=
  match r with
  | POk a rest ds =>
      match k a rest with
      | POk b rest' ds' => POk b rest' (ds ++ ds')
      | PErr ds' => PErr (ds ++ ds')
      | PFuel => PFuel
      end
  | PErr ds => PErr ds
  | PFuel => PFuel
  end.
Notation "'do' ( a , r ) <- e ; k" := (pbind e (fun a r => k)) (at level 200, a name, r name, e at level 100, k at level 200).

(** parser/parser.go [reservedIdentifiers] *)
Definition reserved_names : list (list N) :=
  [ [2453;2509;2482;2453];                                  (* ক্লক *)
    [2482;2503;2472];                                       (* লেন *)
    [2447;2465];                                            (* এড *)
    [2480;2495;2478;2497;2477];                             (* রিমুভ *)
    [2453;2495;95;2480;2495;2478;2497;2477];                (* কি_রিমুভ *)
    [2437;2476;2509;2460;2503;2453;2509;2463;95;2453;2495]; (* অব্জেক্ট_কি *)
    [2437;2476;2509;2460;2503;2453;2509;2463;95;2478;2494;2472]; (* অব্জেক্ট_মান *)
    [2474;2480;2478;2478;2494;2472];                        (* পরমমান *)
    [2476;2480;2509;2455;2478;2498;2482];                   (* বর্গমূল *)
    [2456;2494;2468];                                       (* ঘাত *)
    [2488;2494;2439;2472];                                  (* সাইন *)
    [2453;2488;2494;2439;2472];                             (* কসাইন *)
    [2463;2509;2479;2494;2472];                             (* ট্যান *)
    [2488;2480;2509;2476;2472;2495;2478;2509;2472];         (* সর্বনিম্ন *)
    [2488;2480;2509;2476;2507;2458;2509;2458];              (* সর্বোচ্চ *)
    [2480;2494;2441;2472;2509;2465];                        (* রাউন্ড *)
    [105;110;112;117;116];                                  (* input *)
    [2439;2472;2474;2497;2463] ].                           (* ইনপুট *)

Definition is_reserved (s : list N) : bool := existsb (str_eqb s) reserved_names.

Definition max_params : nat := 255.

(** The precedence ladder, loosest level first: the operator tokens of the level
    and whether the node built is [Logical] (else [Binary]). *)
Definition ladder : list (list tkind * bool) :=
  [ ([TLOGICAL_OR], true);
    ([TLOGICAL_AND], true);
    ([TOR], false);
    ([TXOR], false);
    ([TAND], false);
    ([TBANG_EQUAL; TEQUAL_EQUAL], false);
    ([TGREATER; TGREATER_EQUAL; TLESS; TLESS_EQUAL], false);
    ([TLEFT_SHIFT; TRIGHT_SHIFT], false);
    ([TMINUS; TPLUS], false);
    ([TSLASH; TSTAR; TMODULO], false);
    ([TPOWER], false) ].

Definition unary_ops : list tkind := [TBANG; TMINUS; TNOT].

Definition kind_in (k : tkind) (l : list tkind) : bool := existsb (tkind_eqb k) l.

Definition mk_bin (logical : bool) (op : token) (l r : expr) : expr :=
  if logical then ELogical (tk op) l r else EBinary (tk op) l r (tline op).

Section WithEof.
Variable eofl : N.

Definition peek_line (ts : list token) : N := match ts with t :: _ => tline t | [] => eofl end.
Definition diag_at (ts : list token) (k : pkind) : pdiag :=
  match ts with t :: _ => mkPD (tline t) (Some (tlex t)) k | [] => mkPD eofl None k end.
Definition diag_tok (t : token) (k : pkind) : pdiag := mkPD (tline t) (Some (tlex t)) k.
Definition perr_at {A} (ts : list token) (k : pkind) : pres A := PErr [diag_at ts k].

Definition check (k : tkind) (ts : list token) : bool :=
  match ts with t :: _ => tkind_eqb (tk t) k | [] => false end.

Definition consume (k : tkind) (pk : pkind) (ts : list token) : pres token :=
  match ts with
  | t :: rest => if tkind_eqb (tk t) k then POk t rest [] else perr_at ts pk
  | [] => perr_at ts pk
  end.

(** a [consume] whose failure is reported but otherwise ignored *)
Definition consume_lenient (k : tkind) (pk : pkind) (ts : list token) : list token * list pdiag :=
  match ts with
  | t :: rest => if tkind_eqb (tk t) k then (rest, []) else (ts, [diag_at ts pk])
  | [] => (ts, [diag_at ts pk])
  end.

Definition is_lit_container (e : option expr) : bool :=
  match e with Some (EObject _) | Some (EArray _) => true | _ => false end.

Fixpoint pexpr (f : nat) (ts : list token) {struct f} : pres expr :=
  match f with O => PFuel | S f =>
    do (e, r) <- plevel f ladder ts;
    match r with
    | eq :: r1 =>
        if tkind_eqb (tk eq) TEQUAL then
          do (v, r2) <- pexpr f r1;
          match e with
          | EId name nline => POk (EAssign name nline v (tline eq)) r2 []
          | EIndex a i _ => POk (EArrAssign a i v (tline eq)) r2 []
          | EProp o p _ => POk (EPropAssign o p v (tline eq)) r2 []
          | _ => PErr [diag_tok eq PInvalidAssign]
          end
        else POk e r []
    | [] => POk e r []
    end
  end
with plevel (f : nat) (lv : list (list tkind * bool)) (ts : list token) {struct f} : pres expr :=
  match f with O => PFuel | S f =>
    match lv with
    | [] => punary f ts
    | l :: lv' => do (e, r) <- plevel f lv' ts; ploop f l lv' e r
    end
  end
with ploop (f : nat) (l : list tkind * bool) (lv' : list (list tkind * bool)) (e : expr) (ts : list token) {struct f} : pres expr :=
  match f with O => PFuel | S f =>
    match ts with
    | op :: r =>
        if kind_in (tk op) (fst l) then
          do (rhs, r') <- plevel f lv' r; ploop f l lv' (mk_bin (snd l) op e rhs) r'
        else POk e ts []
    | [] => POk e ts []
    end
  end
with punary (f : nat) (ts : list token) {struct f} : pres expr :=
  match f with O => PFuel | S f =>
    match ts with
    | op :: r =>
        if kind_in (tk op) unary_ops then
          do (e, r') <- punary f r; POk (EUnary (tk op) e (tline op)) r' []
        else do (e, r') <- pprimary f ts; pcallloop f e r'
    | [] => do (e, r') <- pprimary f ts; pcallloop f e r'
    end
  end
with pcallloop (f : nat) (e : expr) (ts : list token) {struct f} : pres expr :=
  match f with O => PFuel | S f =>
    match ts with
    | t :: r =>
        match tk t with
        | TLEFT_PAREN =>
            do (args, r1) <- (if check TRIGHT_PAREN r then POk [] r [] else pargs f r);
            do (paren, r2) <- consume TRIGHT_PAREN PRParenAfterArgs r1;
            pcallloop f (ECall e (tline paren) args) r2
        | TLEFT_BRACKET =>
            do (i, r1) <- pexpr f r;
            do (rb, r2) <- consume TRIGHT_BRACKET PRBracketAfterIndex r1;
            pcallloop f (EIndex e i (tline rb)) r2
        | TDOT =>
            do (nm, r1) <- consume TIDENTIFIER PPropAfterDot r;
            pcallloop f (EProp e (tlex nm) (tline nm)) r1
        | _ => POk e ts []
        end
    | [] => POk e ts []
    end
  end
with pargs (f : nat) (ts : list token) {struct f} : pres (list expr) :=
  (* one or more expressions separated by commas *)
  match f with O => PFuel | S f =>
    do (a, r) <- pexpr f ts;
    if check TCOMMA r then do (more, r') <- pargs f (tl r); POk (a :: more) r' []
    else POk [a] r []
  end
with pprimary (f : nat) (ts : list token) {struct f} : pres expr :=
  match f with O => PFuel | S f =>
    match ts with
    | t :: r =>
        match tk t with
        | TFALSE => POk (ELit (LitBool false) (tline t)) r []
        | TTRUE => POk (ELit (LitBool true) (tline t)) r []
        | TNIL => POk (ELit LitNil (tline t)) r []
        | TNUMBER => POk (ELit (match tlit t with LNum v => LitNum v | _ => LitNil end) (tline t)) r []
        | TSTRING => POk (ELit (match tlit t with LStr s => LitStr s | _ => LitNil end) (tline t)) r []
        | TIDENTIFIER => POk (EId (tlex t) (tline t)) r []
        | TLEFT_PAREN =>
            do (e, r1) <- pexpr f r;
            do (rp, r2) <- consume TRIGHT_PAREN PRParenAfterExpr r1;
            POk (EGroup e (tline rp)) r2 []
        | TLEFT_BRACKET =>
            do (es, r1) <- (if check TRIGHT_BRACKET r then POk [] r [] else pargs f r);
            do (_rb, r2) <- consume TRIGHT_BRACKET PRBracketAfterElems r1;
            POk (EArray es) r2 []
        | TLEFT_BRACE =>
            do (ps, r1) <- pprops f [] r;
            do (_rb, r2) <- consume TRIGHT_BRACE PRBraceAfterObject r1;
            POk (EObject ps) r2 []
        | _ => perr_at ts PExpectExpr
        end
    | [] => perr_at ts PExpectExpr
    end
  end
with pprops (f : nat) (acc : list (list N * expr)) (ts : list token) {struct f} : pres (list (list N * expr)) :=
  match f with O => PFuel | S f =>
    match ts with
    | [] => POk acc ts []
    | t :: _ =>
        if tkind_eqb (tk t) TRIGHT_BRACE then POk acc ts []
        else
          do (nm, r1) <- consume TIDENTIFIER PPropName ts;
          do (_c, r2) <- consume TCOLON PColonAfterProp r1;
          do (v, r3) <- pexpr f r2;
          let acc' := props_put acc (tlex nm) v in
          if check TCOMMA r3 then pprops f acc' (tl r3) else POk acc' r3 []
    end
  end.

(** [ধরি] declarators after the keyword.  [l0] is the line of the first token
    after the keyword. *)
Fixpoint pvardecls (f : nat) (l0 : N) (ts : list token) {struct f} : pres (list vdecl) :=
  match f with O => PFuel | S f' =>
    do (nm, r1) <- consume TIDENTIFIER PExpectVarName ts;
    if is_reserved (tlex nm) then PErr [diag_tok nm PReservedVar]
    else
      do (init, r2) <- (if check TEQUAL r1 then do (e, r) <- pexpr f' (tl r1); POk (Some e) r []
                        else POk None r1 []);
      let d := (tlex nm, init, tline nm) in
      if negb (is_lit_container init) && negb (peek_line r2 =? l0) then perr_at r2 PSemiBeforeNewline
      else if check TCOMMA r2 then do (more, r3) <- pvardecls f' l0 (tl r2); POk (d :: more) r3 []
      else POk [d] r2 []
  end.

Definition pvar (f : nat) (ts : list token) : pres stmt :=
  do (ds, r1) <- pvardecls f (peek_line ts) ts;
  do (_s, r2) <- consume TSEMICOLON PSemiAfterVar r1;
  match ds with
  | [d] => POk (SVar d) r2 []
  | _ => POk (SVarList ds) r2 []
  end.

Definition pexprstmt (f : nat) (ts : list token) : pres stmt :=
  do (e, r1) <- pexpr f ts;
  let '(r2, ds) := consume_lenient TSEMICOLON PSemiAfterValue r1 in
  POk (SExpr e) r2 ds.

Fixpoint pparams (f : nat) (n : nat) (ts : list token) {struct f} : pres (list (list N)) :=
  (* [n] = number of parameters already read *)
  match f with O => PFuel | S f' =>
    if Nat.leb max_params n then perr_at ts PTooManyParams
    else
      do (p, r1) <- consume TIDENTIFIER PExpectParam ts;
      if check TCOMMA r1 then do (more, r2) <- pparams f' (S n) (tl r1); POk (tlex p :: more) r2 []
      else POk [tlex p] r1 []
  end.

Fixpoint pdecl (f : nat) (ts : list token) {struct f} : pres stmt :=
  match f with O => PFuel | S f =>
    match ts with
    | t :: r =>
        match tk t with
        | TFUN =>
            do (nm, r1) <- consume TIDENTIFIER PExpectFunName r;
            if is_reserved (tlex nm) then PErr [diag_tok nm PReservedFun]
            else
              do (_lp, r2) <- consume TLEFT_PAREN PLParenAfterFunName r1;
              do (ps, r3) <- (if check TRIGHT_PAREN r2 then POk [] r2 [] else pparams f 0 r2);
              do (_rp, r4) <- consume TRIGHT_PAREN PRParenAfterParams r3;
              do (_lb, r5) <- consume TLEFT_BRACE PLBraceBeforeBody r4;
              do (body, r6) <- pblock f r5;
              POk (SFun (tlex nm) ps body) r6 []
        | TVAR => pvar f r
        | _ => pstmt f ts
        end
    | [] => pstmt f ts
    end
  end
with pstmt (f : nat) (ts : list token) {struct f} : pres stmt :=
  match f with O => PFuel | S f =>
    match ts with
    | t :: r =>
        match tk t with
        | TIF =>
            do (_lp, r1) <- consume TLEFT_PAREN PLParenAfterIf r;
            do (c, r2) <- pexpr f r1;
            do (_rp, r3) <- consume TRIGHT_PAREN PRParenAfterIfCond r2;
            do (th, r4) <- pstmt f r3;
            if check TELSE r4 then do (el, r5) <- pstmt f (tl r4); POk (SIf c th (Some el)) r5 []
            else POk (SIf c th None) r4 []
        | TWHILE =>
            do (_lp, r1) <- consume TLEFT_PAREN PLParenAfterWhile r;
            do (c, r2) <- pexpr f r1;
            do (_rp, r3) <- consume TRIGHT_PAREN PRParenAfterCond r2;
            do (b, r4) <- pstmt f r3;
            POk (SWhile c b) r4 []
        | TFOR =>
            do (_lp, r1) <- consume TLEFT_PAREN PLParenAfterFor r;
            do (init, r2) <- (if check TSEMICOLON r1 then POk None (tl r1) []
                              else if check TVAR r1 then do (s, r') <- pvar f (tl r1); POk (Some s) r' []
                              else do (s, r') <- pexprstmt f r1; POk (Some s) r' []);
            do (c, r3) <- (if check TSEMICOLON r2 then POk None r2 [] else do (e, r') <- pexpr f r2; POk (Some e) r' []);
            do (_s, r4) <- consume TSEMICOLON PSemiAfterLoopCond r3;
            do (inc, r5) <- (if check TRIGHT_PAREN r4 then POk None r4 [] else do (e, r') <- pexpr f r4; POk (Some e) r' []);
            do (_rp, r6) <- consume TRIGHT_PAREN PRParenAfterFor r5;
            do (b, r7) <- pstmt f r6;
            POk (SFor init (match c with Some c => c | None => ELit (LitBool true) 0 end) inc b) r7 []
        | TPRINT =>
            do (e, r1) <- pexpr f r;
            let '(r2, ds) := consume_lenient TSEMICOLON PSemiAfterValue r1 in
            POk (SPrint e) r2 ds
        | TRETURN =>
            do (v, r1) <- (if check TSEMICOLON r then POk None r [] else do (e, r') <- pexpr f r; POk (Some e) r' []);
            do (_s, r2) <- consume TSEMICOLON PSemiAfterReturn r1;
            POk (SReturn (tline t) v) r2 []
        | TBREAK =>
            do (s, r1) <- consume TSEMICOLON PSemiAfterBreak r;
            POk (SBreak (tline s)) r1 []
        | TCONTINUE =>
            do (s, r1) <- consume TSEMICOLON PSemiAfterContinue r;
            POk (SContinue (tline s)) r1 []
        | TLEFT_BRACE =>
            do (ss, r1) <- pblock f r;
            POk (SBlock ss) r1 []
        | _ => pexprstmt f ts
        end
    | [] => pexprstmt f ts
    end
  end
with pblock (f : nat) (ts : list token) {struct f} : pres (list stmt) :=
  (* statements up to the closing brace; a missing brace is reported, not fatal *)
  match f with O => PFuel | S f =>
    match ts with
    | [] => POk [] ts [diag_at ts PRBraceAfterBlock]
    | t :: r =>
        if tkind_eqb (tk t) TRIGHT_BRACE then POk [] r []
        else do (s, r1) <- pdecl f ts; do (ss, r2) <- pblock f r1; POk (s :: ss) r2 []
    end
  end.

Fixpoint pprogram (f : nat) (ts : list token) {struct f} : pres (list stmt) :=
  match f with O => PFuel | S f =>
    match ts with
    | [] => POk [] [] []
    | _ => do (s, r1) <- pdecl f ts; do (ss, r2) <- pprogram f r1; POk (s :: ss) r2 []
    end
  end.

End WithEof.

(** enough fuel for any token list (theorem [parse_total]) *)
Definition parse_fuel (ts : list token) : nat := 40 * (length ts + 2).

Record parsed := mkParsed { pr_prog : option (list stmt); pr_diags : list pdiag; pr_fuel_out : bool }.

Definition parse (ts : list token) (eofl : N) : parsed :=
  match pprogram eofl (parse_fuel ts) ts with
  | POk ss _ ds => mkParsed (Some ss) ds false
  | PErr ds => mkParsed None ds false
  | PFuel => mkParsed None [] true
  end.
