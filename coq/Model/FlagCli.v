(** main.go once more, over the flag-level evaluator of FlagEval.v: the exit status is
    decided by the two process-global flags, and stderr carries EVERY diagnostic that
    was written, not only the first. *)
From Borno Require Import Base Num Unicode Token Lexer Ast Parser Value Eval Cli FlagEval.
Open Scope N_scope.

Inductive frun_result :=
  | FRFront (ld : list (N * lexdiag)) (pd : list pdiag)
  | FRDone (fs : fstate)
  | FRCrash (fs : fstate)
  | FRFuel
  | FRStuck
  | FRParseFuel.

Section WithOracles.
Variable libm : N -> f64 -> f64 -> f64.
Variable clock : f64.
Variable sched : N -> list (list N * value) -> list (list N * value).
Variable eval_fuel : nat.

Definition frun_source (repl : bool) (src : list N) (stdin : list N) : frun_result :=
  let lx := lex src in
  let pr := parse (lx_tokens lx) (lx_eof_line lx) in
  if pr_fuel_out pr then FRParseFuel
  else
    match lx_diags lx, pr_diags pr, pr_prog pr with
    | [], [], Some prog =>
        match frun_stmts libm clock sched eval_fuel repl prog (fclean (init_state stdin)) with
        | FOk _ fs => FRDone fs
        | FCrash fs => FRCrash fs
        | FFuel => FRFuel
        | FStuck => FRStuck
        end
    | ld, pd, _ => FRFront ld pd
    end.

Definition runtime_items (fs : fstate) : list stderr_item :=
  map (fun d => DRuntime (fst d) (snd d)) (fs_diags fs).

(** stdout, stderr, and the status runFile ends with: 65 is decided before anything runs,
    70 by utils.HadRuntimeError *)
Definition fresult_streams (r : frun_result) : option (list event * list stderr_item * N) :=
  match r with
  | FRFront ld pd => Some ([], front_items ld pd, 65)
  | FRDone fs => Some (rev (out (fs_st fs)), runtime_items fs, if fs_flag fs then 70 else 0)
  | FRCrash fs => Some (rev (out (fs_st fs)), runtime_items fs ++ [DGoCrash], 2)
  | _ => None
  end.

Definition frun_file (src stdin : list N) : outcome :=
  match fresult_streams (frun_source false src stdin) with
  | Some (o, e, st) => PExit (mkProc o e st)
  | None => PNoResult RFuel
  end.

(** the REPL resets both flags before every line *)
Fixpoint frepl_lines (ls : list (list N)) : option (list event * list stderr_item) :=
  match ls with
  | [] => Some ([EvPrompt s_prompt], [])
  | l :: r =>
      match fresult_streams (frun_source true l []), frepl_lines r with
      | Some (o, e, _), Some (o', e') => Some (EvPrompt s_prompt :: o ++ o', e ++ e')
      | _, _ => None
      end
  end.

Definition frepl (stdin : list N) : outcome :=
  match frepl_lines (scan_lines stdin) with
  | Some (o, e) => PExit (mkProc o e 0)
  | None => PNoResult RFuel
  end.

Definition fmain (args : list (list N)) (fs : list N -> file_read) (stdin : list N) : outcome :=
  match args with
  | [] => frepl stdin
  | [path] =>
      if str_eqb (filepath_ext path) ext_bn then
        match fs path with
        | FileOk src => frun_file src stdin
        | FileErr => PExit (mkProc [] [DFileError] 1)
        end
      else PExit (mkProc [EvText s_badext] [] 64)
  | _ => PExit (mkProc [EvText s_usage] [] 64)
  end.

End WithOracles.
