(** Extraction of the executable model to OCaml.  [ExtrOcamlBasic] only: bool,
    option, unit, list, prod, sumbool map to OCaml's; N, Z, positive, nat stay the
    inductive types of Coq.  No [Extract Constant] of ours. *)
From Coq Require Import Extraction ExtrOcamlBasic.
From Borno Require Import Base Num Unicode Token Lexer Ast Parser Value Eval Cli Nfc Render FlagEval FlagCli.
Extraction Language OCaml.
Set Extraction KeepSingleton.
Extraction "bornomodel.ml"
  main run_source run_file repl fmain frun_file frepl rotate_sched lex parse outcome_str tokens_str parse_str
  nfc text_num parse_float literal_value f_of_bits f_to_bits digits_val decimal_of_Z
  translit is_digit is_alpha is_alnum is_letter is_mark is_space trim_space
  tkind_code native_code all_natives native_name native_arity
  f_add f_sub f_mul f_div f_mod f_sqrt f_round f_abs f_neg f_of_Z to_int64 wrap64
  i64_shl i64_shr keywords reserved_names ladder.
