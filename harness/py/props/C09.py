"""C09: tokens are a faithful maximal-munch partition with true lines.  Streams: every code point on
its own; all texts up to a length bound over the fragment alphabet; random long texts mixing multi-line
strings and comments.  Own predicates on the implementation's token list: lexemes in order are a
subsequence partition of the source (re-scan of the gaps gives only blanks/comments or a diagnosed piece),
Line = 1 + newlines before the token's last character."""
import itertools
import core, lang
from front import diff_front, replay_front
from props.common import sub_rng
from props.C10 import cpsweep

replay = replay_front

ALPHA = ['(', ')', '{', '}', '[', ']', ',', '.', '-', ':', '+', ';', '|', '&', '^', '~', '*', '!', '=', '<', '>', '%', '/',
         ' ', '\t', '\r', '\n', '"', '_', '1', '৫', 'a', 'ক', '্', 'য়', '@', '$', '\x00', ' ', '﻿', '٣', '\U0001d400']
SMALL = ['/', '*', '"', '\n', ' ', 'a', '1', '.', '=', '<', '&', '|']


def skip_layout(src, pos):
    """independent description of what may separate two tokens: blanks, // comments, /* */ comments"""
    n = len(src)
    while pos < n:
        c = src[pos]
        if c in ' \r\t\n':
            pos += 1
        elif src.startswith('//', pos):
            k = src.find('\n', pos)
            pos = n if k < 0 else k
        elif src.startswith('/*', pos):
            k = src.find('*/', pos + 2)
            if k < 0:
                return None
            pos = k + 2
        else:
            break
    return pos


def own_predicates(src, g):
    """the property's clauses checked directly on Go's tokens (texts without lexical diagnostics):
    the lexemes, in order, are exactly the source with blanks and comments removed; lines; string values"""
    if any(x.startswith('[line') and 'Error:' in x for x in g['stderr'].split('\n')):
        return None
    toks = g.get('tokens') or []
    pos = 0
    for t in toks:
        ty, lex, lit, line = t.split(' ')
        lexeme = ''.join(chr(int(x)) for x in lex[1:-1].split('.')) if lex != '<>' else ''
        pos = skip_layout(src, pos)
        if pos is None or not src.startswith(lexeme, pos) or lexeme == '':
            return 'lexeme %r is not the next piece of the text after blanks and comments (at %s)' % (lexeme, pos)
        end = pos + len(lexeme)
        want = 1 + src[:end - 1].count('\n')
        if int(line) != want:
            return 'token %r carries line %s, expected %d' % (lexeme, line, want)
        if ty == '31':
            val = lit[len('str:<'):-1]
            sval = ''.join(chr(int(x)) for x in val.split('.')) if val else ''
            if lexeme[1:-1] != sval or lexeme[0] != '"' or lexeme[-1] != '"':
                return 'string value %r is not the text between the quotes of %r' % (sval, lexeme)
        pos = end
    pos = skip_layout(src, pos)
    if pos is not None and pos != len(src):
        return 'text after the last token was dropped silently: %r' % src[pos:pos + 20]
    if g['eof_line'] != 1 + src.count('\n'):
        return 'EOF line %s, expected %d' % (g['eof_line'], 1 + src.count('\n'))
    return None


def run(env, tier, seed, broken=None):
    rng = sub_rng(seed, 'C09')
    mism = []
    g, m = cpsweep(env)
    evals = 0x110000 - 2048
    if g != m:
        d = sorted(set(g) ^ set(m))[:6]
        mism.append({'case': None, 'reason': 'code-point sweep differs (start end type hadError eofLine translitDelta): ' + ' | '.join(d)})
    texts = []
    n = 2 if tier == 'quick' else 3
    for k in range(1, n + 1):
        for t in itertools.product(ALPHA, repeat=k):
            texts.append(''.join(t))
    for k in range(3, 6 if tier == 'quick' else 7):
        for t in itertools.product(SMALL, repeat=k):
            if k < 5 or rng.random() < (0.2 if tier == 'quick' else 1.0):
                texts.append(''.join(t))
    kws = list(lang.KW.values())
    for _ in range(3000 if tier == 'quick' else 60000):
        parts = []
        for _ in range(rng.randint(2, 25)):
            r = rng.random()
            if r < 0.15:
                parts.append('"' + ''.join(rng.choice(['a', ' ', '\n', 'ক', '/', '*', '\x00', '\t']) for _ in range(rng.randint(0, 6))) + ('"' if rng.random() < 0.9 else ''))
            elif r < 0.25:
                parts.append('/*' + ''.join(rng.choice(['a', ' ', '\n', '*', '/', '"']) for _ in range(rng.randint(0, 8))) + ('*/' if rng.random() < 0.9 else ''))
            elif r < 0.33:
                parts.append('//' + ''.join(rng.choice(['a', ' ', '"', '*', '\x00', '\r']) for _ in range(rng.randint(0, 5))) + '\n')
            elif r < 0.45:
                parts.append(rng.choice(kws) + rng.choice(['', '', 'x', '_', '1']))
            else:
                parts.append(rng.choice(ALPHA + ['12', '1.5', '৩.১৪', '1.', '.5', '<=', '<<', '**', '&&', '||', '==', '!=', '>=', '>>']))
        texts.append(rng.choice(['', ' ', '\n']).join(parts))
    for sp in ['\x00', '\u00a0', '\ufeff', '@', '\\', "'", '\r', '\t']:
        texts += ['"a%sb" 1' % sp, '// a%sb\n1' % sp, '/* a%sb */ 1' % sp, 'x %s// c\n2' % sp, '"%s"' % sp, '"%s' % sp, '//%s' % sp, '/*%s*/' % sp, '1%s2' % sp, 'a%sb' % sp]
    for sp in ['\u00a0', '\u2003', '\u3000', '\x0b', '\x0c', '\u0085', '\u2028', '\u1680', '\u200b']:
        for bl in [' ', '\t', '\r', '\n', '']:
            texts += ['1 +%s%s2' % (bl, sp), '%s%sx' % (bl, sp), 'x%s%s' % (bl, sp)]
    for dg in ['\u0663', '\u096a', '\uff11', '\u0be7', '\u09f4', '\u00b2', '\u2460']:
        texts += ['x' + dg, 'x' + dg + 'y', dg + 'x', '1' + dg, dg, '_' + dg, 'ক' + dg]
    for nm in lang.near_words():
        texts += [nm, nm + ' 1', 'x ' + nm + '(']
    for tail in ['1.', '1.;', 'a.', '"s".', '1..', '/* x *', '/* x */', '/*', '/', '//', '"', '1.5.', '৫.', 'x = 1.']:
        texts += [tail, 'y ' + tail, tail + '\n']
    mm, gd, acc = diff_front(env, texts)
    mism += mm
    # large script files through the real process (main.go reads and decodes the file before the lexer sees it): mostly
    # three-byte characters, three byte alignments, so that every power-of-two offset up to the file size falls
    # inside a character in at least one of them
    big = []
    for pad in (0, 1, 2):
        lines = ['// ' + 'x' * pad]
        for i in range(700 if tier == 'quick' else 3000):
            lines.append('%s "%s %d";' % (lang.PRINT, 'বাংলা লেখা ' * 3, i) if i % 50 == 0 else '%s ক%d = "%s";' % (lang.VAR, i, 'অআইঈউঊ' * 5))
        lines.append('%s ক%d;' % (lang.PRINT, 7))
        big.append({'id': 'big%d' % pad, 'src': '\n'.join(lines) + '\n', 'timeout_ms': 20000})
    # line-break conventions through the real process: CR LF / lone CR / LF inside string literals, comments and between
    # tokens (the file's bytes reach the lexer unchanged: a CR inside a literal is part of the string)
    for i, t in enumerate(['%s "a\r\nb" == "a\nb";\n%s "a\r\nb";\n', '%s "x";\r\n%s "y";\r\n', '%s 1; // c\r\n%s 2;\r\n', '%s 1; /* a\r\nb */ %s 2;\n',
                           '%s "a\rb";\r%s 3;\n', '%s\r\n"lit\r\n";\r\n%s 4;', '%s "\r";\n%s "\r\n" == "\n";\n', '%s 1 +\r\n2;\n%s "end\r";']):
        big.append({'id': 'crlf%d' % i, 'src': t % (lang.PRINT, lang.PRINT)})
    from props.common import diff_runs
    mm3, ri3, rm3 = diff_runs(env, big, need_oracle=False, timeout_ms=20000)
    mism += mm3
    for c in big:
        r = ri3[c['id']][0]
        if c['id'].startswith('big') and (r['status'] != 0 or r['stderr'] != b''):
            mism.append({'case': dict(c, src=c['src'][:200] + '... (%d bytes)' % len(c['src'].encode())), 'reason': 'a valid %d-byte script was not accepted: status %s, stderr %r' % (len(c['src'].encode()), r['status'], r['stderr'][:120])})
    nontriv = set()
    for i, s in enumerate(texts):
        gg = gd.get('t%d' % i)
        if gg and not gg.get('panic'):
            why = own_predicates(s, gg)
            nontriv.add(tuple(t.split(' ')[0] for t in (gg.get('tokens') or [])))
            if why:
                mism.append({'case': {'id': 't%d' % i, 'src': s, 'front': True}, 'reason': why})
    return {'evaluations': evals + len(texts), 'distinct_nontrivial': len(nontriv), 'mismatches': mism,
            'rule': 'every code point alone (exhaustive); all texts of <= %d pieces over a %d-piece fragment alphabet, <= %d over a 12-character alphabet; random long texts with multi-line strings and comments; non-trivial = distinct token-kind sequences' % (n, len(ALPHA), 5 if tier == 'quick' else 6),
            'samples': [texts[100], texts[-1][:80]], 'exhaustive_code_points': True, 'texts': len(texts)}
