"""C10: numeric literals.  Streams: every code point (classification, transliteration);
digit strings in both scripts and mixtures; long, halfway, subnormal and threshold literals.
Own predicate: Go's literal value == the correctly rounded value (Python float() of the ASCII form),
script swaps do not change it, overflow is a diagnostic."""
import itertools, random
from fractions import Fraction
import core, lang
from props.common import sub_rng, replay_generic

replay = replay_generic


def cpsweep(env):
    g = core.sh([env.godump, 'cpsweep']).stdout.decode().strip().split('\n')
    m = core.sh([env.model], input=b'cpsweep\tx\n').stdout.decode().strip().split('\n')
    return g, m


def literal_cases(tier, rng):
    lits = []
    D = '0123456789'
    B = lang.BN_DIGITS
    maxlen = 3 if tier == 'quick' else 4
    for n in range(1, maxlen + 1):
        for t in itertools.product(D, repeat=n):
            s = ''.join(t)
            lits.append(s); lits.append(lang.to_bangla(s))
    # fractions
    for a in ['0', '1', '9', '12', '100']:
        for n in range(1, maxlen + 1):
            for t in itertools.product(D, repeat=n):
                if rng.random() < (0.25 if n >= 3 else 1.0):
                    s = a + '.' + ''.join(t)
                    lits.append(s)
                    lits.append(lang.to_bangla(s))
    # mixtures of scripts, all strings of length <= 3 over the 20 digits (sampled at length 3 in quick)
    for n in (1, 2, 3):
        for t in itertools.product(D + B, repeat=n):
            if n < 3 or rng.random() < (0.15 if tier == 'quick' else 1.0):
                lits.append(''.join(t))
    # random long literals
    for _ in range(1500 if tier == 'quick' else 30000):
        n = rng.choice([5, 10, 17, 18, 19, 20, 25, 40, 100, 300, 310, 400, 800])
        ip = ''.join(rng.choice(D) for _ in range(rng.randint(1, n)))
        fp = ''.join(rng.choice(D) for _ in range(rng.randint(0, n)))
        s = ip + ('.' + fp if fp else '')
        if rng.random() < 0.5:
            s = ''.join(lang.BN_DIGITS[int(c)] if c.isdigit() and rng.random() < 0.5 else c for c in s)
        lits.append(s)
    # halfway cases: midpoint of two adjacent doubles, +- one unit in the last place
    for _ in range(300 if tier == 'quick' else 5000):
        m = rng.getrandbits(52) | (1 << 52)
        e = rng.randint(-60, 60)
        mid = Fraction(2 * m + 1, 2) * Fraction(2) ** e
        # exact decimal expansion of mid
        den = mid.denominator
        k = 0
        while den % 2 == 0:
            den //= 2; k += 1
        num = mid.numerator * 5 ** k
        s = str(num)
        if k > 0:
            s = s.rjust(k + 1, '0')
            s = s[:-k] + '.' + s[-k:]
        lits.append(s)
        # one digit more, nudged up and down
        if '.' not in s:
            s = s + '.0'
        lits.append(s + '1'); lits.append(s[:-1] + str((int(s[-1]) + 9) % 10) + '9' if s[-1] != '0' else s + '0')
    # subnormals, smallest, overflow threshold
    lits += ['0.' + '0' * 323 + '4940656458412465441765687928682213723651', '0.' + '0' * 323 + '2470328229206232720882843964341106861825299',
             '0.' + '0' * 323 + '2470328229206232720882843964341106861825300', '0.' + '0' * 400 + '1',
             '17976931348623157' + '0' * 292, '179769313486231580793728971405301199252069012264752390332004544495176179865349768338004270583473493681874097'
             '7843968739935649450116003977746785441327006701009968944577854091821313723765910581096706366671813322044437'
             '4002195780686688140939766876729595055744967440984363168527144026210697080126768308659120703739131265677',
             '1' + '0' * 308, '2' + '0' * 308, '1' + '0' * 309, '9' * 400, '179769313486231570' + '0' * 291 + '.5']
    out = []
    seen = set()
    for s in lits:
        if s not in seen:
            seen.add(s); out.append(s)
    return out


def run(env, tier, seed, broken=None):
    rng = sub_rng(seed, 'C10')
    mism = []
    # (1) every code point
    g, m = cpsweep(env)
    evals = 0x110000 - 2048
    if g != m:
        gs, ms = set(g), set(m)
        d = sorted(gs ^ ms)[:6]
        mism.append({'case': None, 'reason': 'code-point sweep differs (start end type hadError eofLine translitDelta): ' + ' | '.join(d)})
    # property predicate on the implementation's sweep: only U+09E6..U+09EF are transliterated, to 0..9
    for ln in g:
        a, b, ty, had, eofl, delta = ln.split(' ')
        a, b, delta = int(a), int(b), int(delta)
        if delta != 0 and not (0x9E6 <= a and b <= 0x9EF and delta == 0x30 - 0x9E6):
            mism.append({'case': None, 'reason': 'transliteration alters a non-Bangla-digit code point: ' + ln})
        if 0x9E6 <= a <= 0x9EF and delta == 0:
            mism.append({'case': None, 'reason': 'a Bangla digit is not transliterated: ' + ln})
    # (2) literals
    lits = literal_cases(tier, rng)
    cases = [{'id': 'n%d' % i, 'cps': core.cps_of(s + ';')} for i, s in enumerate(lits)]
    gd = env.run_godump('tokens', cases)
    md = env.run_model(['tokens\tn%d\t%s' % (i, core.field(core.cps_of(s + ';'))) for i, s in enumerate(lits)], need_oracle=False)
    nontriv = set()
    for i, s in enumerate(lits):
        cid = 'n%d' % i
        go = gd[cid]
        gt = '\x1f'.join(go.get('tokens') or [])
        mt = md[cid][0]
        asc = lang.to_ascii(s)
        want = float(asc)
        evals += 1
        if want == float('inf'):
            # property: rejected with a diagnostic, no NUMBER token
            if not go['had_error'] or any(t.split(' ')[0] == '32' for t in (go.get('tokens') or [])):
                mism.append({'case': {'id': cid, 'src': s + ';'}, 'reason': 'literal beyond the double range is not rejected: %s' % s[:60]})
        else:
            toks = go.get('tokens') or []
            bits = None
            if toks and toks[0].split(' ')[0] == '32':
                bits = int(toks[0].split(' ')[2].split(':')[1])
            if bits != lang.f64_bits(want):
                mism.append({'case': {'id': cid, 'src': s + ';'}, 'reason': 'literal %s denotes bits %s, correctly rounded value has bits %s' % (s[:60], bits, lang.f64_bits(want))})
            nontriv.add(lang.f64_bits(want))
        if gt != mt or (md[cid][2] != '') != go['had_error']:
            mism.append({'case': {'id': cid, 'src': s + ';'}, 'reason': 'tokens differ for %s: implementation %s | model %s' % (s[:60], gt[:200], mt[:200])})
    # (3) a point not followed by a digit is not part of the number; printing
    progs = []
    big = '1' + '0' * 309
    for s in [big + '; ' + big + ';', big + ' ' + big + ' ' + big, lang.to_bangla(big) + ';\n' + big + ';', '00' + '1' + '0' * 307 + ';', '000' + '17976931348623157' + '0' * 292 + ';',
              '0' * 400 + '42.5;', '0' * 310 + ';', '0' * 309 + '1;', lang.to_bangla('0' * 320 + '7') + ';', '1' + '0' * 308 + ';' + '1' + '0' * 308 + ';']:
        progs.append(s)
    for s in ['1.', '1.;', '1.a', '১.', '1..2', '.5', '1.5.5', '5 .5', '007', '০০৭.৫০']:
        progs.append(s)
    cases2 = [{'id': 'p%d' % i, 'cps': core.cps_of(s)} for i, s in enumerate(progs)]
    gd2 = env.run_godump('tokens', cases2)
    md2 = env.run_model(['tokens\tp%d\t%s' % (i, core.field(core.cps_of(s))) for i, s in enumerate(progs)], need_oracle=False)
    for i, s in enumerate(progs):
        evals += 1
        gt = '\x1f'.join(gd2['p%d' % i].get('tokens') or [])
        if gt != md2['p%d' % i][0] or (md2['p%d' % i][2] != '') != gd2['p%d' % i]['had_error'] or len([x for x in gd2['p%d' % i]['stderr'].split('\n') if x]) != len([x for x in md2['p%d' % i][2].split(' ') if x]):
            mism.append({'case': {'id': 'p%d' % i, 'src': s}, 'reason': 'tokens differ for %r' % s})
    return {'evaluations': evals, 'distinct_nontrivial': len(nontriv), 'mismatches': mism,
            'rule': 'every code point (type, diagnostic, transliteration) exhaustively; digit strings of both scripts to length %d, script mixtures to length 3, random literals to 800 digits, exact halfway cases +-1 digit, subnormal and overflow thresholds; non-trivial = distinct finite double values denoted' % (3 if tier == 'quick' else 4),
            'samples': lits[:3] + lits[-3:], 'exhaustive_code_points': True,
            'literals': len(lits)}
