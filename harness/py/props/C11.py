"""C11: arrays are bounds-checked shared references; লেন / এড / রিমুভ are pure sequence operations.
Every sequence of array operations up to a length bound on three arrays with shared ancestry, all live arrays
printed after every step; checked against the model AND against a pure Python list model (own predicate)."""
import itertools
import core, lang
from lang import *  # noqa
from props.common import sub_rng, diff_runs, replay_generic, corpus_cases

replay = replay_generic
OPS = ['readnear', 'writenear', 'rmnear', 'lit', 'alias', 'read0', 'readlast', 'readbad', 'write0', 'writebad', 'len', 'app1', 'app2', 'rm0', 'rmlast', 'rmbad', 'rmfrac', 'rmneg', 'rmstr',
       'elem', 'param', 'readfrac', 'readstr', 'readnumstr', 'appelem', 'litelem', 'eqalias', 'readhuge', 'writehuge', 'rmhuge']


def fmt_num(x):
    return str(int(x)) if float(x).is_integer() and abs(x) < 1e6 else repr(x)


def fmt(v):
    if isinstance(v, list):
        return '[' + ' '.join(fmt(x) for x in v) + ']'
    return fmt_num(v)


class PyModel:
    """pure list model: variables a, b, c hold references (Python lists; aliasing = same list object)"""
    def __init__(self):
        self.v = {'a': [1, 2, 3], 'b': None, 'c': None}
        self.v['b'] = self.v['a']
        self.v['c'] = [7]
        self.out = []
        self.err = False

    def dump(self):
        for n in 'abc':
            self.out.append(fmt(self.v[n]))


import itertools as _it
_huge = _it.count()


def step(m, k, op, tgt, other):
    """returns source line(s); updates the Python model (sets m.err on a fault)"""
    A = m.v[tgt]
    val = 10 * (k + 1)
    if op == 'lit':
        m.v[tgt] = [val, val + 1]; return '%s = [%d, %d];' % (tgt, val, val + 1)
    if op == 'alias':
        m.v[tgt] = m.v[other]; return '%s = %s;' % (tgt, other)
    if op == 'read0':
        if len(A) == 0: m.err = True
        else: m.out.append(fmt(A[0]))
        return '%s %s[0];' % (PRINT, tgt)
    if op == 'readlast':
        if len(A) == 0: m.err = True
        else: m.out.append(fmt(A[-1]))
        return '%s %s[%s(%s) - 1];' % (PRINT, tgt, LEN, tgt)
    if op == 'readbad':
        m.err = True; return '%s %s[%s(%s)];' % (PRINT, tgt, LEN, tgt)
    if op == 'readnear':
        m.err = True; return '%s %s[(0.1 + 0.2) * 10 - 3 + 0.0000000001];' % (PRINT, tgt)
    if op == 'writenear':
        m.err = True; return '%s[1.0000000001] = %d;' % (tgt, val)
    if op == 'rmnear':
        m.err = True; return '%s = %s(%s, 0.9999999999);' % (other, REMOVE, tgt)
    if op == 'readfrac':
        m.err = True; return '%s %s[0.5];' % (PRINT, tgt)
    if op == 'readstr':
        m.err = True; return '%s %s["x"];' % (PRINT, tgt)
    if op == 'readnumstr':
        if len(A) == 0: m.err = True
        else: m.out.append(fmt(A[0]))
        return '%s %s["0"];' % (PRINT, tgt)
    if op == 'write0':
        if len(A) == 0: m.err = True
        else: A[0] = val
        return '%s[0] = %d;' % (tgt, val)
    if op == 'writebad':
        m.err = True; return '%s[-1] = %d;' % (tgt, val)
    if op == 'len':
        m.out.append(fmt_num(len(A))); m.out.append(fmt_num(len(A) + 1)); return '%s %s(%s);\n%s %s(%s) + 1;' % (PRINT, LEN, tgt, PRINT, LEN, tgt)
    if op == 'app1':
        m.v[other] = list(A) + [val]; return '%s = %s(%s, %d);' % (other, APPEND, tgt, val)
    if op == 'app2':
        m.v[other] = list(A) + [val, val + 1, val + 2]; return '%s = %s(%s, %d, %d, %d);' % (other, APPEND, tgt, val, val + 1, val + 2)
    if op in ('readhuge', 'writehuge', 'rmhuge'):
        # integral indexes far outside the array, chosen so that truncation to 8, 16, 31, 32 or 63 bits would land inside it
        big = ['4294967296', '4294967297', '0 - 4294967295', '65536', '256', '2147483648', '0 - 2147483648', '2 ** 53', '2 ** 62', '0 - 2 ** 63', '2 ** 63', '2 ** 64', '10 ** 18', '18446744073709551616'][next(_huge) % 14]
        m.err = True
        if op == 'readhuge': return '%s %s[%s];' % (PRINT, tgt, big)
        if op == 'writehuge': return '%s[%s] = %d;' % (tgt, big, val)
        return '%s = %s(%s, %s);' % (other, REMOVE, tgt, big)
    if op == 'appelem':
        # an array appended as an element is the same array (a reference), not a copy
        m.v[other] = list(A) + [m.v['c']]; return '%s = %s(%s, c);' % (other, APPEND, tgt)
    if op == 'litelem':
        m.v[other] = [A, val, A]; return '%s = [%s, %d, %s];' % (other, tgt, val, tgt)
    if op == 'eqalias':
        # == on arrays is identity of reference (the empty array equals every empty array: Go compares slice headers)
        B = m.v[other]
        m.out.append('true' if (A is B or (len(A) == 0 and len(B) == 0)) else 'false')
        return '%s %s == %s;' % (PRINT, tgt, other)
    if op == 'rm0':
        if len(A) == 0: m.err = True
        else: m.v[other] = list(A[1:])
        return '%s = %s(%s, 0);' % (other, REMOVE, tgt)
    if op == 'rmlast':
        if len(A) == 0: m.err = True
        else: m.v[other] = list(A[:-1])
        return '%s = %s(%s, %s(%s) - 1);' % (other, REMOVE, tgt, LEN, tgt)
    if op == 'rmbad':
        m.err = True; return '%s = %s(%s, %s(%s));' % (other, REMOVE, tgt, LEN, tgt)
    if op == 'rmfrac':
        m.err = True; return '%s = %s(%s, 0.5);' % (other, REMOVE, tgt)
    if op == 'rmneg':
        m.err = True; return '%s = %s(%s, -1);' % (other, REMOVE, tgt)
    if op == 'rmstr':
        m.err = True; return '%s = %s(%s, "x");' % (other, REMOVE, tgt)
    if op == 'elem':
        # store the array inside another array and write through that path
        if len(A) == 0: m.err = True
        else: A[0] = val
        return '%s holder = [%s];\nholder[0][0] = %d;' % (VAR, tgt, val) if True else ''
    if op == 'param':
        if len(A) == 0: m.err = True
        else: A[0] = val
        return 'setfirst(%s, %d);' % (tgt, val)
    raise ValueError(op)


def program(seq):
    m = PyModel()
    lines = ['%s setfirst(arr, v) { arr[0] = v; }' % FUN, '%s a = [1, 2, 3];' % VAR, '%s b = a;' % VAR, '%s c = [7];' % VAR]
    nholder = 0
    for k, (op, tgt, other) in enumerate(seq):
        if m.err:
            break
        line = step(m, k, op, tgt, other)
        if op == 'elem':
            nholder += 1
            line = '{ ' + line.replace('\n', ' ') + ' }'
        lines.append(line)
        if not m.err:
            lines.append('%s [a, b, c];' % PRINT)
            m.out.append('[' + ' '.join(fmt(m.v[n]) for n in 'abc') + ']')
    return '\n'.join(lines) + '\n', m


def run(env, tier, seed, broken=None):
    rng = sub_rng(seed, 'C11')
    cases = corpus_cases('C11')
    expect = {}
    n = 0
    L = 3 if tier == 'quick' else 4
    atoms = [(op, t, o) for op in OPS for (t, o) in (('a', 'c'), ('b', 'a'), ('c', 'b'), ('a', 'a'))]
    seqs = []
    for k in (1, 2):
        seqs += list(itertools.product(atoms, repeat=k))
    for _ in range(6000 if tier == 'quick' else 150000):
        seqs.append(tuple(rng.choice(atoms) for _ in range(rng.randint(3, 5 if tier == 'quick' else 7))))
    for _ in range(300 if tier == 'quick' else 5000):
        seqs.append(tuple(rng.choice(atoms) for _ in range(rng.randint(20, 60))))
    for s in seqs:
        src, m = program(s)
        cid = 'q%d' % n; n += 1
        cases.append({'id': cid, 'src': src})
        expect[cid] = m
    shared_literal = [
        '%s mk() { %s [0, 0, 0]; }\n%s a = mk();\n%s b = mk();\na[0] = 7;\n%s a;\n%s b;\n%s %s(mk());\n%s mk();\n' % (FUN, RETURN, VAR, VAR, PRINT, PRINT, PRINT, LEN, PRINT),
        '%s rows = [0, 0, 0];\n%s (%s i = 0; i < 3; i = i + 1) { %s r = [1, 2]; r[1] = r[1] + i * 10; rows[i] = r; }\n%s rows;\n' % (VAR, FOR, VAR, VAR, PRINT),
        '%s k = 0;\n%s (k < 3) { k = k + 1; %s t = [5]; %s t; t[0] = k; %s %s(t, 9); }\n' % (VAR, WHILE, VAR, PRINT, PRINT, APPEND),
        '%s g() { %s e = []; %s %s(e, 1); }\n%s x = g();\nx[0] = 5;\n%s g();\n%s x;\n' % (FUN, VAR, RETURN, APPEND, VAR, PRINT, PRINT),
        '%s o() { %s {k: [1, 2]}; }\n%s p = o();\np.k[0] = 9;\n%s o();\n%s "s" == "s";\n' % (FUN, RETURN, VAR, PRINT, PRINT),
    ]
    # an array stored into itself or into an array it contains: the slot IS the array (no copy); never printed whole
    shared_literal += [
        '%s a = [1, 2, 3];\na[0] = a;\n%s %s(a[0]);\n%s a[0][1];\n%s a[0] == a;\na[0][1] = 20;\n%s a[1];\na[0][0][2] = 30;\n%s a[2];\n%s %s(a[0][0][0]);\n%s a[0][0] == a[0];\n' % (VAR, PRINT, LEN, PRINT, PRINT, PRINT, PRINT, PRINT, LEN, PRINT),
        '%s a = [1, 2];\n%s b = [a, 5];\na[1] = b;\n%s b[0][1][1];\nb[1] = 6;\n%s a[1][1];\n%s a[1] == b;\n%s b[0] == a;\n%s %s(%s(a, a)[2]);\n' % (VAR, VAR, PRINT, PRINT, PRINT, PRINT, PRINT, LEN, APPEND),
        '%s a = [0, 0];\n%s b = %s(a, a);\nb[2][0] = 7;\n%s a;\n%s b[2] == a;\n%s c = %s(b, 1);\nc[2][1] = 8;\n%s a;\n%s b;\n' % (VAR, VAR, APPEND, PRINT, PRINT, VAR, REMOVE, PRINT, PRINT),
        '%s put(arr, x) { arr[0] = x; %s arr; }\n%s a = [1, 2];\n%s r = put(a, a);\n%s r == a;\n%s r[0] == a;\n%s %s(r[0][0]);\n' % (FUN, RETURN, VAR, VAR, PRINT, PRINT, PRINT, LEN),
    ]
    # no built-in changes the array it is given (elements keep their type and value): every built-in that accepts an
    # array, on arrays holding numeric strings, Bangla-digit strings, nested arrays, then the array is inspected
    for call in ['%s(a)' % MIN, '%s(a)' % MAX, '%s(a)' % LEN, '%s(a, "9")' % APPEND, '%s(a, 0)' % REMOVE, '%s(a, 1, 2)' % MAX, '%s(a[0], a[1])' % MIN, '%s(a[3])' % ABS, '%s(a[0])' % ROUND]:
        shared_literal.append('%s a = ["12", "৭", 3, "4.50", "-0", "1e1"];\n%s b = a;\n%s r = %s;\n%s a;\n%s b;\n%s a[0] + a[1];\n%s a[0] == "12";\n%s a[3] == "4.50";\n%s a[4] + "";\n%s %s(a);\n' % (
            VAR, VAR, VAR, call, PRINT, PRINT, PRINT, PRINT, PRINT, PRINT, PRINT, LEN))
    for i, sl in enumerate(shared_literal):
        cases.append({'id': 'sl%d' % i, 'src': sl})
    mism, ri, rm = diff_runs(env, cases)
    nontriv = set()
    for c in cases:
        m = expect.get(c['id'])
        if m is None:
            continue
        r = ri[c['id']][0]
        got = r['stdout'].decode('utf-8', 'replace').split('\n')[:-1]
        nontriv.add(tuple(got[-2:]))
        if got != m.out or (r['status'] == 70) != m.err:
            mism.append({'case': c, 'reason': 'differs from the pure list model: implementation %s (status %s), list model %s (fault %s)' % (got[-3:], r['status'], m.out[-3:], m.err)})
    return {'evaluations': len(cases), 'distinct_nontrivial': len(nontriv), 'mismatches': mism,
            'rule': 'sequences over %d operations x 4 (target, destination) choices on arrays a, b (= alias of a), c: complete to length 2, random to length %d and 20-60; after every step all three arrays are printed; compared with the Coq model and with a pure Python list model; non-trivial = distinct final states' % (len(OPS), 5 if tier == 'quick' else 7),
            'samples': [cases[len(corpus_cases('C11')) + 500]['src'][-200:]]}
