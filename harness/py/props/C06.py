"""C06: a runtime error stops the program: true cause, right line, nothing afterwards.  The fault-planting
matrix: fault kind x syntactic position x enclosing construct, in multi-line programs that print before and
after and contain an input probe after the fault.  Own predicate on the implementation alone: status 70, first
diagnostic = the planted kind at the planted line, stdout ends before the fault (no 'after', no prompt), the run
terminates; a fault-free twin exits 0 with empty stderr."""
import core, lang, pools, progs, kernel
from lang import *  # noqa
from props.common import sub_rng, diff_runs, replay_generic, corpus_cases

replay = replay_generic

FAULTS = [('nope', 'RUndefinedVar'), ('(nope2 = 1)', 'RUndefinedAssign'), ('(%s + 1)' % NIL, 'ROperandsNumStr'), ('("a" * 2)', 'RLeftNumber'),
          ('(1.5 | 1)', 'RLeftInteger'), ('(1 / 0)', 'RDivZero'), ('(5 %% 0)'.replace('%%', '%'), 'RDivZero'), ('arr3[9]', 'RIndexBounds'), ('(5)[0]', 'RNotArrayAccess'),
          ('ob.zz', 'RNoProperty'), ('(5).k', 'RNotObjectAccess'), ('(5)(1)', 'RNotCallable'), ('fn2()', 'RArity'), ('%s()' % LEN, 'RArity'),
          ('%s(1)' % LEN, 'RCallFailed.NfNotArray'), ('%s(arr3, 9)' % REMOVE, 'RCallFailed.NfIndexBounds'), ('%s(ob, "zz")' % DELETE, 'RCallFailed.NfKeyMissing'),
          ('%s()' % MIN, 'RCallFailed.NfArgCount'), ('(1 << -1)', 'RNegShift'), ('-"x"', 'RUnaryNumber'), ('arr3["x"]', 'RIndexInteger'),
          ('[ob][7 % 7].zz', 'RNoProperty'), ('-"10%d"', 'RUnaryNumber'), ('~"5%s"', 'RUnaryInteger'), ('%s(ob, "100%%v")' % DELETE, 'RCallFailed.NfKeyMissing')]
PROBE = '%s("probe>")' % INPUT
# (template with @ for the faulting expression; everything evaluated after @ in the same statement must not run)
POSITIONS = ['%s @;' % PRINT, '%s v1 = @;' % VAR, '%s v2 = 1, v3 = @, v4 = %s;' % (VAR, PROBE), 'xx = @;', 'fn2(@);', 'fn3(1, @);', 'fn3(@, %s);' % PROBE,
             '%s [@, %s];' % (PRINT, PROBE), '%s [1, @];' % PRINT, '%s {k: @, j: %s};' % (PRINT, PROBE), '%s arr3[@];' % PRINT, 'arr3[@] = %s;' % PROBE,
             'arr3[0] = @;', 'ob.k = @;', '(@).k = %s;' % PROBE, '%s @ + %s;' % (PRINT, PROBE), '%s 1 + @;' % PRINT, '%s -(@);' % PRINT, '%s @ || %s;' % (PRINT, PROBE),
             '%s 0 || @;' % PRINT, '%s 1 && @;' % PRINT, '%s (@) { %s "then"; } %s { %s "else"; %s %s; }' % (IF, PRINT, ELSE, PRINT, PRINT, PROBE),
             '%s (@) { %s "body"; %s %s; }' % (WHILE, PRINT, PRINT, PROBE), '%s (%s i = @; i < 2; i = i + 1) { %s %s; }' % (FOR, VAR, PRINT, PROBE),
             '%s (%s i = 0; @; i = i + 1) { %s %s; }' % (FOR, VAR, PRINT, PROBE), '%s (%s i = 0; i < 2; i = i + @) { %s "once"; }' % (FOR, VAR, PRINT),
             '(@)(%s);' % PROBE, '%s fn3(@, 1) + fn3(1, %s);' % (PRINT, PROBE), '%s %s(@, %s);' % (PRINT, MAX, PROBE), '@;']
ENCLOSURES = ['none', 'block', 'if', 'else', 'while', 'for', 'fn', 'fnloop']


def wrap(stmt, enc):
    """returns (lines, index of the line holding stmt)"""
    if enc == 'none':
        return [stmt], 0
    if enc == 'block':
        return ['{', '  %s "in";' % PRINT, '  ' + stmt, '  %s "after-in";' % PRINT, '}'], 2
    if enc == 'if':
        return ['%s (1 < 2) {' % IF, '  ' + stmt, '  %s "after-in";' % PRINT, '}'], 1
    if enc == 'else':
        return ['%s (1 > 2) {' % IF, '  %s "no";' % PRINT, '} %s {' % ELSE, '  ' + stmt, '  %s "after-in";' % PRINT, '}'], 3
    if enc == 'while':
        return ['%s (%s) {' % (WHILE, TRUE), '  ' + stmt, '  %s "after-in";' % PRINT, '}'], 1
    if enc == 'for':
        return ['%s (;;) {' % FOR, '  ' + stmt, '  %s "after-in";' % PRINT, '}'], 1
    if enc == 'fn':
        return ['%s wrapper() {' % FUN, '  ' + stmt, '  %s "after-in";' % PRINT, '  %s %s;' % (PRINT, PROBE), '}', 'wrapper();'], 1
    if enc == 'fnloop':
        return ['%s wrapper() {' % FUN, '  ' + stmt, '  %s "after-in";' % PRINT, '}', '%s (%s) { wrapper(); %s "after-in"; }' % (WHILE, TRUE, PRINT)], 1


PRE = pools.SETUP + '%s xx = 0;\n%s fn3(p, q) { %s p; }\n%s "before";\n\n' % (VAR, FUN, RETURN, PRINT)
PRE_LINES = PRE.count('\n')
POST = '%s "after";\n%s %s;\n' % (PRINT, PRINT, PROBE)


def run(env, tier, seed, broken=None):
    rng = sub_rng(seed, 'C06')
    cases = corpus_cases('C06')
    want = {}
    n = 0
    for fi, (fexp, kind) in enumerate(FAULTS):
        for pi, pos in enumerate(POSITIONS):
            for enc in ENCLOSURES:
                if tier == 'quick' and enc not in ('none', 'while', 'fn') and (fi + pi + len(enc)) % 3:
                    continue
                stmt = pos.replace('@', fexp)
                lines, k = wrap(stmt, enc)
                src = PRE + '\n'.join(lines) + '\n' + POST
                cid = 'm%d' % n; n += 1
                cases.append({'id': cid, 'src': src, 'stdin': 'in1\nin2\nin3\n', 'timeout_ms': 2500})
                want[cid] = (kind, PRE_LINES + k + 1)
    # statements spread over several lines: the diagnostic names the line of the faulting operation itself, not the
    # line where the statement starts, ends, or where the next token sits
    ML = ['%s @\n  + 5;' % PRINT, '%s 1 +\n  @\n  + 5;' % PRINT, 'xx =\n  @\n;', 'fn3(\n  1,\n  @\n);', '%s [\n  1,\n  @\n  , 2];' % PRINT, '%s {k:\n  @\n  , j: 2};' % PRINT,
          '%s (\n  @\n) { %s "then"; }' % (IF, PRINT), '%s (\n  @\n)\n{ %s "body"; }' % (WHILE, PRINT), '%s\n  @\n;' % RETURN, 'arr3[\n  @\n] = 1;', '%s -\n  @\n;' % PRINT,
          '%s @\n  == 1;' % PRINT, '%s @\n  || 1;' % PRINT, '%s (@\n)\n;' % PRINT, '%s xx\n  =\n  @\n  ;' % PRINT]
    for fi, (fexp, kind) in enumerate(FAULTS):
        for pi, pos in enumerate(ML):
            for enc in ('none', 'fn', 'block'):
                if tier == 'quick' and (fi + pi) % 2 and enc != 'none':
                    continue
                if RETURN in pos and enc != 'fn':
                    continue
                stmt = pos.replace('@', fexp)
                lines, k = wrap(stmt, enc)
                src = PRE + '\n'.join(lines) + '\n' + POST
                cid = 'm%d' % n; n += 1
                cases.append({'id': cid, 'src': src, 'stdin': 'in1\nin2\nin3\n', 'timeout_ms': 2500})
                want[cid] = (kind, PRE_LINES + k + 1 + pos[:pos.index('@')].count('\n'))
    # statement-level faults
    stmts = [('%s xx = 1;' % VAR, 'RRedeclare', 'none'), ('%s;' % BREAK, 'RStrayBreak', 'top'), ('%s;' % CONTINUE, 'RStrayContinue', 'top'),
             ('%s 1;' % RETURN, 'RStrayReturn', 'top'), ('%s q1 = 1, q1 = 2;' % VAR, 'RRedeclare', 'any'),
             ('%s fp(pa, pb) { %s "in-fp"; }\nfp(1, 2);' % (FUN, PRINT), None, 'none')]
    stmts = [x for x in stmts if x[1]]
    # a stray return whose value is computed by calls that execute returns of their own on other lines: the diagnostic names
    # the line of the stray keyword
    for st in ['%s fn2(1);' % RETURN, '%s fn3(fn2(1), 2);' % RETURN, '%s fn2(fn2(fn2(0)));' % RETURN, '%s [fn2(1)][0] + fn3(1, 2);' % RETURN,
               '%s\n  fn2(\n  1);' % RETURN, '%s deep(3);' % RETURN]:
        for enc in ('none', 'block', 'if', 'else', 'while', 'for'):
            lines, k = wrap(st, enc)
            cid = 'm%d' % n; n += 1
            src = PRE + '%s deep(d) {\n  %s (d > 0) {\n    %s deep(d - 1);\n  }\n  %s 0;\n}\n' % (FUN, IF, RETURN, RETURN) + '\n'.join(lines) + '\n' + POST
            cases.append({'id': cid, 'src': src, 'stdin': 'in1\nin2\n', 'timeout_ms': 2500})
            want[cid] = ('RStrayReturn', PRE_LINES + 6 + k + 1)
    param_faults = [('%s nv;\n%s nv = 5;' % (VAR, VAR), 'RRedeclare', 1), ('%s nw = %s;\n%s nw;' % (VAR, NIL, VAR), 'RRedeclare', 1),
                    ('%s fq(pa, pb) {\n  %s pa = 5;\n  %s "after-in";\n}\nfq(1, 2);' % (FUN, VAR, PRINT), 'RRedeclare', 1), ('%s fr() {\n  %s fr = 5;\n  %s "after-in";\n}\nfr();' % (FUN, VAR, PRINT), 'RRedeclare', 1)]
    param_faults += [('%s nn = [1,\n  2,\n  3], mm = [4], nn = [5];' % VAR, 'RRedeclare', 2), ('%s oo = {k: 1,\n  j: 2}, oo = {};' % VAR, 'RRedeclare', 1),
                     ('%s q1 = [1,\n 2], q2 = [3,\n nope], q3 = [5];' % VAR, 'RUndefinedVar', 2), ('%s r1 = [1,\n 2], r2 = [1 / 0], r3 = [5];' % VAR, 'RDivZero', 1)]
    for st, kind, off in param_faults:
        cid = 'm%d' % n; n += 1
        cases.append({'id': cid, 'src': PRE + st + '\n' + POST, 'stdin': 'in1\nin2\n', 'timeout_ms': 2500})
        want[cid] = (kind, PRE_LINES + off + 1)
    for st, kind, where in stmts:
        for enc in (['none'] if where in ('top', 'none') else ENCLOSURES):
            lines, k = wrap(st, enc)
            cid = 'm%d' % n; n += 1
            cases.append({'id': cid, 'src': PRE + '\n'.join(lines) + '\n' + POST, 'stdin': 'in1\nin2\n', 'timeout_ms': 2500})
            want[cid] = (kind, PRE_LINES + k + 1)
    # fault-free twins: no diagnostic, status 0
    twins = []
    for pi, pos in enumerate(POSITIONS):
        if '(@)(' in pos or '(@).k' in pos or WHILE in pos or FOR in pos:
            continue
        stmt = pos.replace('@', '1').replace(PROBE, '7')
        cid = 'w%d' % pi
        twins.append(cid)
        cases.append({'id': cid, 'src': PRE + stmt + '\n' + POST, 'stdin': 'in1\nin2\n', 'timeout_ms': 2500})
    mism, ri, rm = diff_runs(env, cases, timeout_ms=2500)
    reached = 0
    for cid, (kind, line) in want.items():
        r = ri[cid][0]
        c = [x for x in cases if x['id'] == cid][0]
        out = r['stdout'].decode('utf-8', 'replace')
        items = core.parse_stderr(r['stderr'].decode('utf-8', 'replace'))
        why = None
        if r['timeout']:
            why = 'the program did not finish after the fault'
        elif r['status'] != 70:
            why = 'status %s instead of 70' % r['status']
        elif not items or items[0] != 'R:%d:%s' % (line, kind):
            why = 'first diagnostic %s, planted %s at line %d' % (items[:1], kind, line)
        elif 'probe>' in out or 'after' in out:
            why = 'output or input activity after the fault: %r' % out[-60:]
        elif not out.startswith('before\n'):
            why = 'output before the fault is missing: %r' % out[:40]
        else:
            reached += 1
        if why:
            mism.append({'case': c, 'reason': why})
    for cid in twins:
        r = ri[cid][0]
        if r['status'] != 0 or r['stderr'] != b'':
            c = [x for x in cases if x['id'] == cid][0]
            # a twin may legitimately fail if "1" is not valid in that position (index 1 of arr3 is fine; callee 1 skipped)
            mism.append({'case': c, 'reason': 'fault-free twin: status %s stderr %r' % (r['status'], r['stderr'][:100])})
    # the flag-level evaluator (Model/FlagEval.v, proved to refine the evaluator the other checks use): the WHOLE of
    # stderr - every diagnostic the mechanism writes after the first one - status and stdout, on the matrix and on
    # random faulty programs
    fcases = list(cases)
    for i in range(1500 if tier == 'quick' else 40000):
        r = sub_rng(seed, 'C06f%d' % i)
        fcases.append({'id': 'f%d' % i, 'src': progs.random_program(r, r.randint(4, 18), 3, fault_rate=0.7, use_input=True), 'stdin': 'a\n5\n', 'timeout_ms': 2500})
    extra = [c for c in fcases if c['id'].startswith('f')]
    gcs, mls = [], []
    for c in fcases:
        g, m = core.file_case(c['id'], c['src'], c.get('stdin', ''), timeout_ms=2500)
        gcs.append(g); mls.append('f' + m)        # mode "ffile"
    ri2 = dict(ri)
    ri2.update(env.run_impl([g for g, c in zip(gcs, fcases) if c['id'].startswith('f')], timeout_ms=2500))
    rf = env.run_model(mls, fuel=200000)
    multi = 0
    for c in fcases:
        r = ri2[c['id']][0]; mf = rf.get(c['id'])
        if mf is None or r['timeout'] or mf[0].startswith('noresult'):
            continue
        mstatus, mevents, mitems = (mf + ['', '', ''])[:3]
        kernel.offer_frun(c['src'], c.get('stdin', ''), mf)
        g = core.parse_stderr(r['stderr'].decode('utf-8', 'replace'))
        ml = mitems.split(' ') if mitems else []
        multi += len(g) > 1
        why = None
        if int(mstatus) != r['status']:
            why = 'flag-level model: status %s, implementation %s' % (mstatus, r['status'])
        elif core.model_stdout(mevents) != r['stdout']:
            why = 'flag-level model: stdout %r, implementation %r' % (core.model_stdout(mevents)[-120:], r['stdout'][-120:])
        elif g != ml:
            why = 'flag-level model: all diagnostics %s, implementation %s' % (ml, g)
        if why and len(mism) < 60:
            mism.append({'case': c, 'reason': why})
    return {'evaluations': len(cases) + len(fcases), 'flag_level_cases': len(fcases), 'runs_with_several_diagnostics': multi, 'distinct_nontrivial': reached, 'mismatches': mism,
            'rule': '%d fault kinds x %d syntactic positions x %d enclosures (quick: all for none/while/function, a third of the rest) + statement-level faults + fault-free twins; non-trivial = programs in which the planted fault was reached and reported as planted; the same matrix and random faulty programs against the flag-level evaluator on the whole of stderr' % (len(FAULTS), len(POSITIONS), len(ENCLOSURES)),
            'samples': [cases[len(corpus_cases('C06')) + 3]['src'][-260:]], 'faults_reached': reached}
