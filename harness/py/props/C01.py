"""C01: accepted programs get the tree the published ladder prescribes.  Streams: all ordered pairs
(thorough: triples) of binary operators and '=', each written minimally, with ladder-agreeing parentheses and
fully parenthesised; unary x binary, suffix x prefix, assignment chains, else nests; token sequences;
random trees.  Own predicate: Go's tree (groups stripped) equals the tree computed from the documented
precedence table by an independent Python implementation, and the three writings print the same."""
import itertools
import core, lang
from lang import *  # noqa
from front import diff_front, replay_front
from props.common import sub_rng, diff_runs, replay_generic


def replay(env, mm):
    return replay_front(env, mm) if (mm.get('case') or {}).get('front') else replay_generic(env, mm)


# README / grammer.txt ladder, loosest first (documentation, not code)
LEVELS = [['||', OR_W], ['&&', AND_W], ['|'], ['^'], ['&'], ['==', '!='], ['<', '<=', '>', '>='], ['<<', '>>'], ['+', '-'], ['*', '/', '%'], ['**']]
PREC = {op: i for i, l in enumerate(LEVELS) for op in l}
BINOPS = [op for l in LEVELS for op in l]
CODE = {'||': 43, OR_W: 43, '&&': 35, AND_W: 35, '|': 15, '^': 16, '&': 14, '==': 23, '!=': 21, '<': 27, '<=': 28, '>': 24, '>=': 25,
        '<<': 26, '>>': 29, '+': 9, '-': 8, '*': 13, '/': 12, '%': 19, '**': 17, '!': 20, '~': 18}


def sx_parse(s):
    toks = s.replace('(', ' ( ').replace(')', ' ) ').replace('[', ' [ ').replace(']', ' ] ').split()
    pos = [0]

    def rd():
        t = toks[pos[0]]; pos[0] += 1
        if t in '([':
            close = ')' if t == '(' else ']'
            out = [t]
            while toks[pos[0]] != close:
                out.append(rd())
            pos[0] += 1
            return out
        return t
    return rd()


def strip(t):
    """drop groups and line numbers from a parsed godump S-expression"""
    if not isinstance(t, list):
        return t
    if t[0] == '[':
        return ['['] + [strip(x) for x in t[1:]]
    h = t[1]
    if h == 'group':
        return strip(t[2])
    body = [strip(x) for x in t[2:]]
    if h in ('lit', 'id', 'unary', 'binary', 'assign', 'aassign', 'passign', 'index', 'prop', 'var', 'break', 'continue'):
        body = body[:-1]
    if h == 'call':
        body = [body[0], body[2]]
    if h == 'return':
        body = body[1:]
    return [h] + body


def ident(x):
    return ['id', '<%s>' % '.'.join(str(ord(c)) for c in x)]


def binnode(op, l, r):
    if PREC[op] <= 1:
        return ['logical', str(CODE[op]), l, r]
    return ['binary', str(CODE[op]), l, r]


def expected_chain(names, ops):
    """tree of  n0 op0 n1 op1 n2 ...  by precedence climbing over the documented table (all left-associative)"""
    def climb(i, minp):
        left = ident(names[i]); i += 1
        while i - 1 < len(ops) and PREC[ops[i - 1]] >= minp:
            op = ops[i - 1]
            right, i = climb(i, PREC[op] + 1)
            left = binnode(op, left, right)
        return left, i
    return climb(0, 0)[0]


def write_tree(t, mode):
    """text of an expected tree: mode 0 = parentheses exactly where needed... we only need 'agree' (parenthesise every
    binary sub-tree) and that is also 'full'"""
    if t[0] == 'id':
        return ''.join(chr(int(x)) for x in t[1][1:-1].split('.'))
    op = [k for k, v in CODE.items() if str(v) == t[1] and (k in PREC) and ((PREC[k] <= 1) == (t[0] == 'logical'))][0]
    l, r = write_tree(t[2], mode), write_tree(t[3], mode)
    if t[2][0] != 'id': l = '(' + l + ')'
    if t[3][0] != 'id': r = '(' + r + ')'
    return '%s %s %s' % (l, op, r)


def run(env, tier, seed, broken=None):
    rng = sub_rng(seed, 'C01')
    texts, expect = [], {}
    runs = []

    def add(text, exp, vals=None):
        expect[len(texts)] = exp
        texts.append(text)

    names = ['a', 'b', 'c', 'd']
    combos = list(itertools.product(BINOPS, repeat=2))
    if tier == 'thorough':
        combos += list(itertools.product(BINOPS, repeat=3))
    else:
        combos += [tuple(rng.choice(BINOPS) for _ in range(3)) for _ in range(1500)]
    groups = []
    for ops in combos:
        ns = names[:len(ops) + 1]
        tree = expected_chain(ns, list(ops))
        minimal = ' '.join(x for pair in zip(ns, list(ops) + ['']) for x in pair if x)
        agree = write_tree(tree, 1)
        full = '(' + agree + ')'
        stmt_exp = lambda: ['[', ['expr', tree]]
        ids = []
        for w in (minimal, agree, full):
            ids.append(len(texts)); add(w + ';', ['[', ['expr', tree]])
        groups.append((ops, ids, minimal, agree, full))
    # assignment: right associative, lowest
    for op in BINOPS[:12]:
        t = ['assign', '<97>', binnode(op, ident('b'), ident('c'))]
        add('a = b %s c;' % op, ['[', ['expr', t]])
    add('a = b = c;', ['[', ['expr', ['assign', '<97>', ['assign', '<98>', ident('c')]]]])
    add('a[0] = b.k = c;', None)
    # prefix operators bind tighter than **; suffixes bind tightest and chain left to right
    for u in ['-', '!', '~']:
        for op in BINOPS:
            add('%sa %s b;' % (u, op), ['[', ['expr', binnode(op, ['unary', str(CODE[u] if u != '-' else 8), ident('a')], ident('b'))]])
        add('%sa[0];' % u, ['[', ['expr', ['unary', str(CODE[u] if u != '-' else 8), ['index', ident('a'), ['lit', 'num:0']]]]])
        add('%s%sa;' % (u, u), ['[', ['expr', ['unary', str(CODE[u] if u != '-' else 8), ['unary', str(CODE[u] if u != '-' else 8), ident('a')]]]])
    UC = {'-': 8, '!': 20, '~': 18}
    for u1 in UC:
        for u2 in UC:
            if u1 != u2:
                add('%s%sa;' % (u1, u2), ['[', ['expr', ['unary', str(UC[u1]), ['unary', str(UC[u2]), ident('a')]]]])
                add('b ** %s%sa;' % (u1, u2), ['[', ['expr', ['binary', '17', ident('b'), ['unary', str(UC[u1]), ['unary', str(UC[u2]), ident('a')]]]]])
    add('a(b)(c)[0].k(d);', ['[', ['expr', ['call', ['prop', ['index', ['call', ['call', ident('a'), ['[', ident('b')]], ['[', ident('c')]], ['lit', 'num:0']], '<107>'], ['[', ident('d')]]]])
    # else attaches to the nearest if
    add('%s (a) %s (b) c; %s d;' % (IF, IF, ELSE), ['[', ['if', ident('a'), ['if', ident('b'), ['expr', ident('c')], ['expr', ident('d')]], 'none']])
    add('%s (a) %s (b) c; %s d; %s a;' % (IF, IF, ELSE, ELSE),
        ['[', ['if', ident('a'), ['if', ident('b'), ['expr', ident('c')], ['expr', ident('d')]], ['expr', ident('a')]]])
    add('%s (a) %s (b) %s (c) d; %s a;' % (IF, WHILE, IF, ELSE), None)
    # declarations: each declarator carries its own initialiser (or none) and its own line, whatever its neighbours
    # are; statement forms inside every clause that takes a statement or an expression
    for k in (1, 2, 3, 4):
        for pat in itertools.product([0, 1, 2], repeat=k):
            ds = ['v%d' % j if kind == 0 else 'v%d = %d' % (j, j + 10) if kind == 1 else 'v%d = [%d, v0]' % (j, j) for j, kind in enumerate(pat)]
            add('%s %s;' % (VAR, ', '.join(ds)), None)
            add('%s (%s %s; v0; v0 = v0 + 1) { }' % (FOR, VAR, ', '.join(ds)), None)
    for head in ['%s (%s i = 0; i < 2; i = i + 1)' % (FOR, VAR), '%s (i = 0; i; )' % FOR, '%s (; ; )' % FOR, '%s (a)' % WHILE, '%s (a)' % IF, '%s (a) b; %s' % (IF, ELSE)]:
        for body in ['c;', '{ c; }', '%s c;' % PRINT, '%s;' % BREAK, '%s c;' % RETURN, '%s (d) e;' % IF, '{ }', '{ { c; } d; }', 'c = {k: 1};', '%s (;;) c;' % FOR]:
            add(head + ' ' + body, None)
    mism, gd, acc = diff_front(env, texts)
    nontriv = set()
    for i, exp in expect.items():
        g = gd.get('t%d' % i)
        if g is None:
            continue
        if g['had_error'] or g['parse_err']:
            mism.append({'case': {'id': 't%d' % i, 'src': texts[i], 'front': True}, 'reason': 'a ladder-shaped text was rejected: %s' % g['stderr'][:120]})
            continue
        got = strip(sx_parse(g['ast']))
        nontriv.add(str(got))
        if exp is not None and got != exp:
            mism.append({'case': {'id': 't%d' % i, 'src': texts[i], 'front': True},
                         'reason': 'tree differs from the documented ladder: got %s expected %s' % (got, exp)})
    # adding agreeing parentheses never changes what a program prints (values chosen so that groupings differ)
    setup = '%s a = 7; %s b = 3; %s c = 2; %s d = 5;\n' % (VAR, VAR, VAR, VAR)
    cases = []
    for gi, (ops, ids, minimal, agree, full) in enumerate(groups):
        if tier == 'quick' and gi % 3 and len(ops) > 2:
            continue
        for k, w in enumerate((minimal, agree, full)):
            cases.append({'id': 'g%d_%d' % (gi, k), 'src': setup + '%s %s;\n' % (PRINT, w)})
    mm2, ri, rm = diff_runs(env, cases)
    mism += mm2
    byg = {}
    for c in cases:
        gi = c['id'].split('_')[0]
        r = ri[c['id']][0]
        byg.setdefault(gi, []).append((r['status'], r['stdout'], core.parse_stderr(r['stderr'].decode('utf-8', 'replace'))[:1], c))
    for gi, rs in byg.items():
        if len(set((a, b, str(d)) for a, b, d, _ in rs)) != 1:
            mism.append({'case': rs[0][3], 'reason': 'the three writings of one tree print differently: %s' % [(a, b[:40]) for a, b, d, _ in rs]})
    # token sequences and random trees (model vs implementation)
    texts2 = []
    TOKS = ['1', '"s"', 'a', '(', ')', '[', ']', '{', '}', ',', '.', ';', ':', '=', '||', '&&', '|', '^', '&', '==', '<', '<<', '+', '*', '**', '!', '-', '~',
            FUN, VAR, FOR, IF, ELSE, WHILE, TRUE, NIL, PRINT, RETURN, BREAK, CONTINUE, LEN]
    for n in (1, 2):
        for t in itertools.product(TOKS, repeat=n):
            texts2.append(' '.join(t))
    for _ in range(8000 if tier == 'quick' else 200000):
        texts2.append(' '.join(rng.choice(TOKS) for _ in range(rng.randint(3, 9))))

    def rtree(d):
        if d == 0 or rng.random() < 0.2:
            return rng.choice(['a', 'b', '1', '"s"', TRUE, NIL, '[a, 1]', '{k: a}', 'f(a)', 'a[1]', 'a.k'])
        r = rng.random()
        if r < 0.6:
            return '%s %s %s' % (rtree(d - 1), rng.choice(BINOPS), rtree(d - 1))
        if r < 0.7:
            return '%s%s' % (rng.choice(['-', '!', '~']), rtree(d - 1))
        if r < 0.8:
            return '(%s)' % rtree(d - 1)
        if r < 0.9:
            return '%s(%s)' % (rng.choice(['f', 'a.k', 'a[0]']), ', '.join(rtree(d - 1) for _ in range(rng.randint(0, 2))))
        return 'a = %s' % rtree(d - 1)
    for _ in range(3000 if tier == 'quick' else 60000):
        texts2.append(rtree(rng.randint(2, 6)) + ';')
    mm3, gd3, acc3 = diff_front(env, texts2, prefix='s')
    mism += mm3
    return {'evaluations': len(texts) + len(cases) + len(texts2), 'distinct_nontrivial': len(nontriv), 'mismatches': mism,
            'rule': 'all ordered pairs%s of the 21 binary operator spellings in three writings (minimal / ladder-agreeing parentheses / fully parenthesised), compared with the tree an independent precedence-climbing implementation of the documented table gives, and executed; unary x binary, suffix chains, assignment chains, else nests; all token sequences of length <= 2 over %d tokens, random ones to 9, random trees to depth 6; non-trivial = distinct accepted trees' % (' and triples' if tier == 'thorough' else ' and 1500 random triples', len(TOKS)),
            'samples': [texts[5], texts[-3], texts2[-1][:100]], 'accepted': acc + acc3}
