"""C17: math built-ins.  Every built-in x 0..3 (4) arguments x value kinds; numeric boundaries and random doubles
for abs / sqrt / round / pow / sin / cos / tan against the Go toolchain itself (goref) and the model; min / max over
permutations and list-versus-array forms."""
import itertools, math
import core, lang, pools
from lang import *  # noqa
from props.common import sub_rng, diff_runs, replay_generic, corpus_cases

replay = replay_generic
VALS = ['1', '-2.5', '0', '"3"', '"x"', '[]', '[3, 1, 2]', '[[3, 1, 2]]', '[[]]', '[[[4, 5]]]', 'arr3', '{}', 'fn1', NIL, TRUE, '0.5', '2.5', '-0.5', '1.5', '2 ** 1024', '2 ** 53', '"১.৫"', '-(2 ** 1024)', '2 ** 1024 - 2 ** 1024']


def num_src(x):
    """an exact source expression for a double"""
    if x != x: return '(2 ** 1024 - 2 ** 1024)'
    if x == float('inf'): return '(2 ** 1024)'
    if x == float('-inf'): return '(-(2 ** 1024))'
    if x == 0: return '(0 * -1)' if math.copysign(1, x) < 0 else '0'
    m, e = math.frexp(x)
    mi = int(m * (1 << 53))
    body = '(%d)' % mi if mi >= 0 else '(0 - %d)' % -mi
    if e - 53 < -1000:      # 2 ** e would underflow: scale in two exact steps
        return '(%s * 2 ** (-1000) * 2 ** (%d))' % (body, e - 53 + 1000)
    return '(%s * 2 ** (%d))' % (body, e - 53)


def run(env, tier, seed, broken=None):
    rng = sub_rng(seed, 'C17')
    cases = corpus_cases('C17')
    n = 0
    names = list(lang.NAT.values())
    for name in names:
        for k in range(0, 3):
            for args in itertools.product(VALS, repeat=k):
                cases.append({'id': 'n%d' % n, 'src': pools.SETUP + '%s %s(%s);\n' % (PRINT, name, ', '.join(args)), 'stdin': 'in1\nin2\n'}); n += 1
        for _ in range(80 if tier == 'quick' else 2000):
            args = [rng.choice(VALS) for _ in range(rng.choice([3, 4]))]
            cases.append({'id': 'n%d' % n, 'src': pools.SETUP + '%s %s(%s);\n' % (PRINT, name, ', '.join(args)), 'stdin': 'in1\nin2\n'}); n += 1
    bnd = [0.0, -0.0, 0.5, -0.5, 1.5, -1.5, 2.5, -2.5, 0.49999999999999994, 2.0 ** 52 + 0.5, 2.0 ** 52 - 0.5, 2.0 ** 53, 1e308, 5e-324, -4.0, 4.0, 2.0, 1e-300,
           float('inf'), float('-inf'), float('nan'), 3.141592653589793, 1e22, 1e16, 0.1, 3.0, -3.0, 0.3, 1.0]
    numeric = []
    for f in (ABS, SQRT, ROUND, SIN, COS, TAN):
        for x in bnd:
            numeric.append((f, [x]))
        for _ in range(300 if tier == 'quick' else 20000):
            x = lang.bits_f64(rng.getrandbits(64)) if rng.random() < 0.5 else rng.uniform(-1e3, 1e3)
            numeric.append((f, [x]))
    for x in bnd:
        for y in [0.0, 1.0, 2.0, -1.0, 0.5, -0.5, 3.0, 1e3, -2.0, 0.3, float('inf'), float('nan'), 10.0]:
            numeric.append((POW, [x, y]))
    for x, y in [(1e10, -31.0), (1e6, -53.0), (24068053371912.99, -23.0), (1e154, -2.0), (3.0, -640.0), (1e-10, 31.0), (2.0, -1074.0), (2.0, -1075.0), (10.0, 308.0), (10.0, -323.0), (1.0000001, 64.0), (-3.0, 63.0), (0.1, -9.0)]:
        numeric.append((POW, [x, y]))
    for _ in range(300 if tier == 'quick' else 20000):
        numeric.append((POW, [10.0 ** rng.randint(3, 20) * rng.uniform(1, 9), float(-rng.randint(12, 64))]))
    for _ in range(500 if tier == 'quick' else 30000):
        numeric.append((POW, [rng.uniform(-50, 50), rng.choice([rng.uniform(-5, 5), float(rng.randint(-40, 40))])]))
    powops = []
    for f, xs in numeric:
        cid = 'x%d' % n; n += 1
        src = '%s %s(%s);\n' % (PRINT, f, ', '.join(num_src(x) for x in xs))
        if f == POW:
            src += '%s %s ** %s;\n' % (PRINT, num_src(xs[0]), num_src(xs[1]))
            powops.append(cid)
        cases.append({'id': cid, 'src': src})
    # min / max over permutations, list versus array forms
    mm = []
    for xs in [[0.30000000000000004, 0.3], [0.3, 0.30000000000000004, 0.1], [2.0 ** 52, 2.0 ** 52 + 1], [1e15, 1e15 + 0.125], [1.0, 1.0000000000000002],
               [3, 1, 2], [1, 1, 0], [-0.0, 0.0], [5], [2, 7, 7, 1], [1e308, -1e308, 0], [0.1, 0.2, 0.30000000000000004]]:
        for perm in itertools.permutations(xs):
            for f in (MIN, MAX):
                a = ', '.join(num_src(float(x)) for x in perm)
                cid = 'p%d' % n; n += 1
                cases.append({'id': cid, 'src': '%s %s(%s);\n%s %s([%s]);\n' % (PRINT, f, a, PRINT, f, a)})
                mm.append((cid, f, perm))
    mism, ri, rm = diff_runs(env, cases)
    # own predicates: pow built-in == ** ; list form == array form; min/max = least/greatest; clock near now
    for cid in powops:
        o = ri[cid][0]['stdout'].split(b'\n')
        if len(o) >= 2 and o[0] != o[1]:
            mism.append({'case': [c for c in cases if c['id'] == cid][0], 'reason': 'pow built-in and ** differ: %r' % o[:2]})
    for cid, f, perm in mm:
        o = ri[cid][0]['stdout'].decode().split('\n')
        want = min(perm) if f == MIN else max(perm)
        if len(o) < 2 or o[0] != o[1] or float(o[0]) != want:
            mism.append({'case': [c for c in cases if c['id'] == cid][0], 'reason': 'min/max: got %r, expected %r twice' % (o[:2], want)})
    import time
    gc, ml = core.file_case('clk', '%s %s();\n' % (PRINT, CLOCK))
    r = env.run_impl([gc])['clk'][0]
    try:
        if abs(float(r['stdout'].decode()) - time.time()) > 30:
            mism.append({'case': {'id': 'clk', 'src': '%s %s();\n' % (PRINT, CLOCK)}, 'reason': 'clock is not the current Unix time: %r' % r['stdout']})
    except ValueError:
        mism.append({'case': {'id': 'clk', 'src': '%s %s();\n' % (PRINT, CLOCK)}, 'reason': 'clock output unreadable: %r' % r['stdout']})
    mism = [m for m in mism if not (m.get('case') and CLOCK + '(' in m['case']['src'].split('\n')[-2] and 'stdout differs' in m['reason'] and m['case']['src'].split('\n')[-2].endswith(CLOCK + '();'))]
    nontriv = set((ri[c['id']][0]['stdout'], ri[c['id']][0]['stderr'][:30]) for c in cases)
    return {'evaluations': len(cases) + 1, 'distinct_nontrivial': len(nontriv), 'mismatches': mism,
            'rule': '17 built-ins x 0-2 arguments x %d values of every kind (complete) and random 3-4 argument calls; abs/sqrt/round/sin/cos/tan on %d boundary doubles and random doubles, pow on boundary pairs and random pairs (also against **); min/max over all permutations of 7 lists in list and array form; clock against the harness clock; non-trivial = distinct (output, diagnostic)' % (len(VALS), len(bnd)),
            'samples': [cases[50]['src'].split('\n')[-2], cases[-1]['src']]}
