"""C16: a value behaves the same however it was produced.  Every one-hole context x every pair of producers of
the same string or the same number; the relation checked is between two runs of the IMPLEMENTATION (same
stdout, status, first diagnostic kind), with the model as a third voice."""
import core, lang, pools
from lang import *  # noqa
from props.common import sub_rng, diff_runs, replay_generic, corpus_cases

replay = replay_generic

PRE = pools.SETUP + ('%s idf(v) { %s v; }\n%s holder = {k: 0};\n' % (FUN, RETURN, VAR))


def str_producers(s):
    q = '"%s"' % s
    out = [('literal', q, None)]
    if len(s) >= 1:
        out.append(('concat', '("%s" + "%s")' % (s[:len(s) // 2], s[len(s) // 2:]), None))
    else:
        out.append(('concat', '("" + "")', None))
    out += [('property', '({k: %s}).k' % q, None), ('element', '[%s][0]' % q, None), ('funresult', 'idf(%s)' % q, None)]
    if s == s.strip() and '\n' not in s:
        out.append(('input', '%s()' % INPUT, s + '\n'))
    return out


def num_producers(x):
    out = [('literal', str(x), None), ('sum', '(%d + %d)' % (x - 1, 1), None), ('bitand', '(%d & %d)' % (x, x), None), ('bitor', '(%d | 0)' % x, None),
           ('round', '%s(%d.2)' % (ROUND, x), None), ('abs', '%s(0 - %d)' % (ABS, x), None), ('element', '[%d][0]' % x, None), ('property', '({k: %d}).k' % x, None),
           ('funresult', 'idf(%d)' % x, None), ('shift', '(%d << 0)' % x, None), ('product', '(%d * 1)' % x, None)]
    if x == 0:
        out += [('shiftout', '(1 << 64)', None), ('shiftout2', '(5 << 100)', None), ('shr', '(1 >> 70)', None), ('mod', '(4 % 2)', None)]
    if x >= 2 and x & (x - 1) == 0:
        k = x.bit_length() - 1
        out += [('shl', '(1 << %d)' % k, None), ('pow', '(2 ** %d)' % k, None), ('shl2', '(2 << %d)' % (k - 1), None), ('xor', '(%d ^ 0)' % x, None), ('shr', '(%d >> 0)' % x, None),
                ('powfn', '%s(2, %d)' % (POW, k), None), ('mul', '(%d * 2)' % (x // 2), None)]
    if x <= 12:
        out.append(('len', '%s([%s])' % (LEN, ', '.join(['0'] * x)), None))
    return out


CONTEXTS = ['%s @;' % PRINT, '%s [@];' % PRINT, '%s {k: @};' % PRINT, '%s "" + @;' % PRINT, '%s @ + "";' % PRINT, '%s 1 + @;' % PRINT, '%s @ + 1;' % PRINT,
            '%s (@) { %s "T"; } %s { %s "F"; }' % (IF, PRINT, ELSE, PRINT), '%s !(@);' % PRINT, '%s (@) || "r";' % PRINT, '%s (@) && "r";' % PRINT,
            '%s arr3[@];' % PRINT, 'arr3[@] = 5; %s arr3;' % PRINT, 'arr3[0] = @; %s arr3;' % PRINT, 'holder.k = @; %s holder;' % PRINT,
            '%s w = @; %s w;' % (VAR, PRINT), '%s idf(@);' % PRINT, '%s w3 = @; %s fn2(w3) == w3;' % (VAR, PRINT), '%s -(@);' % PRINT, '%s ~(@);' % PRINT,
            '%s w2 = @; %s c0 = 0; %s (w2 && c0 < 2) { c0 = c0 + 1; %s c0; }' % (VAR, VAR, WHILE, PRINT)]
CONTEXTS.append('%s n0 = 0; %s (%s c = @; n0 < 2; c = c + 1) { n0 = n0 + 1; %s c; }' % (VAR, FOR, VAR, PRINT))
CONTEXTS.append('%s c1 = @; %s n1 = 0; %s (n1 < 2) { n1 = n1 + 1; c1 = c1 + 1; %s c1; }' % (VAR, VAR, WHILE, PRINT))
CONTEXTS.append('%s c2 = @; c2 = c2 - 1; %s c2; c2 = c2 + 1; %s c2;' % (VAR, PRINT, PRINT))
for op in ['-', '*', '/', '%', '**', '<', '<=', '>', '>=', '==', '!=', '&', '|', '^', '<<', '>>']:
    CONTEXTS.append('%s (@) %s 2;' % (PRINT, op))
    CONTEXTS.append('%s 7 %s (@);' % (PRINT, op))
    CONTEXTS.append('%s (@) %s "2";' % (PRINT, op))
for nat in [LEN, APPEND, REMOVE, DELETE, KEYS, VALUES, ABS, SQRT, POW, SIN, COS, TAN, MIN, MAX, ROUND]:
    CONTEXTS.append('%s %s(@);' % (PRINT, nat))
    CONTEXTS.append('%s %s(arr3, @);' % (PRINT, nat))
    CONTEXTS.append('%s %s(@, 2);' % (PRINT, nat))
    CONTEXTS.append('%s %s(ob, @);' % (PRINT, nat))
CONTEXTS.append('%s %s(@);' % (PRINT, INPUT))


def run(env, tier, seed, broken=None):
    cases = corpus_cases('C16')
    groups = []
    n = 0
    strings = ['abc', '', '5', '১০', '1e3', 'k', 'ab', ' 5', 'অ', '0', '-2', 'true', '\ufeff42', '\ufeff', 'a\u0301']
    numbers = [3, 0, 1, 255, 1000000, 2 ** 40, 7, 12, 999999, 10 ** 7, 2 ** 53, 2 ** 60, 2 ** 62]    # the last three: beyond 2^53, where an integer representation and a binary64 one could part
    for s in strings:
        prods = str_producers(s)
        for ctx in CONTEXTS:
            ids = []
            for (pname, pexp, pin) in prods:
                # the same stdin layout for all members of a group: the producer's own line first, then a spare
                stdin = (pin or 'unused\n') + 'spare\n'
                src = PRE + ctx.replace('@', pexp) + '\n'
                if pin is None and INPUT + '(' in ctx:
                    stdin = 'unused\nspare\n'
                cid = 'c%d' % n; n += 1
                cases.append({'id': cid, 'src': src, 'stdin': stdin, 'producer': pname})
                ids.append(cid)
            groups.append(('str:' + s, ctx, ids))
    for x in numbers:
        prods = num_producers(x)
        for ctx in CONTEXTS:
            ids = []
            for (pname, pexp, pin) in prods:
                cid = 'c%d' % n; n += 1
                cases.append({'id': cid, 'src': PRE + ctx.replace('@', pexp) + '\n', 'stdin': 'unused\nspare\n', 'producer': pname})
                ids.append(cid)
            groups.append(('num:%d' % x, ctx, ids))
    big = '%s a = [%s];\n%s (%s i = 0; i < 99; i = i + 1) { a = %s(a, %s); }\n%s n = %s(a);\n%s n;\n%s "count: " + n;\n%s [1000000, 999999 + 1, n];\n%s n == 1000000;\n%s ("" + n) == ("" + 1000000);\n' % (
        VAR, ', '.join(['0'] * 10000), FOR, VAR, APPEND, ', '.join(['0'] * 10000), VAR, LEN, PRINT, PRINT, PRINT, PRINT, PRINT)
    cases.append({'id': 'million', 'src': big, 'stdin': '', 'producer': 'len', 'timeout_ms': 30000})
    mism, ri, rm = diff_runs(env, cases, timeout_ms=30000)
    byid = {c['id']: c for c in cases}
    nontriv = set()
    for what, ctx, ids in groups:
        sigs = {}
        for cid in ids:
            r = ri[cid][0]
            out = r['stdout']
            # an ইনপুট producer consumes one line more than the others: contexts that themselves read input see different lines
            items = core.parse_stderr(r['stderr'].decode('utf-8', 'replace'))[:1]
            kind = items[0].split(':', 2)[2] if items and items[0].count(':') >= 2 else ''
            sigs.setdefault((r['status'], out, kind), []).append(cid)
        nontriv.add((what, ctx, tuple(sorted(sigs))[0][:2]))
        if len(sigs) > 1:
            if INPUT + '(' in ctx and any(byid[c]['producer'] == 'input' for c in ids):
                # the context itself reads input: drop the input producer from the comparison
                sig2 = {}
                for k, v in sigs.items():
                    v2 = [c for c in v if byid[c]['producer'] != 'input']
                    if v2: sig2[k] = v2
                if len(sig2) <= 1:
                    continue
                sigs = sig2
            parts = ['%s -> status %s %r %s' % ([byid[c]['producer'] for c in v], k[0], k[1][-40:], k[2]) for k, v in sigs.items()]
            mism.append({'case': byid[list(sigs.values())[1][0]], 'reason': 'producers of %s behave differently in context %s: %s' % (what, ctx, ' | '.join(parts))})
    return {'evaluations': len(cases), 'distinct_nontrivial': len(nontriv), 'mismatches': mism,
            'rule': '%d one-hole contexts (print alone / in an array / as a property, concatenation operand, condition, logical operand, index, stored value, each operand position of each operator also against a string, each argument position of 16 built-ins) x 12 strings x 5-6 producers (literal, concatenation, property, element, function result, input) and 10 numbers x 11-12 producers (literal, sum, bitwise and/or, shift, product, round, abs, len, element, property, function result); equality of (status, stdout, first diagnostic kind) within each group on the implementation, and each run against the model; non-trivial = distinct (value, context, outcome)' % len(CONTEXTS),
            'samples': [cases[len(corpus_cases('C16')) + 7]['src'].split('\n')[-2]]}
