"""C18: meaning is invariant under layout, digit script, synonyms, renaming, parentheses, dead code.
Generated programs and the shipped examples x the six transformation families at random positions and in
random combination; original versus transformed run of the IMPLEMENTATION, compared modulo line numbers and
renamed names; each run also against the model."""
import glob, random, re
import core, lang, progs
from lang import *  # noqa
from props.common import sub_rng, diff_runs, replay_generic, corpus_cases

replay = replay_generic
KW_ALL = set(lang.KW.values()) | set(lang.NAT.values()) | {'input', 'nil'}
TOK_RX = re.compile(r'"[^"]*"|//[^\n]*|/\*.*?\*/|[0-9০-৯]+(?:\.[0-9০-৯]+)?|[\wঀ-৿]+|\*\*|<=|>=|==|!=|<<|>>|&&|\|\||\s+|.', re.S)


def tokenize(src):
    return TOK_RX.findall(src)


def is_space(t): return t.strip() == '' or t.startswith('//') or t.startswith('/*')
def is_number(t): return re.fullmatch(r'[0-9০-৯]+(?:\.[0-9০-৯]+)?', t) is not None
def is_word(t): return re.fullmatch(r'[\wঀ-৿]+', t) is not None and not is_number(t)


def t_layout(toks, rng):
    """blanks, tabs, comments between tokens; newlines except inside a ধরি declaration (statement-level only)"""
    out = []
    in_var = False
    for t in toks:
        if t == VAR: in_var = True
        if t == ';': in_var_end = True
        else: in_var_end = False
        if not is_space(t) and rng.random() < 0.25:
            ins = rng.choice([' ', '\t', '  ', ' /* c */ ', ' /* multi\nline */ ' if not in_var else ' ', ' // note\n' if not in_var else ' ', '\n' if not in_var else ' ', '\r\n' if not in_var else ' '])
            out.append(ins)
        out.append(t)
        if in_var_end: in_var = False
    return out


def t_oneline(toks, rng):
    """the whole program on ONE line (line comments dropped, every run of blanks a single space), or - the other extreme -
    one token per line outside declarations: what a name means may not depend on which reads share a line"""
    one = rng.random() < 0.7
    out = []
    in_var = False
    for t in toks:
        if t.startswith('//'):
            continue
        if t.strip() == '':
            out.append(' ' if one or in_var else '\n')
            continue
        if t == VAR: in_var = True
        out.append(t)
        if t == ';': in_var = False
    return out


def t_digits(toks, rng):
    out = []
    for t in toks:
        if is_number(t) and rng.random() < 0.7:
            t = ''.join((lang.BN_DIGITS[ord(c) - 48] if '0' <= c <= '9' else chr(48 + lang.BN_DIGITS.index(c)) if c in lang.BN_DIGITS else c) if rng.random() < 0.6 else c for c in t)
        out.append(t)
    return out


def t_synonyms(toks, rng):
    m = {'&&': AND_W, AND_W: '&&', '||': OR_W, OR_W: '||'}
    out = []
    for i, t in enumerate(toks):
        if t in m and rng.random() < 0.7:
            t2 = m[t]
            # a word operator needs blanks around it
            out.append(' ' + t2 + ' ')
        else:
            out.append(t)
    return out


def t_rename(toks, rng):
    names = {}
    pool = ['zeta', 'নতুন', 'q_1', 'আলফা', 'v9', 'ক', 'longer_identifier_name', 'ঝ_২']
    rng.shuffle(pool)
    pool += ['ধাপ1', 'ধাপ১', 'n2', 'n২']      # popped first: distinct names that differ only in the script of a digit
    user = []
    prev = None
    for t in toks:
        if is_word(t) and t not in KW_ALL and prev != '.' and t not in user:
            user.append(t)
        if not is_space(t): prev = t
    # property names (after '.' or before ':' in object literals) are not variables: keep them out
    keys = set()
    prev = None
    for i, t in enumerate(toks):
        if is_word(t):
            nxt = next((x for x in toks[i + 1:] if not is_space(x)), '')
            if prev == '.' or (nxt == ':' ):
                keys.add(t)
        if not is_space(t): prev = t
    user = [u for u in user if u not in keys]
    fresh = [p for p in pool if p not in user and p not in keys]
    for u in user:
        if fresh and rng.random() < 0.6:
            names[u] = fresh.pop()
    out = []
    prev = None
    for i, t in enumerate(toks):
        nxt = next((x for x in toks[i + 1:] if not is_space(x)), '')
        if t in names and prev != '.' and nxt != ':':
            out.append(names[t])
        else:
            out.append(t)
        if not is_space(t): prev = t
    return out, names


def t_parens(toks, rng):
    """wrap literal / identifier operands (not assignment targets, not callee/key positions) in redundant parentheses"""
    out = []
    sig = [t for t in toks if not is_space(t)]
    idx = -1
    for i, t in enumerate(toks):
        if is_space(t):
            out.append(t); continue
        idx += 1
        prev = sig[idx - 1] if idx > 0 else ''
        nxt = sig[idx + 1] if idx + 1 < len(sig) else ''
        ok = (is_number(t) or t.startswith('"') or (is_word(t) and t not in KW_ALL)) and nxt not in ('=', '(', ':', '[', '.') and prev not in ('.', VAR, FUN, ',') \
            and prev in ('+', '-', '*', '/', '<', '>', '==', '!=', '<=', '>=', '&&', '||', PRINT, RETURN, '%')
        if ok and rng.random() < 0.5:
            out.append('(' + t + ')')
        else:
            out.append(t)
    txt = ''.join(out)
    # an assignment used as an expression may be parenthesised too (for-increment, initializer value)
    import re as _re
    txt = _re.sub(r'; (\w+) = (\w+) \+ 1\) \{', lambda m: '; (%s = %s + 1)) {' % (m.group(1), m.group(2)) if rng.random() < 0.5 else m.group(0), txt)
    return tokenize(txt)


def t_dead(src, rng):
    adds = ['%s (%s) { %s "never"; nope(); }\n' % (IF, FALSE, PRINT), '%s neverCalled_%d() { %s "never"; %s 1 / 0; }\n' % (FUN, rng.randint(0, 99), PRINT, RETURN),
            '%s (%s) { %s; }\n' % (WHILE, FALSE, BREAK), '%s (1 > 2) { undefined_thing = 1; }\n' % IF]
    lines = src.split('\n')
    # only at top level positions: before a line that starts at column 0 with a statement keyword/identifier and depth 0
    depth = 0
    spots = []
    for i, l in enumerate(lines):
        if depth == 0 and l and not l.startswith((' ', '}', ELSE)):
            spots.append(i)
        depth += l.count('{') - l.count('}')
    if spots:
        i = rng.choice(spots)
        lines.insert(i, rng.choice(adds).rstrip('\n'))
    return '\n'.join(lines)


def normalize(out_bytes, err_text, names):
    """observables modulo line numbers and renamed names"""
    o = out_bytes.decode('utf-8', 'replace')
    items = core.parse_stderr(err_text)[:1]
    kind = ''
    if items:
        parts = items[0].split(':')
        kind = parts[0] + ':' + (parts[2] if len(parts) > 2 else '')
    return o, kind


def run(env, tier, seed, broken=None):
    rng = sub_rng(seed, 'C18')
    base = []
    for i in range(600 if tier == 'quick' else 15000):
        r = sub_rng(seed, 'C18p%d' % i)
        base.append((progs.random_program(r, r.randint(5, 14), 3, fault_rate=0.15), ''))
    for p in sorted(glob.glob('/repo/example/*.bn')):
        src = open(p, encoding='utf-8').read()
        src = '\n'.join(l for l in src.split('\n') if CLOCK not in l)
        base.append((src, '5\n7\nhello\n3\n4\n'))
    cases = corpus_cases('C18')
    pairs = []
    n = 0
    fams = ['layout', 'oneline', 'digits', 'synonyms', 'rename', 'parens', 'dead', 'combo']
    for bi, (src, stdin) in enumerate(base):
        cid0 = 'o%d' % bi
        cases.append({'id': cid0, 'src': src, 'stdin': stdin})
        for fam in (fams if bi % 3 == 0 or tier == 'thorough' else [rng.choice(fams)]):
            toks = tokenize(src)
            names = {}
            todo = [fam] if fam != 'combo' else rng.sample(fams[:7], rng.randint(2, 5))
            order = ['dead', 'rename', 'parens', 'digits', 'synonyms', 'layout', 'oneline']
            todo = sorted(todo, key=order.index)
            s2 = src
            for f in todo:
                toks = tokenize(s2)
                if f == 'layout': s2 = ''.join(t_layout(toks, rng))
                elif f == 'oneline': s2 = ''.join(t_oneline(toks, rng))
                elif f == 'digits': s2 = ''.join(t_digits(toks, rng))
                elif f == 'synonyms': s2 = ''.join(t_synonyms(toks, rng))
                elif f == 'rename':
                    tk, nm = t_rename(toks, rng); s2 = ''.join(tk); names.update(nm)
                elif f == 'parens': s2 = ''.join(t_parens(toks, rng))
                elif f == 'dead': s2 = t_dead(s2, rng)
            cid = 't%d' % n; n += 1
            cases.append({'id': cid, 'src': s2, 'stdin': stdin, 'family': '+'.join(todo)})
            pairs.append((cid0, cid, names, '+'.join(todo)))
    # explicit pairs for the parentheses family: every operand position, also of prefix operators
    pre = '%s x = 5; %s s = "5"; %s t = %s; %s a = [1, 2]; %s f(v) { %s v; }\n' % (VAR, VAR, VAR, TRUE, VAR, FUN, RETURN)
    for o, tr in [('--s + 1', '-(-s) + 1'), ('--t', '-(-t)'), ('-~s', '-(~s)'), ('~-x', '~(-x)'), ('!-x', '!(-x)'), ('--x', '-(-(x))'), ('2 ** -~x', '2 ** (-(~x))'),
                  ('--s == 5', '(-(-s)) == 5'), ('x = x + 1', '(x = (x + 1))'), ('a[0] = x', 'a[(0)] = (x)'), ('f(x)', 'f((x))'), ('a[1]', '(a)[(1)]'), ('f(x) + a[0]', '(f(x)) + (a[0])'),
                  ('!t || x', '(!(t)) || (x)'), ('--nil', '-(-nil)'.replace('nil', NIL)), ('-!-x', '-(!(-x))'), ('~~s', '~(~s)'), ('- -s', '-(-(s))')]:
        c1 = {'id': 'po%d' % n, 'src': pre + '%s %s;\n%s x;\n' % (PRINT, o, PRINT)}
        c2 = {'id': 'pt%d' % n, 'src': pre + '%s %s;\n%s x;\n' % (PRINT, tr, PRINT), 'family': 'parens-explicit'}
        n += 1
        cases += [c1, c2]
        pairs.append((c1['id'], c2['id'], {}, 'parens-explicit'))
    # explicit pairs for the layout family: scope histories (declare / assign / read over two colliding names, blocks, for
    # headers, functions - the generator of C03) in which a name is read, declared and read again, written one statement
    # per line and all on one line
    from props import C03 as _c03
    import random as _random
    for h in _c03.histories(5, _random.Random(seed * 7919 + 18), 0.2):
        evs = [e for e in h if e[0] in 'RD' or e.startswith('for')]
        if sum(1 for e in evs if e[0] == 'R') >= 2 and any(e[0] != 'R' for e in evs[1:-1]):
            src = _c03.render(h)
            c1 = {'id': 'lo%d' % n, 'src': src}
            c2 = {'id': 'lt%d' % n, 'src': ' '.join(src.split('\n')) + '\n', 'family': 'layout-explicit'}
            n += 1
            cases += [c1, c2]
            pairs.append((c1['id'], c2['id'], {}, 'layout-explicit'))
    mism, ri, rm = diff_runs(env, cases)
    byid = {c['id']: c for c in cases}
    nontriv = set()
    for a, b, names, fam in pairs:
        ra, rb = ri[a][0], ri[b][0]
        oa, ka = normalize(ra['stdout'], ra['stderr'].decode('utf-8', 'replace'), {})
        ob, kb = normalize(rb['stdout'], rb['stderr'].decode('utf-8', 'replace'), names)
        # renamed function names appear in printed function values: map them back
        for old, new in names.items():
            ob = ob.replace('<function %s>' % new, '<function %s>' % old)
        nontriv.add((fam, oa[:50]))
        if (ra['status'], oa, ka) != (rb['status'], ob, kb):
            mism.append({'case': byid[b], 'reason': 'transformation %s changed the behaviour: original status %s %r %s | transformed status %s %r %s' % (fam, ra['status'], oa[-60:], ka, rb['status'], ob[-60:], kb),
                         'original': byid[a]['src']})
    return {'evaluations': len(cases), 'distinct_nontrivial': len(nontriv), 'mismatches': mism,
            'rule': '%d generated programs (15%% with a planted fault) and the shipped examples x {blank/tab/comment/newline insertion (none inside a declaration), the whole program on one line / one token per line, digit-script swaps, && / এবং and || / বা exchange, consistent renaming of user identifiers to Latin or Bangla names, redundant parentheses around operands, never-executed code} singly and in random combination; original vs transformed run of the implementation modulo line numbers and renamed function names; non-trivial = distinct (family, output head)' % (len(base) - 8),
            'samples': [cases[len(corpus_cases('C18')) + 1]['src'][:200]]}
