"""C05: branches and loops.  Every skeleton nesting if / else / while / for / block to depth 3 (4) with
break, continue or a plain statement innermost, trace points before/inside/after every construct; random
larger programs.  Compared on the complete printed trace."""
import core, lang, progs, skel
from lang import *  # noqa
from props.common import sub_rng, diff_runs, replay_generic, corpus_cases

replay = replay_generic


def run(env, tier, seed, broken=None):
    rng = sub_rng(seed, 'C05')
    cases = corpus_cases('C05')
    n = 0
    depth = 3 if tier == 'quick' else 4
    leaves = [BREAK + ';', CONTINUE + ';', '%s "leaf";' % PRINT]
    for ch in skel.chains(depth):
        for leaf in leaves:
            for when in ((2,) if tier == 'quick' and len(ch) == 3 else (1, 2, 3)):
                cases.append({'id': 's%d' % n, 'src': skel.nest(ch, leaf, when=when)}); n += 1
    # stray signals at top level and inside functions; condition kinds; default for-condition
    extra = [BREAK + ';\n', '%s 1;\n%s;\n%s 2;\n' % (PRINT, CONTINUE, PRINT), '%s 1;\n\n%s 5;\n' % (PRINT, RETURN),
             '%s (%s) { %s; }\n' % (IF, TRUE, BREAK), '{ { %s; } }\n%s 1;\n' % (CONTINUE, PRINT),
             '%s f() { %s; %s 9; }\n%s f();\n%s 2;\n' % (FUN, BREAK, PRINT, PRINT, PRINT),
             '%s (%s i = 0;; i = i + 1) { %s (i == 3) { %s; } %s i; }\n' % (FOR, VAR, IF, BREAK, PRINT),
             '%s i = 0;\n%s (;;) { i = i + 1; %s (i > 2) { %s; } %s (i == 1) { %s; } %s i; }\n%s i;\n' % (VAR, FOR, IF, BREAK, IF, CONTINUE, PRINT, PRINT),
             '%s (%s i = 0; i < 3; i = i + 1) %s i;\n' % (FOR, VAR, PRINT), '%s i = 0;\n%s (i < 3) i = i + 1;\n%s i;\n' % (VAR, WHILE, PRINT)]
    extra += [
        '%s i;\n%s (i = 0; i < 5; i = i + 1) { %s (i == 2) { %s; } %s i; }\n%s "after"; %s i;\n' % (VAR, FOR, IF, BREAK, PRINT, PRINT, PRINT),
        '%s n = 0;\n%s (%s i = 0; i < 5; n = n + 1) { i = i + 1; %s (i == 3) { %s; } %s (i == 1) { %s; } %s i; }\n%s n;\n' % (VAR, FOR, VAR, IF, BREAK, IF, CONTINUE, PRINT, PRINT),
        '%s n = 0;\n%s (n < 6) { n = n + 1; %s (%s j = 0; j < 3; n = n + 1) { j = j + 1; %s (j == 2) { %s; } } %s n; }\n' % (VAR, WHILE, FOR, VAR, IF, BREAK, PRINT),
        '%s t(x) { %s x; %s x; }\n%s (%s i = t(0); t(i) < 2; i = t(i + 1)) { %s "body"; }\n' % (FUN, PRINT, RETURN, FOR, VAR, PRINT),
    ]
    extra += [
        '%s n = 3;\n%s (; n = n - 1; ) { %s n; }\n%s n;\n' % (VAR, FOR, PRINT, PRINT),
        '%s c = 0;\n%s t() { c = c + 1; %s "test"; %s c < 3; }\n%s (; t(); ) { %s "body"; }\n%s c;\n' % (VAR, FUN, PRINT, RETURN, FOR, PRINT, PRINT),
        '%s c = 0;\n%s t() { c = c + 1; %s c < 3; }\n%s (; t(); c = c + 10) { %s c; }\n%s (t()) { %s c; }\n%s c;\n' % (VAR, FUN, RETURN, FOR, PRINT, WHILE, PRINT, PRINT),
        '%s (; %s("more? ") == "y"; ) { %s "again"; }\n' % (FOR, INPUT, PRINT),
    ]
    for v in ['0', '1', '""', '"a"', NIL, TRUE, FALSE, '[]', '{}', '0.0', '2 ** 1024 - 2 ** 1024', '-0', LEN]:
        extra.append('%s (%s) { %s "T"; } %s { %s "F"; }\n%s c = 0;\n%s (%s) { c = c + 1; %s (c > 1) { %s; } %s c; }\n' % (IF, v, PRINT, ELSE, PRINT, VAR, WHILE, v, IF, BREAK, PRINT))
    # loops whose condition is constantly true (or omitted) and whose only way out sits in a particular arm: then, else,
    # else-if, a nested if, behind a continue; in every one of: top level, block, function body, enclosing loop; code
    # follows the loop and must run.  Also literal-only conditions (a "constant folder" must agree with evaluation).
    exits = ['%s (c > 2) { %s; }' % (IF, BREAK), '%s (c <= 2) { %s "in"; } %s { %s; }' % (IF, PRINT, ELSE, BREAK),
             '%s (c == 1) { %s "one"; } %s %s (c == 2) { %s "two"; } %s { %s; }' % (IF, PRINT, ELSE, IF, PRINT, ELSE, BREAK),
             '%s (c > 0) { %s (c > 2) { %s; } }' % (IF, IF, BREAK), '%s (c < 3) { %s; } %s;' % (IF, CONTINUE, BREAK),
             '{ { %s (c <= 2) { } %s { %s; } } }' % (IF, ELSE, BREAK)]
    heads = ['%s (%s)' % (WHILE, TRUE), '%s (1)' % WHILE, '%s ("x")' % WHILE, '%s (;;)' % FOR, '%s (; %s; )' % (FOR, TRUE), '%s (!%s)' % (WHILE, FALSE), '%s (1 < 2)' % WHILE]
    for h in heads:
        for x in exits:
            loop = '%s c = 0;\n%s { c = c + 1; %s %s c; }\n%s "after loop";\n' % (VAR, h, x, PRINT, PRINT)
            extra += [loop + '%s c;\n' % PRINT, '{\n' + loop + '}\n%s "end";\n' % PRINT,
                      '%s f() {\n%s%s "f done"; %s c;\n}\n%s f();\n%s f();\n' % (FUN, loop, PRINT, RETURN, PRINT, PRINT),
                      '%s (%s k = 0; k < 2; k = k + 1) {\n%s}\n%s "end";\n' % (FOR, VAR, loop, PRINT)]
    for cnd in ['1 == "1"', '"10" != "10.0"', '"a" == "a"', '0 == "0"', '"" == 0', '%s == 0' % NIL, '1 == 1.0', '"1" == "১"', '2 > 1 == %s' % TRUE, '!0', '!"0"', '-0', '0 * -1 == 0', '"x" < "y"', '1 < "2"', '[] == []', '[1] == [1]']:
        extra.append('%s %s;\n%s (%s) { %s "then"; } %s { %s "else"; }\n%s n = 0;\n%s (%s) { n = n + 1; %s (n > 2) { %s; } }\n%s n;\n%s (; %s; ) { %s "for"; %s; }\n' % (
            PRINT, cnd, IF, cnd, PRINT, ELSE, PRINT, VAR, WHILE, cnd, IF, BREAK, PRINT, FOR, cnd, PRINT, BREAK))
    # the condition is evaluated afresh before EVERY iteration: its operands change during the loop through a function called
    # from the body, from the increment or from the condition itself, through an array that grows, through a property
    for cmpop, start, step in [('<', 0, 1), ('<=', 0, 1), ('>', 9, -1), ('>=', 9, -1), ('!=', 0, 1)]:
        lim = 5 if step > 0 else 4
        chg = '-' if step > 0 else '+'
        guard = '%s (i > 25 %s i < -25) { %s; }' % (IF, OR_W, BREAK)   # a loop that would not end is left from the body
        head = '%s lim = %d;\n%s shrink() { lim = lim %s 1; %s lim; }\n%s box = {lim: %d};\n%s arr = [1, 2, 3];\n%s grow() { arr = %s(arr, 0); }\n' % (
            VAR, lim, FUN, chg, RETURN, VAR, lim, VAR, FUN, APPEND)
        for bound, touch in [('lim', 'shrink();'), ('lim %s 0' % chg, 'shrink();'), ('box.lim', 'box.lim = box.lim %s 1;' % chg), ('lim', '%s (i == %d) { shrink(); shrink(); }' % (IF, start + 2 * step)),
                             ('shrink() %s 1' % ('+' if step > 0 else '-'), ''), ('lim * 1', 'lim = lim %s 1;' % chg)]:
            cond = 'i %s %s' % (cmpop, bound)
            extra += [head + '%s (%s i = %d; %s; i = i + %d) { %s i; %s %s }\n%s [lim, box.lim];\n' % (FOR, VAR, start, cond, step, PRINT, touch, guard, PRINT),
                      head + '%s i = %d;\n%s (%s) { %s i; i = i + %d; %s %s }\n%s [i, lim, box.lim];\n' % (VAR, start, WHILE, cond, PRINT, step, touch, guard, PRINT),
                      head + '%s (%s i = %d; %s; i = i + %d + 0 * shrink()) { %s i; %s }\n%s lim;\n' % (FOR, VAR, start, cond, step, PRINT, guard, PRINT)]
        if step > 0:
            extra += [head + '%s (%s i = 0; i %s %s(arr) %s i < 8; i = i + 1) { %s i; %s (i < 2) { grow(); } }\n%s %s(arr);\n' % (FOR, VAR, cmpop, LEN, AND_W, PRINT, IF, PRINT, LEN),
                      head + '%s i = 0;\n%s (i %s %s(arr) - 2) { i = i + 1; arr = %s(arr, 0); %s i; }\n%s %s(arr);\n' % (VAR, WHILE, cmpop, LEN, REMOVE, PRINT, PRINT, LEN)]
    for e in extra:
        cases.append({'id': 's%d' % n, 'src': e}); n += 1
    for i in range(1500 if tier == 'quick' else 40000):
        cases.append({'id': 'r%d' % i, 'src': progs.random_program(sub_rng(seed, 'C05r%d' % i), 10, 3, fault_rate=0.02)})
    mism, ri, rm = diff_runs(env, cases, need_oracle=True)
    nontriv = set(ri[c['id']][0]['stdout'] for c in cases)
    # long-running loops are outside the model's step budget: the property's own predicate on the implementation
    longs = [('%s i = 0;\n%s (i < 1000003) { i = i + 1; }\n%s i;\n' % (VAR, WHILE, PRINT), b'1.000003e+06\n'),
             ('%s s = 0;\n%s (%s i = 0; i < 1000002; i = i + 1) { s = s + 1; }\n%s s;\n' % (VAR, FOR, VAR, PRINT), b'1.000002e+06\n'),
             ('%s s = 0;\n%s (%s i = 0; i < 1200; i = i + 1) { %s (%s j = 0; j < 1200; j = j + 1) { s = s + 1; } }\n%s s;\n' % (VAR, FOR, VAR, FOR, VAR, PRINT), b'1.44e+06\n')]
    gl = [core.file_case('long%d' % i, src, '', timeout_ms=20000)[0] for i, (src, want) in enumerate(longs)]
    rl = env.run_impl(gl, timeout_ms=20000)
    for i, (src, want) in enumerate(longs):
        r = rl['long%d' % i][0]
        if r['status'] != 0 or r['stdout'] != want:
            mism.append({'case': {'id': 'long%d' % i, 'src': src}, 'reason': 'a loop of more than a million iterations did not run to its end: status %s stdout %r stderr %r' % (r['status'], r['stdout'][:40], r['stderr'][:80])})
    # the property's stray-signal clause directly on the implementation
    for c, kind in ((cases[len(corpus_cases('C05')) + n - len(extra)], 'RStrayBreak'),):
        pass
    return {'evaluations': len(cases), 'distinct_nontrivial': len(nontriv), 'mismatches': mism,
            'rule': 'all chains of <= %d constructs from {if, else, while, for, block} x leaf in {break, continue, print} x iteration in which the leaf runs; truthiness of 13 condition values in if and while; stray signals; random programs; non-trivial = distinct complete traces' % depth,
            'samples': [cases[40]['src'][:300], cases[-1]['src'][:200]]}
