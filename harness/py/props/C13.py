"""C13: execution is deterministic.  Generated programs and the shipped examples, each run several times in
fresh processes (the Go runtime randomises map iteration per process and per iteration); stdout, status and
first diagnostic must be byte-identical; 8-key object literals with effectful initialisers and listings of
8-key objects make an order dependence visible in 7 of 8 runs."""
import glob
import core, lang, progs
from lang import *  # noqa
from props.common import sub_rng, diff_runs, replay_generic, corpus_cases

replay = replay_generic


def run(env, tier, seed, broken=None):
    rng = sub_rng(seed, 'C13')
    reps = 5 if tier == 'quick' else 25
    cases = [dict(c, repeat=reps) for c in corpus_cases('C13')]
    n = 0
    keys8 = ['a', 'b', 'c', 'd', 'e', 'f', 'g', 'h']
    for i in range(40 if tier == 'quick' else 400):
        ks = keys8[:]
        rng.shuffle(ks)
        src = '%s p(x) { %s x; %s x; }\n%s o = {%s};\n%s o;\n%s %s(o);\n%s %s(o);\n%s(o, "%s");\no.%s = p(99);\n%s %s(o);\n%s %s(o);\n' % (
            FUN, PRINT, RETURN, VAR, ', '.join('%s: p(%d)' % (k, j) for j, k in enumerate(ks)), PRINT, PRINT, KEYS, PRINT, VALUES, DELETE, ks[0], rng.choice(['z', 'y', 'a0']), PRINT, KEYS, PRINT, VALUES)
        if i % 3 == 0:
            src += '%s q = {%s};\n' % (VAR, ', '.join('%s: p(1 / %d)' % (k, 0 if j in (2, 5) else 1) for j, k in enumerate(ks)))
        cases.append({'id': 'o%d' % n, 'src': src, 'repeat': reps}); n += 1
    ya1, ya2 = 'আ\u09df', 'আ\u09af\u09bc'      # the same letters spelt with U+09DF and with U+09AF U+09BC: distinct keys, equal under NFC
    for i in range(6 if tier == 'quick' else 40):
        src = '%s o = {%s: 1, %s: 2, k: 3};\n' % (VAR, ya1, ya2) + ''.join('%s %s(o);\n%s %s(o);\n' % (PRINT, VALUES, PRINT, KEYS) for _ in range(6)) + '%s o;\n' % PRINT
        cases.append({'id': 'k%d' % n, 'src': src, 'repeat': reps * 2}); n += 1
        src = '%s mk(o) { %s o; }\n%s "s";\n%s mk({nam: "b", ver: 1, lang: "bn", yr: 2024, e: 5, f: 6, g: 7, h: 8}).author;\n' % (FUN, RETURN, PRINT, PRINT)
        cases.append({'id': 'k%d' % n, 'src': src, 'repeat': reps * 2}); n += 1
        src = '%s {a: 1, b: 2, c: 3, d: 4, e: 5, f: 6, g: 7, h: 8}.zz;\n%s x = {a: 1, b: 2, c: 3, d: 4}.a.b;\n' % (PRINT, VAR)
        cases.append({'id': 'k%d' % n, 'src': src, 'repeat': reps * 2}); n += 1
    for i in range(6 if tier == 'quick' else 40):
        src = '%s p(x) { %s x; %s x; }\n%s o = {a: p(1), b: p(2), c: p(3), a: p(4), d: p(5), e: p(6), b: p(7), f: p(8), g: p(9), h: p(10)};\n%s o;\n' % (FUN, PRINT, RETURN, VAR, PRINT)
        cases.append({'id': 'k%d' % n, 'src': src, 'repeat': reps * 2}); n += 1
        src = '%s "s";\n%s o = {nam: "b", val: 1, lvl: 2, e: 3, f: 4, g: 5, h: 6};\no.self = o;\n%s o;\n' % (PRINT, VAR, PRINT)
        if i < 2:      # each such run grows a 1 GB stack: keep them few
            cases.append({'id': 'k%d' % n, 'src': src, 'repeat': 2, 'timeout_ms': 30000, 'cyclic': True}); n += 1
    for i in range(400 if tier == 'quick' else 6000):
        r = sub_rng(seed, 'C13r%d' % i)
        cases.append({'id': 'r%d' % n, 'src': progs.random_program(r, r.randint(6, 20), 3, fault_rate=0.1), 'repeat': reps}); n += 1
    for p in sorted(glob.glob('/repo/example/*.bn')):
        src = open(p, encoding='utf-8').read()
        if CLOCK in src:
            src = '\n'.join(l for l in src.split('\n') if CLOCK not in l)
        cases.append({'id': 'x%d' % n, 'src': src, 'stdin': '5\n7\nhello\n3\n4\n', 'repeat': reps}); n += 1
    mism, ri, rm = diff_runs(env, cases)
    nontriv = set()
    for c in cases:
        rs = ri[c['id']]
        # "the same first diagnostic": its full text (message and line), byte for byte
        # (when the host runtime itself dies - the recorded finding D14 - its banner carries addresses: first line only)
        # (a run still growing its stack towards that death when the time limit strikes counts as the same death)
        sig = set(('host-crash',) if (r['status'] == 2 or (r['timeout'] and c.get('cyclic'))) else (r['status'], r['stdout'], b'\n'.join(r['stderr'].split(b'\n')[:2])) for r in rs)
        nontriv.add(rs[0]['stdout'])
        if len(sig) != 1:
            a = list(sig)[:2]
            mism.append({'case': c, 'reason': 'two executions differ: %r vs %r' % (a[0][-2:], a[1][-2:])})
    return {'evaluations': sum(len(v) for v in ri.values()), 'distinct_nontrivial': len(nontriv), 'mismatches': mism, 'repetitions': reps,
            'rule': '8-key object literals with effectful initialisers + listings before and after delete/insert, random programs, the shipped examples (clock lines removed), each run %d times in fresh processes; compared byte for byte among themselves and with the model; non-trivial = distinct outputs' % reps,
            'samples': [cases[len(corpus_cases('C13')) + 1]['src'][:300]]}
