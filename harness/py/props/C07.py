"""C07: no program can make the interpreter terminate abnormally.  Every operator and built-in applied to every
combination of value kinds and boundary magnitudes; every index / property / call form on every value kind;
grammar-based random programs with bounded recursion; deep but bounded nesting.  Predicate on the binary alone:
status in {0, 65, 70} and no panic / fatal error / goroutine banner.  Unbounded recursion and printing a
self-containing value are dedicated probes (known findings)."""
import itertools
import core, lang, pools, progs
from lang import *  # noqa
from props.common import sub_rng, diff_runs, replay_generic, corpus_cases

replay = replay_generic


def run(env, tier, seed, broken=None):
    rng = sub_rng(seed, 'C07')
    cases = corpus_cases('C07')
    n = 0
    V = [e for e, k in pools.VALUES]
    # operators x kinds (a thinner matrix than C02's: one representative per kind plus boundary numbers)
    reps = ['0', '-1', '0.5', '63', '64', '2 ** 63', '-(2 ** 63)', '2 ** 64', '2 ** 1024', '2 ** 1024 - 2 ** 1024', '""', '"a"', '"5"', '"inf"', NIL, TRUE, '[]', 'arr', 'arr3', '{}', 'ob', 'fn1', LEN, SIN, COS, '"\u0661\u0662"', '"\u0967"', '"\uff11"', '"\u09df"', '1 << 62', '1e308'.replace('1e308', '10 ** 308')]
    for op in pools.BINOPS:
        for a in reps:
            for b in reps:
                cases.append({'id': 'm%d' % n, 'src': pools.SETUP + '%s (%s) %s (%s);\n' % (PRINT, a, op, b)}); n += 1
    # index / property / call forms on every value kind
    for a in reps:
        for form in ['(%s)[0]', '(%s)[-1]', '(%s)[0.5]', '(%s)["k"]', '(%s)[%s]' % ('%s', NIL), '(%s).k', '(%s).length', '(%s)()', '(%s)(1, 2)', '(%s)[0] = 1', '(%s).k = 1',
                     '(%s)[(%s)]' % ('%s', a), '(%s)[2 ** 63]', '(%s)[2 ** 1024]', '(%s)[2 ** 1024 - 2 ** 1024]', '-(%s)', '~(%s)', '!(%s)']:
            cases.append({'id': 'f%d' % n, 'src': pools.SETUP + '%s %s;\n' % (PRINT, form % a)}); n += 1
    # built-ins x kinds (0..3 args)
    small = ['1', '-1', '0.5', '"x"', '"3"', '[]', 'arr3', '{}', 'ob', 'fn1', NIL, TRUE, '2 ** 1024', '2 ** 63']
    for name in lang.NAT.values():
        for k in range(0, 3):
            for args in itertools.product(small, repeat=k):
                cases.append({'id': 'n%d' % n, 'src': pools.SETUP + '%s %s(%s);\n' % (PRINT, name, ', '.join(args)), 'stdin': 'x\n'}); n += 1
    # nesting: deep but bounded
    for d in (50, 500, 2000):
        cases.append({'id': 'd%d' % n, 'src': '%s %s1%s;\n' % (PRINT, '(' * d, ')' * d)}); n += 1
        cases.append({'id': 'd%d' % n, 'src': '%s %s[]%s;\n' % (PRINT, '[' * d, ']' * d)}); n += 1
        cases.append({'id': 'd%d' % n, 'src': '%s a = 0;\n' % VAR + '{ ' * d + 'a = a + 1; ' + '} ' * d + '\n%s a;\n' % PRINT}); n += 1
        cases.append({'id': 'd%d' % n, 'src': '%s f(d) { %s (d <= 0) { %s 0; } %s f(d - 1) + 1; }\n%s f(%d);\n' % (FUN, IF, RETURN, RETURN, PRINT, d)}); n += 1
        cases.append({'id': 'd%d' % n, 'src': '%s a = [];\n' % VAR + ''.join('a = [a];\n' for _ in range(min(d, 500))) + '%s a;\n' % PRINT}); n += 1
    # string contents that reach a string-to-number coercion (arithmetic, comparison, index, a math built-in): every character of
    # the Bengali block and of the other digit / number-like ranges, alone and next to digits of both scripts
    sweep = list(range(0x0980, 0x0A00)) + list(range(0x0660, 0x066A)) + list(range(0x0966, 0x0970)) + list(range(0xFF10, 0xFF1A)) + \
        [0x00B2, 0x00BD, 0x2460, 0x2170, 0x3007, 0x1D7CE, 0x0BE6, 0x0E50, 0x2080, 0x0030, 0x002B, 0x002E, 0x0065, 0x005F, 0x00A0, 0x200D, 0xFEFF]
    for k, cp in enumerate(sweep):
        c = chr(cp)
        forms = ['"%s" * 2' % c, '"\u09e7%s" - 0' % c, '"%s5" < 3' % c, '[10, 20, 30]["%s"]' % c, '%s("1%s")' % (ABS, c), '-"%s\u09e8"' % c, '"2" ** "%s"' % c]
        for j, fm in enumerate(forms):
            if tier == 'thorough' or j == k % len(forms) or j == (k + 3) % len(forms):
                cases.append({'id': 'u%d' % n, 'src': '%s "s";\n%s %s;\n%s "e";\n' % (PRINT, PRINT, fm, PRINT)}); n += 1
    for i in range(2500 if tier == 'quick' else 100000):
        r = sub_rng(seed, 'C07r%d' % i)
        cases.append({'id': 'r%d' % n, 'src': progs.random_program(r, r.randint(4, 18), 3, fault_rate=0.5, use_input=True), 'stdin': r.choice(['a\n5\n', '\n\nx\n', ' \n\n', '\r\n\n', '7'])}); n += 1
    mism, ri, rm = diff_runs(env, cases, fuel=400000)
    # dedicated probes: known findings live here and only here
    probes = [
        {'id': 'probe-unbounded-recursion', 'src': '%s f(n) { %s f(n + 1); }\n%s f(0);\n' % (FUN, RETURN, PRINT), 'timeout_ms': 20000},
        {'id': 'probe-cyclic-array-print', 'src': '%s a = [1, 2];\na[0] = a;\n%s a;\n' % (VAR, PRINT), 'timeout_ms': 20000},
        {'id': 'probe-cyclic-object-print', 'src': '%s o = {k: 1};\no.k = o;\n%s o;\n' % (VAR, PRINT), 'timeout_ms': 20000},
        {'id': 'probe-cyclic-echo-in-concat', 'src': '%s a = [1];\na[0] = a;\n%s "x" + 1;\n%s a == a;\n' % (VAR, PRINT, PRINT)},
    ]
    # long but legal executions (beyond what the model runs within its budget: implementation-only, the expected output is
    # computed here): millions of iterations with continue / break / calls in while and for loops must not exhaust anything
    longs = [
        ('long-while-continue', '%s i = 0; %s s = 0;\n%s (i < 1500000) { i = i + 1; %s (i %% 2 == 0) { %s; } s = s + 1; }\n%s s;\n' % (VAR, VAR, WHILE, IF, CONTINUE, PRINT), '750000\n'),
        ('long-for-continue', '%s s = 0;\n%s (%s i = 0; i < 1500000; i = i + 1) { %s (i %% 3 == 0) { %s; } s = s + 1; }\n%s s;\n' % (VAR, FOR, VAR, IF, CONTINUE, PRINT), '1e+06\n'),
        ('long-calls-in-loop', '%s f(x) { %s (x %% 2 == 0) { %s 1; } %s 0; }\n%s s = 0; %s i = 0;\n%s (i < 600000) { i = i + 1; s = s + f(i); }\n%s s;\n' % (FUN, IF, RETURN, RETURN, VAR, VAR, WHILE, PRINT), '300000\n'),
        ('long-nested-break', '%s s = 0;\n%s (%s i = 0; i < 3000; i = i + 1) { %s j = 0; %s (%s) { j = j + 1; %s (j > 300) { %s; } %s (j %% 2 == 1) { %s; } s = s + 1; } }\n%s s;\n' % (VAR, FOR, VAR, VAR, WHILE, TRUE, IF, BREAK, IF, CONTINUE, PRINT), '450000\n'),
    ]
    for pid_, src_, want_ in longs:
        probes.append({'id': 'probe-' + pid_, 'src': src_, 'timeout_ms': 120000, 'want': want_})
    gcs = [core.file_case(p['id'], p['src'], '', timeout_ms=p.get('timeout_ms', 0))[0] for p in probes]
    rp = env.run_impl(gcs, timeout_ms=20000)
    for p in probes:
        if 'want' in p and not rp[p['id']][0]['timeout'] and rp[p['id']][0]['status'] == 0 and rp[p['id']][0]['stdout'].decode() != p['want']:
            mism.append({'case': p, 'reason': 'a long loop computed %r, expected %r' % (rp[p['id']][0]['stdout'][:40], p['want'])})
    nontriv = set()
    allres = [(c, ri[c['id']][0]) for c in cases] + [(p, rp[p['id']][0]) for p in probes]
    for c, r in allres:
        nontriv.add((r['status'], r['stderr'][:25]))
        bad = None
        mres = rm.get(c['id']) if isinstance(c, dict) else None
        if r['timeout'] and mres and mres[0] in ('noresult:timeout', 'noresult:memory', 'noresult:stack', 'noresult:fuel'):
            # neither the implementation nor the model finishes within its allowance (a generated program whose data grows
            # exponentially): no verdict
            core.INCONCLUSIVE.append('both:' + mres[0])
        elif r['timeout'] and r.get('truncated') and mres and not mres[0].startswith('noresult') and len(core.model_stdout(mres[1] if len(mres) > 1 else '')) >= len(r['stdout']):
            pass      # stopped by the 1 MB output cap on a program whose (terminating) model run prints at least as much
        elif r['timeout']:
            bad = 'did not terminate within the time limit'
        elif r['status'] not in (0, 65, 70) or core.PANIC_RX.search(r['stderr']):
            bad = 'abnormal termination: status %s, stderr head %r' % (r['status'], r['stderr'][:120])
        if bad and not any(m.get('case') is c and 'abnormal' in m.get('reason', '') for m in mism):
            # replace a plain correspondence mismatch on the same case by the sharper predicate
            mism = [m for m in mism if m.get('case') is not c]
            mism.append({'case': c, 'reason': bad})
    return {'evaluations': len(cases) + len(probes), 'distinct_nontrivial': len(nontriv), 'mismatches': mism,
            'rule': '21 binary operators x 25 x 25 representative values; 18 index/property/call/unary forms x 25 values; 17 built-ins x 0-2 arguments x 14 values; nesting depth 50/500/2000 (groups, array literals, blocks, recursion, nested arrays); random programs, half with a planted fault, using input; 4 dedicated probes (unbounded recursion, cyclic print); predicate: status in {0,65,70}, no panic banner, termination; non-trivial = distinct (status, stderr head)',
            'samples': [cases[len(corpus_cases('C07')) + 11]['src'].split('\n')[-2], cases[-1]['src'][:150]]}
