"""C04: calls bind by position, return exactly, closures own captured state.  Return planted at every depth
of every chain of if / else / while / for / block inside a function body; counter factories in every
interleaving of calls; recursion (direct, mutual), functions in variables / arrays / objects; arity and
callability errors; random programs."""
import itertools, zlib
import core, lang, progs, skel
from lang import *  # noqa
from props.common import sub_rng, diff_runs, replay_generic, corpus_cases

replay = replay_generic


def run(env, tier, seed, broken=None):
    cases = corpus_cases('C04')
    n = 0
    depth = 3 if tier == 'quick' else 4
    for ch in skel.chains(depth):
        for when in ((2,) if tier == 'quick' and len(ch) == 3 else (1, 2, 3)):
            cases.append({'id': 's%d' % n, 'src': skel.nest(ch, '%s "ret" + %d;' % (RETURN, when), fn=True, when=when)}); n += 1
    # own predicate material: for the skeletons the call must print ret<when> and nothing of the body after the return
    skeleton_ids = [c['id'] for c in cases if c['id'].startswith('s')]
    factory = ('%s mk(start) {\n  %s c = start;\n  %s inc() { c = c + 1; %s c; }\n  %s get() { %s c; }\n  %s [inc, get];\n}\n'
               % (FUN, VAR, FUN, RETURN, FUN, RETURN, RETURN))
    L = 4 if tier == 'quick' else 6
    for k in range(1, L + 1):
        for seq in itertools.product(['a0', 'a1', 'b0', 'b1', 'c0'], repeat=k):
            if k >= 4 and ((zlib.crc32(repr((seed, seq)).encode())) % (5 if tier == 'quick' else 2)):
                continue
            body = factory + '%s a = mk(0);\n%s b = mk(100);\n%s c = mk(-5);\n' % (VAR, VAR, VAR)
            body += ''.join('%s %s[%s]();\n' % (PRINT, s[0], s[1]) for s in seq)
            cases.append({'id': 'f%d' % n, 'src': body}); n += 1
    extra = [
        '%s fact(n) { %s (n <= 1) { %s 1; } %s n * fact(n - 1); }\n%s fact(10);\n%s fact(20);\n' % (FUN, IF, RETURN, RETURN, PRINT, PRINT),
        '%s ev(n) { %s (n == 0) { %s %s; } %s od(n - 1); }\n%s od(n) { %s (n == 0) { %s %s; } %s ev(n - 1); }\n%s ev(10);\n%s od(7);\n' % (FUN, IF, RETURN, TRUE, RETURN, FUN, IF, RETURN, FALSE, RETURN, PRINT, PRINT),
        '%s fib(n) { %s (n < 2) { %s n; } %s fib(n - 1) + fib(n - 2); }\n%s fib(15);\n' % (FUN, IF, RETURN, RETURN, PRINT),
        '%s f(a, b, c) { %s [a, b, c]; }\n%s f(1, 2, 3);\n%s f(3, 2, 1);\n%s f(1, 2);\n' % (FUN, PRINT, RETURN, PRINT, PRINT),
        '%s f(a) { %s a; }\n%s f(1, 2);\n' % (FUN, RETURN, PRINT), '%s f() { }\n%s f();\n%s f(1);\n' % (FUN, PRINT, PRINT),
        '%s x = 5;\n%s x();\n' % (VAR, PRINT), '%s "s"();\n' % PRINT, '%s %s();\n' % (PRINT, NIL), '%s [1](0);\n' % PRINT,
        '%s f(a) { a = a + 1; %s a; }\n%s x = 1;\n%s f(x);\n%s x;\n' % (FUN, RETURN, VAR, PRINT, PRINT),
        '%s f(a, a) { %s a; }\n%s f(1, 2);\n' % (FUN, RETURN, PRINT), '%s f(f) { %s f; }\n%s f(7);\n' % (FUN, RETURN, PRINT),
        '%s f() { %s g() { %s 1; } %s g; }\n%s f()();\n%s o = {m: f};\n%s o.m()();\n%s ar = [f, f()];\n%s ar[1]();\n' % (FUN, FUN, RETURN, RETURN, PRINT, VAR, PRINT, VAR, PRINT),
        '%s x = 1;\n%s f() { %s x; }\n%s f();\nx = 2;\n%s f();\n{ %s x = 3; %s f(); }\n' % (VAR, FUN, RETURN, PRINT, PRINT, VAR, PRINT),
        '%s outer() { %s loc = 1; %s inner() { loc = loc + 1; %s loc; } %s inner; }\n%s i1 = outer();\n%s i1();\n%s i1();\n%s i2 = outer();\n%s i2();\n%s i1();\n' % (FUN, VAR, FUN, RETURN, RETURN, VAR, PRINT, PRINT, VAR, PRINT, PRINT),
        '%s f(n) { %s (n > 0) { f(n - 1); } %s n; }\n%s f(3);\n' % (FUN, IF, PRINT, PRINT),
        '%s f() { %s; }\n%s f();\n' % (FUN, RETURN, PRINT), '%s f() { %s 1; %s 2; }\n%s f();\n' % (FUN, RETURN, RETURN, PRINT),
        '%s caller() { %s secret = 1; %s callee(); }\n%s callee() { %s secret; }\n%s caller();\n' % (FUN, VAR, RETURN, FUN, RETURN, PRINT),
        '%s f(d) { %s (d > 0) { %s f(d - 1); } %s "bottom"; }\n%s f(200);\n' % (FUN, IF, RETURN, RETURN, PRINT),
    ]
    extra += [
        '%s ticks = 0;\n%s tick() { ticks = ticks + 1; %s "tick"; %s ticks; }\n%s find(a) { %s (%s i = 0; i < 5; i = i + tick()) { %s (i == a) { %s i * 10; } } %s -1; }\n%s find(1);\n%s ticks;\n%s find(0);\n%s ticks;\n' % (VAR, FUN, PRINT, RETURN, FUN, FOR, VAR, IF, RETURN, RETURN, PRINT, PRINT, PRINT, PRINT),
        '%s fs = [0, 0, 0];\n%s (%s i = 0; i < 3; i = i + 1) { %s get() { %s i; } fs[i] = get; }\n%s fs[0]();\n%s fs[1]();\n%s fs[2]();\n' % (VAR, FOR, VAR, FUN, RETURN, PRINT, PRINT, PRINT),
        '%s mk() { %s (%s i = 0; i < 2; i = i + 1) { %s bump() { i = i + 10; %s i; } %s bump; } }\n%s b = mk();\n%s b();\n%s b();\n' % (FUN, FOR, VAR, FUN, RETURN, RETURN, VAR, PRINT, PRINT),
        '%s out = 0;\n%s f() { %s (%s j = 0; j < 3; out = out + 1) { j = j + 1; %s (j == 2) { %s j; } } }\n%s f();\n%s out;\n' % (VAR, FUN, FOR, VAR, IF, RETURN, PRINT, PRINT),
    ]
    extra += [
        '%s mk(x, mode) {\n  %s (mode == 0) %s 0;\n  %s %s (mode == 1) { %s g() { x = x + 1; %s x; } %s g; }\n  %s { %s h() { x = x + 100; %s x; } %s h; }\n}\n%s a = mk(0, 1);\n%s a();\n%s a();\n%s b = mk(100, 2);\n%s b();\n%s a();\n%s c = mk(500, 1);\n%s c();\n%s a();\n%s b();\n%s mk(7, 0);\n%s a();\n'
        % (FUN, IF, RETURN, ELSE, IF, FUN, RETURN, RETURN, ELSE, FUN, RETURN, RETURN, VAR, PRINT, PRINT, VAR, PRINT, PRINT, VAR, PRINT, PRINT, PRINT, PRINT, PRINT),
        '%s mk(x) { %s (x > 0) { %s (x > 1) { %s g() { %s x; } %s g; } } %s %s; }\n%s p = mk(5);\n%s q = mk(9);\n%s p();\n%s q();\n%s p();\n' % (FUN, WHILE, IF, FUN, RETURN, RETURN, RETURN, NIL, VAR, VAR, PRINT, PRINT, PRINT),
        '%s pick(a, pick, b) { %s pick; }\n%s pick(1, "two", 3);\n%s sel(sel) { %s sel + 1; }\n%s sel(41);\n' % (FUN, RETURN, PRINT, FUN, RETURN, PRINT),
        '%s acc(n) { %s tot = 0; %s add(k) { tot = tot + k; %s tot; } %s (n > 0) { %s add(n) + acc(n - 1); } %s add(0); }\n%s acc(4);\n%s acc(2);\n' % (FUN, VAR, FUN, RETURN, IF, RETURN, RETURN, PRINT, PRINT),
    ]
    # recursion re-entered through a later argument of the same call site, run twice (each activation owns its
    # argument list); tail calls to oneself with a wrong number of arguments (arity is checked on every call)
    extra += [
        '%s add(a, b) { %s a + b; }\n%s sum(n) { %s (n <= 0) { %s 0; } %s add(n, sum(n - 1)); }\n%s sum(4);\n%s sum(4);\n%s sum(6);\n' % (FUN, RETURN, FUN, IF, RETURN, RETURN, PRINT, PRINT, PRINT),
        '%s ack(m, n) { %s (m == 0) { %s n + 1; } %s (n == 0) { %s ack(m - 1, 1); } %s ack(m - 1, ack(m, n - 1)); }\n%s ack(2, 3);\n%s ack(2, 3);\n%s ack(1, 2);\n' % (FUN, IF, RETURN, IF, RETURN, RETURN, PRINT, PRINT, PRINT),
        '%s tri(a, b, c) { %s (a <= 0) { %s [a, b, c]; } %s tri(a - 1, tri(a - 1, b, c)[1] + 1, c + a); }\n%s tri(3, 0, 0);\n%s tri(3, 0, 0);\n' % (FUN, IF, RETURN, RETURN, PRINT, PRINT),
        '%s cnt(n, acc) { %s (n == 0) { %s acc; } %s cnt(n - 1, acc + n); }\n%s cnt(10, 0);\n%s bad(n, acc) { %s (n == 0) { %s acc; } %s bad(n - 1, acc + n, 99); }\n%s bad(0, 5);\n%s bad(2, 0);\n%s "unreached";\n' % (FUN, IF, RETURN, RETURN, PRINT, FUN, IF, RETURN, RETURN, PRINT, PRINT, PRINT),
        '%s few(n, acc) { %s (n == 0) { %s acc; } %s few(n - 1); }\n%s few(0, 1);\n%s few(3, 1);\n%s "unreached";\n' % (FUN, IF, RETURN, RETURN, PRINT, PRINT, PRINT),
        '%s lp(n) { %s (n > 0) { %s (n == 2) { %s lp(n - 1, 0); } n = n - 1; } %s "done"; }\n%s lp(1);\n%s lp(3);\n' % (FUN, WHILE, IF, RETURN, RETURN, PRINT, PRINT),
        '%s twice(f, x) { %s f(f(x)); }\n%s inc(x) { %s x + 1; }\n%s twice(inc, 1);\n%s twice(inc, twice(inc, 5));\n%s twice(inc, twice(inc, 5));\n' % (FUN, RETURN, FUN, RETURN, PRINT, PRINT, PRINT),
    ]
    # escaping closures: a variable of a scope B (block, function body, loop body, branch) is captured by a function declared
    # directly in B or one / two levels deeper (nested block, branch, loop body), the function leaves B through an outer
    # variable, an array or an object, B ends, LATER scopes of the same shape are opened (with variables of the same and of
    # other names) and the function is called inside and after them: it still owns B's variable and nothing else
    def wrap(kind, inner):
        if kind == 'direct': return inner
        if kind == 'block': return '{\n' + inner + '}\n'
        if kind == 'if': return '%s (%s) {\n%s}\n' % (IF, TRUE, inner)
        if kind == 'else': return '%s (%s) { } %s {\n%s}\n' % (IF, FALSE, ELSE, inner)
        if kind == 'while': return '%s once = 0;\n%s (once < 1) {\nonce = once + 1;\n%s}\n' % (VAR, WHILE, inner)
        if kind == 'for': return '%s (%s q = 0; q < 2; q = q + 1) {\n%s}\n' % (FOR, VAR, inner)
        if kind == 'block2': return '{\n{\n' + inner + '}\n}\n'
        if kind == 'forif': return '%s (%s q = 0; q < 2; q = q + 1) {\n%s (q == 1) {\n%s}\n}\n' % (FOR, VAR, IF, inner)
    def scopeB(kind, body):
        if kind == 'block': return '{\n' + body + '}\n'
        if kind == 'fn': return '%s scope() {\n%s}\nscope();\n' % (FUN, body)
        if kind == 'for': return '%s (%s z = 0; z < 1; z = z + 1) {\n%s}\n' % (FOR, VAR, body)
        if kind == 'if': return '%s (%s) {\n%s}\n' % (IF, TRUE, body)
    escapes = {'var': ('%s out1 = %s;\n%s out2 = %s;\n' % (VAR, NIL, VAR, NIL), 'out1 = bump;\nout2 = read;\n', 'out1', 'out2'),
               'arr': ('%s outs = [];\n' % VAR, 'outs = %s(outs, bump);\nouts = %s(outs, read);\n' % (APPEND, APPEND), 'outs[0]', 'outs[1]'),
               'obj': ('%s box = {};\n' % VAR, 'box.b = bump;\nbox.r = read;\n', 'box.b', 'box.r')}
    for bk in ('block', 'fn', 'for', 'if'):
        for wk in ('direct', 'block', 'if', 'else', 'while', 'for', 'block2', 'forif'):
            for ek, (pre, put, bump, read) in sorted(escapes.items()):
                if tier == 'quick' and (zlib.crc32(repr((seed, bk, wk, ek)).encode()) % 2) and wk in ('else', 'block2') :
                    continue
                inner = '%s bump() { count = count + 1; %s count + base; }\n%s read() { %s [count, base]; }\n%s' % (FUN, RETURN, FUN, RETURN, put)
                body = '%s base = 10;\n%s count = 0;\n%s' % (VAR, VAR, wrap(wk, inner))
                later = ''.join(scopeB(bk2, '%s base = %d;\n%s count = %d;\n%s other = 1;\n%s %s();\n%s [count, base];\n%s' % (VAR, 500 + j, VAR, 40 + j, VAR, PRINT, bump, PRINT, wrap(wk, '%s tmp = %d;\n%s tmp;\n' % (VAR, j, PRINT))))
                                for j, bk2 in enumerate((bk, 'block', bk)))
                extra.append(pre + scopeB(bk, body) + later + '%s %s();\n%s %s();\n' % (PRINT, bump, PRINT, read))
    for e in extra:
        cases.append({'id': 'e%d' % n, 'src': e}); n += 1
    for i in range(1000 if tier == 'quick' else 30000):
        cases.append({'id': 'r%d' % i, 'src': progs.random_program(sub_rng(seed, 'C04r%d' % i), 10, 3, fault_rate=0.03)})
    mism, ri, rm = diff_runs(env, cases)
    # own predicate: in every return skeleton the call's value is the returned one and "fell-off"/"L>" never print
    for c in cases:
        if c['id'] in skeleton_ids:
            o = ri[c['id']][0]['stdout'].decode('utf-8', 'replace')
            if 'fell-off' in o or 'L>' in o or 'after-call' not in o or 'ret' not in o:
                mism.append({'case': c, 'reason': 'return did not leave the function at once with its value: output tail %r' % o[-80:]})
    nontriv = set(ri[c['id']][0]['stdout'] for c in cases)
    return {'evaluations': len(cases), 'distinct_nontrivial': len(nontriv), 'mismatches': mism,
            'rule': 'return at the innermost point of every chain of <= %d constructs (x iteration); counter factory with three instances, every call sequence of length <= 3 over 5 closures and a sample up to %d; recursion, mutual recursion, functions as values, arity/callability errors; random programs; non-trivial = distinct traces' % (depth, L),
            'samples': [cases[30]['src'][:300], cases[-1]['src'][:200]]}
