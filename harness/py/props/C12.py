"""C12: objects are shared key->value maps with consistent read, write, delete, listing.  Operation
sequences over a small key pool with aliasing and nesting; object, key list and value list printed after every
step; compared with the Coq model and with a pure Python dict model; listings checked as consistent
(i-th value = value of i-th key, every property once) and stable over repetitions."""
import itertools
import core, lang
from lang import *  # noqa
from props.common import sub_rng, diff_runs, replay_generic, corpus_cases

replay = replay_generic
KEYS_ = ['k', 'v', 'ব\u09dfস', 'len']
OPS = [('lit', n) for n in range(0, 4)] + [('alias', None)] + [('read', k) for k in KEYS_] + [('write', k) for k in KEYS_] + [('del', k) for k in KEYS_] + \
      [('list', None), ('nest', None), ('readnon', None), ('delnum', None)]


def fmt_num(x):
    return str(int(x)) if float(x).is_integer() else repr(x)


def fmt(v):
    if isinstance(v, dict):
        return 'map[' + ' '.join('%s:%s' % (k, fmt(v[k])) for k in sorted(v, key=lambda s: s.encode('utf-8'))) + ']'
    if isinstance(v, list):
        return '[' + ' '.join(fmt(x) for x in v) + ']'
    if isinstance(v, str):
        return v
    return fmt_num(v)


def program(seq, via_fn=False):
    """via_fn: every read, write, delete and listing goes through one helper function per key, so that the SAME
    syntactic site is executed before and after the object changes (and on different objects)"""
    v = {'o': {'k': 1, 'v': 2}, 'p': None}
    v['p'] = v['o']
    out = []
    err = False
    lines = ['%s o = {k: 1, v: 2};' % VAR, '%s p = o;' % VAR, '%s q = {};' % VAR]
    if via_fn:
        for j, k in enumerate(KEYS_):
            lines += ['%s rd%d(x) { %s x.%s; }' % (FUN, j, RETURN, k), '%s wr%d(x, w) { x.%s = w; }' % (FUN, j, k)]
        lines += ['%s dl(x, key) { %s(x, key); }' % (FUN, DELETE), '%s ks(x) { %s %s(x); }' % (FUN, RETURN, KEYS), '%s vs(x) { %s %s(x); }' % (FUN, RETURN, VALUES)]
    v['q'] = {}
    for i, ((op, arg), tgt, other) in enumerate(seq):
        if err:
            break
        O = v[tgt]
        val = 10 * (i + 1)
        if op == 'lit':
            ks = KEYS_[:arg]
            v[tgt] = {k: val + j for j, k in enumerate(ks)}
            lines.append('%s = {%s};' % (tgt, ', '.join('%s: %d' % (k, val + j) for j, k in enumerate(ks))))
        elif op == 'alias':
            v[tgt] = v[other]; lines.append('%s = %s;' % (tgt, other))
        elif op == 'read':
            if arg in O: out.append(fmt(O[arg]))
            else: err = True
            lines.append('%s rd%d(%s);' % (PRINT, KEYS_.index(arg), tgt) if via_fn else '%s %s.%s;' % (PRINT, tgt, arg))
        elif op == 'write':
            O[arg] = val; lines.append('wr%d(%s, %d);' % (KEYS_.index(arg), tgt, val) if via_fn else '%s.%s = %d;' % (tgt, arg, val))
        elif op == 'del':
            if arg in O: del O[arg]
            else: err = True
            lines.append('dl(%s, "%s");' % (tgt, arg) if via_fn else '%s(%s, "%s");' % (DELETE, tgt, arg))
        elif op == 'list':
            ks = sorted(O, key=lambda s: s.encode('utf-8'))
            out.append(fmt(ks)); out.append(fmt([O[k] for k in ks]))
            lines.append('%s ks(%s);\n%s vs(%s);' % (PRINT, tgt, PRINT, tgt) if via_fn else '%s %s(%s);\n%s %s(%s);' % (PRINT, KEYS, tgt, PRINT, VALUES, tgt))
        elif op == 'nest':
            O['k'] = v[other] if v[other] is not O else val
            lines.append('%s.k = %s;' % (tgt, other if v[other] is not O else str(val)))
        elif op == 'readnon':
            err = True; lines.append('%s (5).%s;' % (PRINT, 'k'))
        elif op == 'delnum':
            err = True; lines.append('%s(%s, 5);' % (DELETE, tgt))
        if not err:
            # printing a cyclic structure would crash the host (known finding); avoid building one
            lines.append('%s [o, p, q];' % PRINT)
            out.append('[' + ' '.join(fmt(v[n]) for n in 'opq') + ']')
    return '\n'.join(lines) + '\n', out, err


def cyclic(seq):
    # conservative: a 'nest' makes tgt contain other; reject sequences where nests could close a cycle
    edges = set()
    for ((op, arg), tgt, other) in seq:
        if op == 'nest':
            edges.add((tgt, other))
        if op in ('alias', 'lit') and edges:
            return True
    return any((b, a) in edges for (a, b) in edges) or len(edges) > 1


def run(env, tier, seed, broken=None):
    rng = sub_rng(seed, 'C12')
    cases = corpus_cases('C12')
    expect = {}
    atoms = [(op, t, o) for op in OPS for (t, o) in (('o', 'q'), ('p', 'o'), ('q', 'p'))]
    seqs = [(a,) for a in atoms] + [s for s in itertools.product(atoms, repeat=2)]
    for _ in range(5000 if tier == 'quick' else 150000):
        seqs.append(tuple(rng.choice(atoms) for _ in range(rng.randint(3, 5 if tier == 'quick' else 7))))
    for _ in range(200 if tier == 'quick' else 5000):
        seqs.append(tuple(rng.choice(atoms) for _ in range(rng.randint(15, 40))))
    n = 0
    for s in seqs:
        if cyclic(s):
            continue
        src, out, err = program(s)
        cid = 'q%d' % n; n += 1
        cases.append({'id': cid, 'src': src, 'repeat': 3 if n % 5 == 0 else 0})
        expect[cid] = (out, err)
        if len(s) >= 2 and (len(s) > 2 or n % 3 == 0):
            src, out, err = program(s, via_fn=True)
            cid = 'q%d' % n; n += 1
            cases.append({'id': cid, 'src': src})
            expect[cid] = (out, err)
    for ka, kb in itertools.permutations(KEYS_, 2):
        for order in (0, 1):
            s = [(('lit', 3), 'o', 'q'), (('write', ka), 'o', 'q'), (('list', None), 'o', 'q')]
            s += [(('del', ka), 'o', 'q'), (('write', kb), 'o', 'q')] if order == 0 else [(('write', kb), 'o', 'q'), (('del', ka), 'o', 'q')]
            s += [(('list', None), 'o', 'q'), (('list', None), 'p', 'o')]
            src, out, err = program(tuple(s))
            cid = 'q%d' % n; n += 1
            cases.append({'id': cid, 'src': src}); expect[cid] = (out, err)
    # 8-key objects: listing order stable and consistent over repetitions
    big = '%s o = {h: 8, a: 1, g: 7, b: 2, f: 6, c: 3, e: 5, d: 4};\n%s %s(o);\n%s %s(o);\n%s o;\n%s(o, "c");\no.z = 9;\n%s %s(o);\n%s %s(o);\n' % (
        VAR, PRINT, KEYS, PRINT, VALUES, PRINT, DELETE, PRINT, KEYS, PRINT, VALUES)
    cases.append({'id': 'big', 'src': big, 'repeat': 12})
    pct = '%s o = {a: "100%%", b: 2, c: 3};\n%s o;\no.d = "50%% ছাড়";\no.e = ["%%d", "%%!", 1];\n%s o;\n%s o.a;\n%s %s(o);\n%s(o, "a");\n%s o;\n' % (VAR, PRINT, PRINT, PRINT, PRINT, VALUES, DELETE, PRINT)
    cases.append({'id': 'pct', 'src': pct})
    expect['pct'] = (['map[a:100% b:2 c:3]', 'map[a:100% b:2 c:3 d:50% ছাড় e:[%d %! 1]]', '100%', '[100% 2 3 50% ছাড় [%d %! 1]]', 'map[b:2 c:3 d:50% ছাড় e:[%d %! 1]]'], False)
    expect['big'] = (['[a b c d e f g h]', '[1 2 3 4 5 6 7 8]', 'map[a:1 b:2 c:3 d:4 e:5 f:6 g:7 h:8]', '[a b d e f g h z]', '[1 2 4 5 6 7 8 9]'], False)
    mism, ri, rm = diff_runs(env, cases)
    nontriv = set()
    for c in cases:
        e = expect.get(c['id'])
        if e is None:
            continue
        for r in ri[c['id']]:
            got = r['stdout'].decode('utf-8', 'replace').split('\n')[:-1]
            nontriv.add(tuple(got[-2:]))
            import unicodedata
            if got != [unicodedata.normalize('NFC', x) for x in e[0]] or (r['status'] == 70) != e[1]:
                mism.append({'case': c, 'reason': 'differs from the pure map model: implementation %s (status %s), map model %s (fault %s)' % (got[-3:], r['status'], e[0][-3:], e[1])})
                break
    return {'evaluations': sum(len(ri[c['id']]) for c in cases), 'distinct_nontrivial': len(nontriv), 'mismatches': mism,
            'rule': 'sequences over %d operations (literals of 0-3 keys, alias, read/write/delete of 4 keys incl. a built-in-like one, listing, nesting, misuse) x 3 (target, other) choices on objects o, p (= alias of o), q: complete to length 2, random to length %d and 15-40; every fifth case and an 8-key object repeated in fresh processes; compared with the Coq model and a Python dict model; non-trivial = distinct final states' % (len(OPS), 5 if tier == 'quick' else 7),
            'samples': [cases[len(corpus_cases('C12')) + 300]['src'][-200:]]}
