"""C03: names resolve through nested block scopes.  Every well-bracketed history of declare / assign / read /
enter-block / enter-for-header / declare-function-and-call events up to a length bound over two colliding names,
rendered as a program that prints after every event; random larger programs."""
import core, lang, progs
from lang import *  # noqa
from props.common import sub_rng, diff_runs, replay_generic, corpus_cases

replay = replay_generic
EVENTS = ['Da', 'Db', 'Dl', 'Aa', 'Ab', 'Ra', 'Rb', '{', 'for{', 'forl{', 'fn{', '}']


def render(hist, names=None):
    names = names or {'a': 'a', 'b': 'b'}
    out = []
    stack = []
    k = [0]
    for ev in hist:
        ind = '  ' * len(stack)
        k[0] += 1
        if ev == 'Dl':
            out.append('%s%s a = %d, b = %d;' % (ind, VAR, k[0], k[0] + 500)); out.append('%s%s "%s";' % (ind, PRINT, ev))
        elif ev[0] == 'D':
            out.append('%s%s %s = %d;' % (ind, VAR, names[ev[1]], k[0])); out.append('%s%s "%s";' % (ind, PRINT, ev))
        elif ev[0] == 'A':
            out.append('%s%s = %d;' % (ind, names[ev[1]], k[0] * 10)); out.append('%s%s "%s";' % (ind, PRINT, ev))
        elif ev[0] == 'R':
            out.append('%s%s %s;' % (ind, PRINT, names[ev[1]]))
        elif ev == '{':
            out.append(ind + '{'); stack.append(('}', None))
        elif ev == 'for{':
            out.append('%s%s (%s a = %d; a < %d; a = a + 1000) {' % (ind, FOR, VAR, k[0] * 100, k[0] * 100 + 1)); stack.append(('}', None))
        elif ev == 'forl{':      # a header that declares a LIST of names (the parser builds a different node for it)
            out.append('%s%s (%s a = %d, b = %d; a < %d; a = a + 1000) {' % (ind, FOR, VAR, k[0] * 100, k[0] * 100 + 50, k[0] * 100 + 1)); stack.append(('}', None))
        elif ev == 'fn{':
            fn = 'f%d' % k[0]
            out.append('%s%s %s(%s) {' % (ind, FUN, fn, names['b'])); stack.append(('}', fn))
        elif ev == '}':
            closer, fn = stack.pop()
            ind = '  ' * len(stack)
            out.append(ind + '}')
            if fn:
                out.append('%s%s(%d);' % (ind, fn, k[0] * 7))
    while stack:
        closer, fn = stack.pop()
        ind = '  ' * len(stack)
        out.append(ind + '}')
        if fn:
            out.append('%s%s(%d);' % (ind, fn, 77))
    out.append('%s "end";' % PRINT)
    return '\n'.join(out) + '\n'


def histories(maxlen, rng, sample):
    def go(h, depth):
        if h:
            yield list(h)
        if len(h) == maxlen:
            return
        for ev in EVENTS:
            if ev == '}' and depth == 0:
                continue
            if ev in ('{', 'for{', 'forl{', 'fn{') and depth >= 2:
                continue
            if len(h) >= 4 and rng.random() > sample:
                continue
            h.append(ev)
            yield from go(h, depth + (1 if ev.endswith('{') else -1 if ev == '}' else 0))
            h.pop()
    yield from go([], 0)


def run(env, tier, seed, broken=None):
    rng = sub_rng(seed, 'C03')
    cases = corpus_cases('C03')
    n = 0
    L = 5 if tier == 'quick' else 7
    for h in histories(L, rng, 0.27 if tier == 'quick' else 0.3):
        cases.append({'id': 'h%d' % n, 'src': render(h)}); n += 1
        # the same history written on ONE line when a name is read, then declared, then read again: what a read means
        # may not depend on which other reads share its line
        for nm in 'ab':
            evs = [e for e in h if e in ('R' + nm, 'D' + nm, 'Dl', 'for{', 'forl{')]
            if any(evs[i][0] == 'R' and evs[j][0] != 'R' and evs[k2][0] == 'R' for i in range(len(evs)) for j in range(i + 1, len(evs)) for k2 in range(j + 1, len(evs))):
                cases.append({'id': 'h%d' % n, 'src': ' '.join(render(h).split('\n')) + '\n'}); n += 1
                break
        # the same history with the parameter named like a built-in (the parser reserves those names for ধরি and
        # ফাংশন declarations only: as a parameter such a name is an ordinary local that shadows the global)
        if 'fn{' in h and 'Db' not in h and 'Dl' not in h:
            cases.append({'id': 'h%d' % n, 'src': render(h, {'a': 'a', 'b': [LEN, ABS, INPUT, MAX][n % 4]})}); n += 1
    extra = [
        '%s a = 1;\n{ %s a = 2; { %s a = 3; %s a; } %s a; }\n%s a;\n' % (VAR, VAR, VAR, PRINT, PRINT, PRINT),
        '%s a = 1;\n{ a = 2; }\n%s a;\n{ %s b = 5; }\n%s b;\n' % (VAR, PRINT, VAR, PRINT),
        '%s a = 1;\n%s a = 2;\n' % (VAR, VAR), '{ %s a = 1; %s a = 2; }\n' % (VAR, VAR), 'zz = 1;\n', '%s zz;\n' % PRINT,
        '%s (%s i = 0; i < 2; i = i + 1) { %s i = 9; %s i; }\n' % (FOR, VAR, VAR, PRINT),
        '%s (%s i = 0; i < 2; i = i + 1) { { %s i = 9; %s i; } }\n%s i;\n' % (FOR, VAR, VAR, PRINT, PRINT),
        '%s f(p) { %s p = 1; }\nf(0);\n' % (FUN, VAR), '%s f() { %s f = 1; }\nf();\n' % (FUN, VAR),
        '%s a = 1;\n%s f() { %s a; }\n%s g() { %s a = 2; %s f(); }\n%s g();\n' % (VAR, FUN, RETURN, FUN, VAR, RETURN, PRINT),
        '%s a = 1;\n%s a, b = 2;\n' % (VAR, VAR), '%s a = 1, a = 2;\n' % VAR, '%s a = 1, b = a + 1;\n%s b;\n' % (VAR, PRINT),
        '%s = 5;\n%s %s;\n' % (LEN, PRINT, LEN), '%s f() { %s 1; }\n%s f = 2;\n%s f;\n' % (FUN, RETURN, VAR, PRINT),
        '%s f = 2;\n%s f() { %s 1; }\n%s f;\n' % (VAR, FUN, RETURN, PRINT),
        '%s a = 1;\n%s (a < 3) { %s b = a; a = a + 1; %s b; }\n' % (VAR, WHILE, VAR, PRINT),
    ]
    Y = 'ব\u09dfস'        # contains U+09DF, which is not stable under NFC
    extra += [
        '%s %s = 21;\n{ %s %s = 10; %s %s; }\n%s %s;\n%s %s = 30;\n%s %s;\n' % (VAR, Y, VAR, Y, PRINT, Y, PRINT, Y, VAR, Y, PRINT, Y),
        '%s %s(%s) { %s %s; }\n%s %s(4);\n%s %s;\n' % (FUN, 'f' + Y, Y, RETURN, Y, PRINT, 'f' + Y, PRINT, 'f' + Y),
        '%s q;\n%s q = 2;\n' % (VAR, VAR), '%s q = %s;\n%s q;\n%s "no";\n' % (VAR, NIL, VAR, PRINT), '%s nf() { }\n%s r = nf();\n%s r = 1;\n' % (FUN, VAR, VAR),
        '%s f(p) { %s p = 1; %s p; }\n%s f(%s);\n' % (FUN, VAR, RETURN, PRINT, NIL), '{ %s z; { z = 1; } %s z; %s z; }\n' % (VAR, PRINT, VAR),
        '%s = 7;\n%s %s;\n%s inner() { %s = 8; }\ninner();\n%s %s;\n' % (ABS, PRINT, ABS, FUN, ABS, PRINT, ABS),
    ]
    for B in (LEN, ABS, POW, INPUT, KEYS, CLOCK):
        extra += [
            '%s f(%s) { %s %s; { %s %s; { %s = %s + 1; %s %s; } } %s (%s < 5) { %s = %s + 1; } %s %s; }\n%s f(1);\n%s %s;\n' % (FUN, B, PRINT, B, PRINT, B, B, B, PRINT, B, WHILE, B, B, B, RETURN, B, PRINT, PRINT, B),
            '%s tw(x) { %s x * 2; }\n%s ap(%s, v) { %s %s(v); }\n%s ap(tw, 21);\n%s ap2(%s) { { %s %s(4) + (%s)(5); } }\n%s ap2(tw);\n' % (FUN, RETURN, FUN, B, RETURN, B, PRINT, FUN, B, RETURN, B, B, PRINT),
            '%s mk(%s) { %s inner() { %s %s; } %s inner; }\n%s mk(9)();\n%s %s;\n' % (FUN, B, FUN, RETURN, B, RETURN, PRINT, PRINT, B),
            '%s g(%s) { %s (%s i = 0; i < 2; i = i + 1) { %s %s + i; } %s (%s) { %s %s; } }\ng(7);\n' % (FUN, B, FOR, VAR, PRINT, B, IF, TRUE, PRINT, B),
            '%s h(%s) { %s = "local"; { %s = %s + "!"; } %s %s; }\nh(0);\n%s %s;\n' % (FUN, B, B, B, B, PRINT, B, PRINT, B),
        ]
    # a name with no visible binding is an error wherever it is read - also as a bare expression statement
    extra += ['zz;\n%s "after";\n' % PRINT, '%s f() { zz; %s "in"; }\nf();\n' % (FUN, PRINT), '{ %s y = 1; }\ny;\n%s "after";\n' % (VAR, PRINT),
              '%s (%s i = 0; i < 1; i = i + 1) { }\ni;\n' % (FOR, VAR), '%s g(p) { }\ng(1);\np;\n' % FUN, '(zz);\n', 'zz.k;\n', '%s (%s) { zz; }\n%s "after";\n' % (IF, TRUE, PRINT)]
    # a name bound twice in one scope (a function declared over a variable or over an earlier function, a parameter spelt
    # like its function, duplicate parameters): later assignments and reads see one and the same binding
    extra += [
        '%s h = "off";\n%s h() { %s 1; }\n%s h;\nh = 20;\n%s h;\nh = h + 1;\n%s h;\n' % (VAR, FUN, RETURN, PRINT, PRINT, PRINT),
        '%s k() { %s 1; }\n%s k() { %s 2; }\n%s k();\nk = 3;\n%s k;\n{ k = k + 1; }\n%s k;\n' % (FUN, RETURN, FUN, RETURN, PRINT, PRINT, PRINT),
        '%s f(f) { f = f + 5; %s f; { f = f * 2; } %s f; }\n%s f(1);\n%s f;\n' % (FUN, PRINT, RETURN, PRINT, PRINT),
        '%s g(a, a) { a = a + 1; %s a; { a = a * 10; } %s a; }\n%s g(1, 2);\n' % (FUN, PRINT, RETURN, PRINT),
        '{ %s w = 1; %s w() { } w = 7; %s w; { w = 8; } %s w; }\n' % (VAR, FUN, PRINT, PRINT),
    ]
    # many names in one scope (top level, block, function body, parameters): each declared, then assigned, then read
    for where in ('top', 'block', 'fn', 'params'):
        for count in (15, 16, 17, 18, 33, 70):
            names = ['n%d' % j for j in range(count)]
            decl = ''.join('%s %s = %d;\n' % (VAR, nm, j) for j, nm in enumerate(names))
            use = ''.join('%s = %s + 100;\n' % (nm, nm) for nm in names[::3]) + '%s [%s];\n' % (PRINT, ', '.join(names)) + \
                  '%s c = 0;\n%s (n1 < 300) { n1 = n1 + 99; c = c + 1; }\n%s [c, n1, n0, %s];\n' % (VAR, WHILE, PRINT, names[-1])
            if where == 'top': extra.append(decl + use)
            elif where == 'block': extra.append('{\n' + decl + use + '{ n2 = 5; %s n2; }\n%s n2;\n}\n' % (PRINT, PRINT))
            elif where == 'fn': extra.append('%s big() {\n%s%s%s n0;\n}\n%s big();\n%s big();\n' % (FUN, decl, use, RETURN, PRINT, PRINT))
            elif count <= 70: extra.append('%s many(%s) {\n%s%s n0;\n}\n%s many(%s);\n' % (FUN, ', '.join(names), use, RETURN, PRINT, ', '.join(str(j) for j in range(count))))
    # every form of for-initialiser (none, assignment, one declarator, a list of 2 or 3, uninitialised declarators) against the
    # scope around the loop: an outer binding of the same name is shadowed and survives, the names are gone after the loop,
    # a second loop in the same scope may declare them again, a closure made in the body keeps the header's variable
    for init, nm in [('%s i = 0' % VAR, 'i'), ('%s i = 0, j = 10' % VAR, 'i'), ('%s i = 0, j = 10' % VAR, 'j'), ('%s j = 10, i = 0' % VAR, 'j'),
                     ('%s i = 0, j = 10, k = 20' % VAR, 'k'), ('%s i = 0, j' % VAR, 'j'), ('%s j, i = 0' % VAR, 'j'), ('i = 0', 'i'), ('', 'i')]:
        for pre in ['', '%s %s = 7;\n' % (VAR, nm), '%s i = 5;\n%s j = 6;\n' % (VAR, VAR)]:
            loop = '%s (%s; i < 2; i = i + 1) { %s [i, %s]; }\n' % (FOR, init, PRINT, nm)
            extra += [pre + loop + '%s %s;\n' % (PRINT, nm), pre + loop + loop + '%s "two";\n' % PRINT, '{ ' + pre + loop + '%s %s = 1;\n%s %s;\n}\n' % (VAR, nm, PRINT, nm),
                      '%s run() { %s%s%s %s; }\n%s run();\n' % (FUN, pre, loop, RETURN, nm, PRINT),
                      pre + '%s keep = %s;\n%s (%s; i < 2; i = i + 1) { %s get() { %s %s; } keep = get; }\n%s keep;\n%s (keep) { %s keep(); }\n' % (VAR, NIL, FOR, init, FUN, RETURN, nm, PRINT, IF, PRINT)]
    # a closure reads an outer variable, then the enclosing block declares the same name: outside the property's domain
    # (static vs dynamic resolution), kept out of the generators on purpose
    for e in extra:
        cases.append({'id': 'e%d' % n, 'src': e}); n += 1
    for i in range(1500 if tier == 'quick' else 40000):
        r = sub_rng(seed, 'C03r%d' % i)
        cases.append({'id': 'r%d' % i, 'src': progs.random_program(r, r.randint(8, 40), 3, fault_rate=0.05)})
    mism, ri, rm = diff_runs(env, cases)
    nontriv = set((ri[c['id']][0]['stdout'], ri[c['id']][0]['status']) for c in cases)
    return {'evaluations': len(cases), 'distinct_nontrivial': len(nontriv), 'mismatches': mism,
            'rule': 'well-bracketed histories over {declare, assign, read} x {a, b}, enter block / for-header (declaring a, or the list a, b) / function (parameter b, called on exit), nesting <= 2, complete to length 4 and a %d%% sample of each extension up to length %d; redeclaration, undefined read/assign, shadowing, closure-sees-later-update probes; random programs of 8-40 statements over a colliding name pool; non-trivial = distinct (trace, status)' % (27 if tier == 'quick' else 30, L),
            'samples': [cases[200]['src'][:300], cases[-1]['src'][:200]]}
