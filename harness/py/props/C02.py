"""C02: operators.  The full matrix operator x ordered pair of values of every runtime kind and
boundary magnitude, random exact doubles m * 2 ** e, random nested expressions.  Own predicates on the
implementation: == / != total, symmetric, reflexive off NaN, != is the negation; errors never print a value."""
import random
import core, lang, pools
from props.common import sub_rng, diff_runs, replay_generic, corpus_cases

replay = replay_generic


def num_expr(rng):
    kind = rng.random()
    if kind < 0.15:
        return rng.choice(pools.NUMS)
    m = rng.getrandbits(rng.choice([1, 3, 8, 20, 53]))
    if rng.random() < 0.3:
        m = -m
    e = rng.choice([0, 0, 1, -1, 5, -5, 30, -30, 62, 63, 64, 100, -100, 500, -500, 970, -1074, -1060, 1000])
    if e == 0:
        return '(%d)' % m if m >= 0 else '(0 - %d)' % -m
    return '((%d) * 2 ** (%d))' % (m, e) if m >= 0 else '((0 - %d) * 2 ** (%d))' % (-m, e)


def nested(rng, depth):
    if depth == 0 or rng.random() < 0.25:
        r = rng.random()
        if r < 0.6:
            return num_expr(rng)
        if r < 0.8:
            return rng.choice(pools.STRS)
        return rng.choice(pools.OTHERS)
    if rng.random() < 0.15:
        return '(%s%s)' % (rng.choice(pools.UNOPS), nested(rng, depth - 1))
    return '(%s %s %s)' % (nested(rng, depth - 1), rng.choice(pools.BINOPS), nested(rng, depth - 1))


def run(env, tier, seed, broken=None):
    rng = sub_rng(seed, 'C02')
    cases = corpus_cases('C02')
    meta = {}
    V = pools.VALUES
    n = 0
    for op in pools.BINOPS:
        for (a, ka) in V:
            for (b, kb) in V:
                cid = 'm%d' % n; n += 1
                cases.append({'id': cid, 'src': pools.SETUP + '%s (%s) %s (%s);\n' % (lang.PRINT, a, op, b)})
                meta[cid] = (op, a, b)
    for op in pools.UNOPS:
        for (a, ka) in V:
            cid = 'u%d' % n; n += 1
            cases.append({'id': cid, 'src': pools.SETUP + '%s %s(%s);\n' % (lang.PRINT, op, a)})
    for o1 in pools.UNOPS:
        for o2 in pools.UNOPS:
            for (a, ka) in V:
                if a[0] in '-!~(' or ' ' in a:
                    a = '(%s)' % a
                cid = 'u%d' % n; n += 1
                cases.append({'id': cid, 'src': pools.SETUP + '%s %s%s%s;\n%s 2 ** %s%s%s;\n' % (lang.PRINT, o1, ' ' if o1 == o2 == '-' else '', o2 + a, lang.PRINT, o1, ' ' if o1 == o2 == '-' else '', o2 + a)})
    for a, b in [('0', '(0 * -1)'), ('(0 * -1)', '0'), ('1', '1.0'), ('0.5', '0.50'), ('100', '1e2'.replace('1e2', '(10 * 10)'))]:
        cid = 'z%d' % n; n += 1
        cases.append({'id': cid, 'src': '%s "a" + %s;\n%s "a" + %s;\n%s %s + "b";\n%s %s + "b";\n%s "a" + %s;\n' % (lang.PRINT, a, lang.PRINT, b, lang.PRINT, a, lang.PRINT, b, lang.PRINT, a)})
    # numeric strings as operands: they denote the double the same text denotes as a literal (through toNumber), for every
    # operator including the integer ones; equality compares strings by content, whatever number they spell
    NUMSTR = ['"9007199254740993"', '"9007199254740992"', '"9223372036854775807"', '"9223372036854775808"', '"-9223372036854775808"', '"-9223372036854775809"',
              '"18446744073709551616"', '"৯০০৭১৯৯২৫৪৭৪০৯৯৩"', '"007"', '"7"', '"৭"', '"7.0"', '"7e0"', '"1e2"', '"100"', '"১০০"', '"+5"', '"5."', '".5"', '"0.5"', '"  7"', '"7  "', '"1_000"',
              '"NaN"', '"Inf"', '"-inf"', '"infinity"', '"1e400"', '"4.9e-324"', '"2.5e-324"', '"12"', '"১২"', '"1"', '"1.0"', '"-0"', '"0"', '"4294967296"', '"4294967297"']
    for a in NUMSTR:
        for op in pools.BINOPS:
            for b in ['1', '0', '2', '62', '63', '"1"', a, 'arr3']:
                cid = 'ns%d' % n; n += 1
                cases.append({'id': cid, 'src': pools.SETUP + '%s %s %s %s;\n%s %s %s %s;\n' % (lang.PRINT, a, op, b, lang.PRINT, b, op, a)})
        for u in pools.UNOPS:
            cid = 'ns%d' % n; n += 1
            cases.append({'id': cid, 'src': '%s %s%s;\n' % (lang.PRINT, u, a)})
        cid = 'ns%d' % n; n += 1
        cases.append({'id': cid, 'src': pools.SETUP + '%s arr3[%s];\n' % (lang.PRINT, a)})
    for a in NUMSTR:
        for b in NUMSTR:
            cid = 'ns%d' % n; n += 1
            cases.append({'id': cid, 'src': '%s %s == %s;\n%s %s != %s;\n%s %s + %s;\n%s %s < %s;\n' % (lang.PRINT, a, b, lang.PRINT, a, b, lang.PRINT, a, b, lang.PRINT, a, b)})
    # the result of + with a string operand IS a string, whatever the other operand was: used again, compared, indexed
    for a in ['1', '7', '0.5', '-0', '2 ** 53', '"7"', '"৭"', '""', '"a"', lang.TRUE, lang.NIL]:
        for e in ['""', '"" + ""', '"x"']:
            cid = 'ns%d' % n; n += 1
            cases.append({'id': cid, 'src': '%s t = %s + %s;\n%s t + 2;\n%s 2 + t;\n%s t == "7";\n%s t == 7;\n%s (%s + %s) + (%s + %s);\n%s u = %s + %s;\n%s u + 2;\n%s u * 2;\n' % (
                lang.VAR, a, e, lang.PRINT, lang.PRINT, lang.PRINT, lang.PRINT, lang.PRINT, a, e, e, a, lang.VAR, e, a, lang.PRINT, lang.PRINT)})
    nrand = 4000 if tier == 'quick' else 150000
    for op in ['+', '-', '*', '/', '%', '<', '<=', '>', '>=', '==', '&', '|', '^', '<<', '>>', '**']:
        for _ in range(nrand // 16):
            cid = 'r%d' % n; n += 1
            a, b = num_expr(rng), num_expr(rng)
            if op in ('<<', '>>') and rng.random() < 0.7:
                b = str(rng.choice([0, 1, 2, 31, 32, 62, 63, 64, 65, 100]))
            if op == '**' and rng.random() < 0.8:
                b = str(rng.choice([0, 1, 2, 3, -1, -2, 0.5, -0.5, 10, 31, 64, 1023, 1024, -1074, 7]))
            cases.append({'id': cid, 'src': '%s %s %s %s;\n' % (lang.PRINT, a, op, b)})
    # ** at the edges of the exponent range: results and intermediate powers that overflow, underflow or are subnormal
    # (x ** -n is not 1 / x ** n when x ** n overflows), integral exponents around every power of two up to 1075
    pbases = ['10', '2', '3', '0.1', '0.5', '1.5', '9007199254740992', '0.00001', '7', '-10', '-2', '10000000000', '123456789', '0.3', '1.0000001', '5e-324' if False else '0.0000000001']
    pexps = [20, 22, 23, 63, 64, 65, 127, 128, 300, 305, 307, 308, 309, 310, 315, 320, 323, 324, 325, 330, 511, 512, 513, 1022, 1023, 1024, 1074, 1075]
    for bi, pb in enumerate(pbases):
        es = [e for k, e in enumerate(pexps) if tier == 'thorough' or (k + bi) % 2 == 0]
        for sgn in ('', '-'):
            cid = 'pw%d' % n; n += 1
            cases.append({'id': cid, 'src': ''.join('%s (%s) ** %s%d;\n' % (lang.PRINT, pb, sgn, e) for e in es)})
    for _ in range(2000 if tier == 'quick' else 50000):
        cid = 'x%d' % n; n += 1
        cases.append({'id': cid, 'src': pools.SETUP + '%s %s;\n' % (lang.PRINT, nested(rng, rng.randint(2, 4)))})
    mism, ri, rm = diff_runs(env, cases)
    # ---- the property's own predicates on the implementation
    outs = {}
    for cid, (op, a, b) in meta.items():
        if op in ('==', '!='):
            r = ri[cid][0]
            outs[(op, a, b)] = (r['status'], r['stdout'].decode('utf-8', 'replace').strip())
    nan = '2 ** 1024 - 2 ** 1024'
    src_of = lambda op, a, b: {'id': 'law', 'src': pools.SETUP + '%s (%s) %s (%s);\n' % (lang.PRINT, a, op, b)}
    for (op, a, b), (st, o) in outs.items():
        if st != 0 or o not in ('true', 'false'):
            mism.append({'case': src_of(op, a, b), 'reason': '%s is not total: (%s) %s (%s) gives status %s output %r' % (op, a, op, b, st, o)})
            continue
        st2, o2 = outs[(op, b, a)]
        if o2 != o:
            mism.append({'case': src_of(op, a, b), 'reason': '%s is not symmetric on (%s), (%s)' % (op, a, b)})
        if a == b and a != nan and a not in ('[1]', '{}', '[]') and op == '==' and o != 'true':  # literals build a fresh reference each time
            mism.append({'case': src_of(op, a, b), 'reason': '== is not reflexive on %s' % a})
        other = outs[('!=' if op == '==' else '==', a, b)]
        if other[0] == 0 and other[1] == o:
            mism.append({'case': src_of(op, a, b), 'reason': '!= is not the negation of == on (%s), (%s)' % (a, b)})
    # an erroring program prints nothing (the error case never yields a value)
    nontriv = set()
    for c in cases:
        r = ri[c['id']][0]
        nontriv.add((r['status'], r['stdout'][:60], r['stderr'][:40]))
        if r['status'] == 70 and r['stdout'] != b'' and c['id'] in meta:
            mism.append({'case': c, 'reason': 'a failing operator still printed a value: %r' % r['stdout'][:80]})
    return {'evaluations': len(cases), 'distinct_nontrivial': len(nontriv), 'mismatches': mism,
            'rule': 'matrix: %d binary operators x %d x %d producer expressions (every runtime kind, boundary magnitudes) + 3 unary x %d; random exact doubles m*2**e per operator; random nested expressions depth <= 4; non-trivial = distinct (status, output, diagnostic) outcomes' % (len(pools.BINOPS), len(V), len(V), len(V)),
            'samples': [cases[7]['src'][-60:], cases[-1]['src'][-120:]]}
