"""C20: in the REPL a failed line never affects later lines; expression values echo.  Every session of up to
L lines over a pool of representative lines, random longer sessions; own predicate on the implementation: the
response to a line of literals and built-ins is the same after any history as in a fresh session."""
import itertools
import core, lang
from lang import *  # noqa
from props.common import sub_rng, diff_runs, replay_generic, corpus_cases

replay = replay_generic
POOL = ['1+2;', '"s";', 'nil;', '[1,"a"];', '%s 7;' % PRINT, '%s x = 5;' % VAR, 'x;', '1/0;', '%s(-3);' % ABS, '@;', '"open', '%s 1' % PRINT, '}', '{ 1; 2; }', '',
        '%s (i = 0; i < 2; i = i + 1) { i; }' % FOR, '%s f() { 5; %s 6; } f();' % (FUN, RETURN), '%s 1;' % RETURN, '{a: 1};', '1 2', '%s;' % LEN, '1.5;', '%s;' % BREAK,
        '"অা";', '%s = 5;' % LEN, '%s([1, 2, 3]);' % LEN, '%s = 5; x;' % LEN, '%s (;;) { 1/0; }' % FOR, '%s (;%s;) { nope; }' % (FOR, TRUE), '%s (%s) { %s; }' % (WHILE, TRUE, BREAK), '%s = nil; 1/0;' % ABS, '%s(-2);' % ABS]


POOL += ['%s "start {";' % PRINT, '// {', '{', '%s (%s) { %s 1;' % (IF, TRUE, PRINT), '"{";', '/* { */ 1;', '%s f() {' % FUN, '[1, {a: 1}', '"}";', '%s "}{";' % PRINT]


def split_responses(out):
    parts = out.split(b'>> ')
    return parts


def run(env, tier, seed, broken=None):
    rng = sub_rng(seed, 'C20')
    cases = []
    n = 0
    L = 2 if tier == 'quick' else 3
    sessions = []
    for k in range(1, L + 1):
        for t in itertools.product(POOL, repeat=k):
            sessions.append(list(t))
    for _ in range(1500 if tier == 'quick' else 30000):
        sessions.append([rng.choice(POOL) for _ in range(rng.randint(3, 40 if rng.random() < 0.1 else 8))])
    long1 = 'x;' + ' ' * 4094 + '%s "leaked";' % PRINT
    long2 = ' + '.join(['১'] * 2000) + ';'
    long3 = '"' + 'ক' * 3000 + '";'
    for extra_lines in ([long1, '1 + 1;'], ['1;', long2, '2;'], [long3, long1, long2], [long2]):
        sessions.append(extra_lines)
    # long histories: many failing lines of one kind (and identical ones) before further lines - a session keeps no
    # memory of earlier diagnostics, counts or depths
    for bad in ['1 +;', '@;', 'nope;', '"open', '1/0;', '%s g(n) { %s (n > 50) { %s nope; } %s g(n + 1); } g(0);' % (FUN, IF, RETURN, RETURN)]:
        for k in (99, 100, 101, 130, 300):
            sessions.append([bad] * k + ['%s (2;' % PRINT, '%s 1+1;' % PRINT, bad, '%s f() { %s 7; } f();' % (FUN, RETURN), '1+2;'])
    sessions.append(['%s d(n) { %s (n == 0) { %s nope; } %s d(n - 1); } d(2000);' % (FUN, IF, RETURN, RETURN)] * 60 + ['%s g() { %s 7; } g();' % (FUN, RETURN)])
    for s in sessions:
        cases.append({'id': 'r%d' % n, 'mode': 'repl', 'src': '\n'.join(s) + rng.choice(['\n', '\n', '', '\r\n']), 'lines': s}); n += 1
    mism, ri, rm = diff_runs(env, cases, need_oracle=False)
    # own predicate: fresh-session response of each pool line, then every session's i-th response must equal it
    fresh = {}
    for c in cases:
        if len(c['lines']) == 1 and c['src'].endswith('\n') and not c['src'].endswith('\r\n'):
            r = ri[c['id']][0]
            fresh[c['lines'][0]] = split_responses(r['stdout'])[1:2]
    nontriv = set()
    for c in cases:
        r = ri[c['id']][0]
        if r['status'] != 0 or r['timeout']:
            mism.append({'case': c, 'reason': 'session ended with status %s' % r['status']}); continue
        parts = split_responses(r['stdout'])
        nontriv.add(r['stdout'])
        lines = c['lines']
        if c['src'].endswith('\n') is False and lines and lines[-1] == '':
            lines = lines[:-1]
        if len(parts) != len([l for l in c['src'].split('\n')[:-1]] + ([c['src'].split('\n')[-1]] if c['src'].split('\n')[-1] != '' else [])) + 2:
            mism.append({'case': c, 'reason': 'number of prompts %d does not match the number of input lines' % (len(parts) - 1)}); continue
        for i, l in enumerate(c['src'].replace('\r\n', '\n').split('\n')):
            if l in fresh and i + 1 < len(parts) and fresh[l] and parts[i + 1] != fresh[l][0]:
                mism.append({'case': c, 'reason': 'line %d (%r) answered %r, in a fresh session %r' % (i, l, parts[i + 1][:60], fresh[l][0][:60])}); break
    return {'evaluations': len(cases), 'distinct_nontrivial': len(nontriv), 'mismatches': mism,
            'rule': 'every session of <= %d lines over a pool of %d lines (valid statements, bare expressions of each kind, lexical / syntax / runtime errors, unterminated string, stray brace, block, for with echoing initializer), random sessions to 40 lines, with and without final newline / CRLF; non-trivial = distinct transcripts' % (L, len(POOL)),
            'samples': [cases[30]['src'], cases[-1]['src'][:120]]}
