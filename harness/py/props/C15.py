"""C15: দেখাও prints each value faithfully, newline-terminated, consistent with +.  Doubles as exact
expressions m * 2 ** e (boundaries and random bit patterns), results of bitwise operators, strings over Latin,
Bangla, combining marks and every Bangla code point with a canonical decomposition, nested containers.
Own predicates on Go's output: the numeral reads back (Python float) to the same bits and is the shortest such
(repr), integers below 10^6 plain; string output is NFC and canonically equivalent to the source text;
`"" + v` splices exactly what দেখাও prints.  goref: model text_num against fmt %v directly."""
import math, unicodedata
import os
import core, lang
from lang import *  # noqa
from props.common import sub_rng, diff_runs, replay_generic, corpus_cases
from props.C17 import num_src

replay = replay_generic


def go_like(x):
    """what fmt %v prints, derived independently from Python's shortest repr"""
    if x != x: return 'NaN'
    if x == float('inf'): return '+Inf'
    if x == float('-inf'): return '-Inf'
    if x == 0: return '-0' if math.copysign(1, x) < 0 else '0'
    r = repr(abs(x))
    if 'e' in r:
        m, e = r.split('e'); e = int(e)
    else:
        m, e = r, 0
    ip, _, fp = m.partition('.')
    if fp == '0': fp = ''
    digits = (ip + fp).lstrip('0')
    exp10 = len(ip.lstrip('0')) - 1 + e if ip.strip('0') else -(len(fp) - len(fp.lstrip('0')) + 1) + e
    digits = digits.rstrip('0') or '0'
    sign = '-' if x < 0 else ''
    if exp10 < -4 or exp10 >= 6:
        mant = digits[0] + ('.' + digits[1:] if len(digits) > 1 else '')
        return '%s%se%s%02d' % (sign, mant, '-' if exp10 < 0 else '+', abs(exp10))
    if exp10 >= len(digits) - 1:
        return sign + digits + '0' * (exp10 - len(digits) + 1)
    if exp10 >= 0:
        return sign + digits[:exp10 + 1] + '.' + digits[exp10 + 1:]
    return sign + '0.' + '0' * (-exp10 - 1) + digits


def run(env, tier, seed, broken=None):
    rng = sub_rng(seed, 'C15')
    cases = corpus_cases('C15')
    n = 0
    doubles = [0.0, -0.0, 5e-324, 2.2250738585072014e-308, 2.225073858507201e-308, 2.0 ** 53, 2.0 ** 53 + 2, 2.0 ** 53 - 1, 1e5, 999999.0, 1e6, 1000001.0, 1e20, 1e21, 1e22,
               123456789012345680.0, 0.0001, 0.00001, 0.000123, 1e-5, 1.5, 0.1, 0.2, 0.30000000000000004, 1 / 3, 2 / 3, 1e23, 9007199254740993.0, 1.7976931348623157e308,
               float('inf'), float('-inf'), float('nan'), 100000.0, 123456.7, 1e15 + 0.3, 4.35, 0.5, 255.0, 65536.0, 4294967296.0, 1099511627776.0, -1e6, -999999.0, 12345678.9]
    for p in range(-10, 25):
        for d in (-1, 0, 1):
            x = float('1e%d' % p)
            doubles.append(math.nextafter(x, math.inf) if d > 0 else math.nextafter(x, -math.inf) if d < 0 else x)
    for _ in range(3000 if tier == 'quick' else 40000):
        b = rng.getrandbits(64)
        x = lang.bits_f64(b)
        doubles.append(x)
    for _ in range(500 if tier == 'quick' else 20000):
        doubles.append(float(rng.randint(-10 ** 7, 10 ** 7)))
        doubles.append(round(rng.uniform(-1e4, 1e4), rng.randint(0, 6)))
    dmeta = {}
    for x in doubles:
        cid = 'd%d' % n; n += 1
        e = num_src(x)
        cases.append({'id': cid, 'src': '%s %s;\n%s "" + %s;\n%s [%s, %s];\n' % (PRINT, e, PRINT, e, PRINT, e, e)})
        dmeta[cid] = x
    # bitwise results
    for e in ['1 << 40', '7 & 3', '1 | 0', '~0', '-1 >> 1', '1 << 62', '1 << 63', '1 << 64', '(2 ** 62) | 1', '5 ^ 3', '~(2 ** 53)']:
        cases.append({'id': 'b%d' % n, 'src': '%s %s;\n%s "" + (%s);\n' % (PRINT, e, PRINT, e)}); n += 1
    # strings
    bangla = [chr(c) for c in range(0x980, 0xA00) if unicodedata.category(chr(c)) != 'Cn']
    decomposable = [chr(c) for c in range(0x980, 0xA00) if unicodedata.normalize('NFD', chr(c)) != chr(c)]
    strs = ['100%', '%d', '%!', 'a%sb%v', '%%', 'trail\n', '\n', '\n\n', 'a\n\nb\n', '', 'a', 'abc', 'x y', 'তারিখ', 'ক্ষ', 'কো', 'কো', '\u09df', '\u09af\u09bc', 'ড়ঢ়', 'é', 'é', 'Å', 'ñ', 'Ω', '1e3', ' pad ', 'tab\there', 'quote\'s', 'back\\slash', 'new\nline']
    # long lines: texts around 4096 / 8192 / 65536 BYTES that are much shorter in CHARACTERS (three-byte letters), alone and in containers
    for k in (1360, 1365, 1366, 1370, 2000, 2730, 2731, 4095, 4096, 4097, 5000, 21845, 21846, 30000):
        strs.append('ক' * k)
        strs.append('ab' + 'খগ' * (k // 2))
    # long lines made of composable pairs / triples (decomposed vowel signs whose second half is a SPACING mark, Hangul jamo,
    # letter + accent) at every byte alignment: wherever an output buffer of 4096 / 8192 bytes ends, a pair straddles it
    for unit, pads in [('ক\u09c7\u09be', range(9)), ('ক\u09c7\u09d7', (0, 4, 8)), ('\u1100\u1161\u11a8', range(9)), ('e\u0301', (0, 1, 2)),
                       ('\u0b95\u0bc6\u0bbe', (1, 5)), ('\u1025\u102e', (2, 3)), ('\u09a1\u09bc\u09af\u09bc', (0, 3, 7))]:
        for pad in pads:
            strs.append('x' * pad + unit * (8400 // len(unit.encode()) + 2))
    # characters with a compatibility (not canonical) decomposition must come out unchanged: NFC, not NFKC
    strs += ['o\ufb03ce x\u00b2 \u2460 \u210c \u00bd \u2026 \u2122', '\uff21\uff22', 'a\u00a0b', '\u2126 \u212b \u212a', '\ufb2c', '\u1e9b\u0323', '\u3392', '\u00b5m']
    strs += decomposable + [unicodedata.normalize('NFD', c) for c in decomposable] + ['ক' + c for c in bangla if unicodedata.combining(c)]
    for _ in range(400 if tier == 'quick' else 20000):
        strs.append(''.join(rng.choice(bangla + list('abc xyz') + ['́', '়', '্']) for _ in range(rng.randint(1, 12))))
    smeta = {}
    for s in strs:
        if '"' in s:
            continue
        cid = 's%d' % n; n += 1
        cases.append({'id': cid, 'src': '%s "%s";\n%s ["%s", 1];\n%s {k: "%s"};\n%s "%s" + "";\n' % (PRINT, s, PRINT, s, PRINT, s, PRINT, s)})
        smeta[cid] = s
    cmeta = {}
    for c in decomposable:
        nfd = unicodedata.normalize('NFD', c)
        if len(nfd) >= 2 and '"' not in nfd:
            a, b = 'ক' + nfd[:1], nfd[1:] + 'ন'
            cid = 'j%d' % n; n += 1
            cases.append({'id': cid, 'src': '%s "%s" + "%s";\n%s ["%s" + "%s"];\n%s p = "%s"; %s q = "%s"; %s p + q;\n' % (PRINT, a, b, PRINT, a, b, VAR, a, VAR, b, PRINT)})
            cmeta[cid] = unicodedata.normalize('NFC', a + b)
    for a, b in [('e', '\u0301'), ('a', '\u030a'), ('কে', 'ান'), ('n', '\u0303o')]:
        cid = 'j%d' % n; n += 1
        cases.append({'id': cid, 'src': '%s "%s" + "%s";\n%s ["%s" + "%s"];\n%s p = "%s"; %s q = "%s"; %s p + q;\n' % (PRINT, a, b, PRINT, a, b, VAR, a, VAR, b, PRINT)})
        cmeta[cid] = unicodedata.normalize('NFC', a + b)
    cases.append({'id': 'v%d' % n, 'src': '%s s = [1, "k"];\n%s [s, s];\n%s {a: s, b: s, c: [s]};\n%s e = [];\n%s [e, e, [e]];\n%s o = {};\n%s [o, o];\n' % (VAR, PRINT, PRINT, VAR, PRINT, VAR, PRINT),
                  'want': '[[1 k] [1 k]]\nmap[a:[1 k] b:[1 k] c:[[1 k]]]\n[[] [] [[]]]\n[map[] map[]]'}); n += 1
    # nil / booleans / containers / functions
    for e, want in [(NIL, 'nil'), (TRUE, 'true'), (FALSE, 'false'), ('[1, [2, [3, []]], {}]', '[1 [2 [3 []]] map[]]'), ('{b: 1, a: [%s, %s], c: {d: "x"}}' % (NIL, TRUE), 'map[a:[<nil> true] b:1 c:map[d:x]]'),
                    ('[%s, "s", 1.5]' % NIL, '[<nil> s 1.5]'), (LEN, '<native fn len>'), (CLOCK, '<native fn>')]:
        cases.append({'id': 'v%d' % n, 'src': '%s %s;\n' % (PRINT, e), 'want': want}); n += 1
    # every kind of value inside every kind of container (and nested): built-ins and user functions print by name there too
    kinds = [NIL, TRUE, '1.5', '"s"', '[]', '[1]', '{}', '{k: 1}', LEN, CLOCK, ABS, MAX, INPUT, KEYS, 'uf', '-0', '2 ** 70']
    for a in kinds:
        cases.append({'id': 'v%d' % n, 'src': '%s uf() { }\n%s [%s];\n%s [[%s], %s];\n%s {k: %s};\n%s {k: [%s], j: {i: %s}};\n%s t = [%s, %s];\n%s t;\n%s "" + "x";\n' % (
            FUN, PRINT, a, PRINT, a, a, PRINT, a, PRINT, a, a, VAR, a, a, PRINT, PRINT)}); n += 1
    mism, ri, rm = diff_runs(env, cases)
    nontriv = set()
    for c in cases:
        r = ri[c['id']][0]
        out = r['stdout'].decode('utf-8', 'replace')
        nontriv.add(out)
        lines = out.split('\n')
        if c['id'] in dmeta:
            x = dmeta[c['id']]
            if r['status'] != 0 or len(lines) != 4 or lines[3] != '':
                mism.append({'case': c, 'reason': 'expected three newline-terminated lines, got %r (status %s)' % (out[:80], r['status'])}); continue
            t = lines[0]
            if lines[1] != t or lines[2] != '[%s %s]' % (t, t):
                mism.append({'case': c, 'reason': 'print, concatenation and nested print disagree: %r' % lines[:3]}); continue
            if x == x and abs(x) != float('inf'):
                try:
                    back = float(t)
                except ValueError:
                    mism.append({'case': c, 'reason': 'numeral %r does not read back' % t}); continue
                if lang.f64_bits(back) != lang.f64_bits(x):
                    mism.append({'case': c, 'reason': 'numeral %r reads back to a different double' % t}); continue
                if t != go_like(x):
                    mism.append({'case': c, 'reason': 'numeral %r is not the shortest round-trip form %r' % (t, go_like(x))}); continue
                if float(x).is_integer() and abs(x) < 1e6 and t != str(int(x)) and not (x == 0):
                    mism.append({'case': c, 'reason': 'integer below one million printed as %r' % t})
        elif c['id'] in smeta:
            s = smeta[c['id']]
            exp = unicodedata.normalize('NFC', s)
            want = '%s\n[%s 1]\nmap[k:%s]\n%s\n' % (exp, exp, exp, exp)
            if out != unicodedata.normalize('NFC', out) and False:
                pass
            if out != want:
                mism.append({'case': c, 'reason': 'string output %r, expected the NFC form %r' % (out[:80], want[:80])})
        elif c['id'] in cmeta:
            exp = cmeta[c['id']]
            if out != '%s\n[%s]\n%s\n' % (exp, exp, exp):
                mism.append({'case': c, 'reason': 'concatenated string printed as %r, expected NFC %r' % (out[:60], exp)})
        elif 'want' in c:
            if out != c['want'] + '\n':
                mism.append({'case': c, 'reason': 'printed %r, expected %r' % (out, c['want'])})
    # goref: the model's text_num against fmt %v directly (independent of Borno)
    bits = [lang.f64_bits(x) for x in doubles]
    gr = core.sh([env.goref, 'fmt'], input=('\n'.join(map(str, bits)) + '\n').encode()).stdout.decode().split('\n')
    gm = {int(l.split(' ')[0]): l.split(' ', 1)[1] for l in gr if l}
    mt = env.run_model(['textnum\tg%d\t%d' % (i, b) for i, b in enumerate(bits)], need_oracle=False)
    bad = 0
    for i, b in enumerate(bits):
        t = mt['g%d' % i][0]
        txt = ''.join(chr(int(x)) for x in t.split(',')) if t != 'none' else None
        if txt != gm.get(b) and bad < 5:
            bad += 1
            mism.append({'case': None, 'reason': 'model text_num(%d) = %r but fmt %%v = %r' % (b, txt, gm.get(b))})
    # the model's NFC (Model/Nfc.v over tables regenerated from the linked x/text) against norm.NFC itself, independent of
    # Borno: every code point that occurs in a table on its own, every table pair, Hangul, and random strings over them
    import re as _re
    gen = open(os.path.join(core.COQ, 'Gen', 'GenNfc.v'), encoding='utf-8').read()
    tabcps = sorted(set(int(x) for x in _re.findall(r'\d+', gen.split('gen_nfd')[1]) if int(x) < 0x110000 and not 0xD800 <= int(x) <= 0xDFFF))
    marks = [c for c in tabcps if unicodedata.combining(chr(c))]
    pool = tabcps + list(range(0x20, 0x7f)) + list(range(0x980, 0xa00)) + [0x1100, 0x1112, 0x1161, 0x1175, 0x11a8, 0x11c2, 0xac00, 0xac01, 0xd7a3, 0xac1c]
    ntexts = [[c] for c in tabcps] + [[0x41, m] for m in marks[:400]] + [[c, 0x301, 0x323] for c in range(0x41, 0x7b)]
    for a, b, c in _re.findall(r'\((\d+),(\d+),(\d+)\)', gen.split('gen_comp')[1]):
        ntexts += [[int(a), int(b)], [int(a), 0x323, int(b)], [int(a), int(b), int(b)], [int(c), int(b)]]
    for _ in range(20000 if tier == 'quick' else 400000):
        k = rng.randint(1, 8)
        ntexts.append([rng.choice(marks) if rng.random() < 0.45 else rng.choice(pool) for _ in range(k)])
    # x/text deviates from UAX #15 on three kinds of exotic text (recorded findings, probed below): it inserts U+034F after
    # 30 consecutive "non-starters" (counting backward-combining class-0 characters such as U+09BE or Hangul V/T jamo, and
    # the trailing marks of a decomposition), its composition pass lets a mark combine across such a class-0 character, and it looks
    # composites up by the low 16 bits of the two characters (U+10041 U+0301 becomes U+00C1).  The comparison with x/text therefore ranges over the texts on which the two are meant to agree.
    sstab = {int(a): (int(b), int(c)) for a, b, c in _re.findall(r'\((\d+),(\d+),(\d+)\)', gen.split('gen_ss')[1])}
    cccs = [(int(a), int(b), int(c)) for a, b, c in _re.findall(r'\((\d+),(\d+),(\d+)\)', gen.split('gen_ccc')[1].split('gen_comp')[0])]
    cccmap = {}
    for lo, hi, k in cccs:
        for c in range(lo, hi + 1):
            cccmap[c] = k

    comp16 = set()
    for a, b, c in _re.findall(r'\((\d+),(\d+),(\d+)\)', gen.split('gen_comp')[1].split('gen_ss')[0]):
        comp16.add(int(a) & 0xFFFF); comp16.add(int(b) & 0xFFFF)

    def agreed_domain(t):
        ss, bc0 = 0, False
        for c in t:
            if c >= 0x10000 and (c & 0xFFFF) in comp16:
                return False      # x/text looks composites up by the low 16 bits of both characters (third recorded deviation)
            l, tr = sstab.get(c, (0, 0))
            if 0xAC00 <= c <= 0xD7A3:
                l, tr = 0, (1 if (c - 0xAC00) % 28 == 0 else 2)
            if l == 0:
                ss, bc0 = tr, False
                continue
            ss += l
            if ss > 30:
                return False
            if cccmap.get(c, 0) == 0:
                bc0 = True
            elif bc0:
                return False
        return True
    ssl = [c for c, (l, t) in sstab.items() if l > 0]
    sst = [c for c, (l, t) in sstab.items() if l == 0 and t > 0]
    for m in [0x301, 0x323, 0x334, 0x9be, 0x9bc, 0x9cd, 0x9d7, 0x1161, 0x11a8, 0xff9e, 0x3099, 0x345, 0x94d]:
        for base in [[], [0x61], [0x995], [0x1e0b], [0xac00], [0xac01], [0x1100], [0x212b], [0x9cb], [0xfb2c]]:
            for k in (25, 26, 27, 28, 29, 30):
                ntexts.append(base + [m] * k)
    for _ in range(3000 if tier == 'quick' else 60000):
        t = []
        for _ in range(rng.randint(1, 4)):
            if rng.random() < 0.7:
                t.append(rng.choice(sst + [0x61, 0x995, 0xac00, 0xac01]))
            kind = rng.random() < 0.75      # a run of marks of non-zero class, or a run of backward-combining class-0 characters
            pool_run = [c for c in ssl if (cccmap.get(c, 0) != 0) == kind]
            t += [rng.choice(pool_run) if rng.random() < 0.9 else (0x301 if kind else 0x9be) for _ in range(rng.randint(3, 28))]
        ntexts.append(t)
    n_all = len(ntexts)
    ntexts = [t for t in ntexts if agreed_domain(t)]
    if tier == 'thorough':
        ntexts += [[c] for c in range(0x110000) if not 0xD800 <= c <= 0xDFFF]
    gn = env.run_godump('nfc', [{'id': 'n%d' % i, 'cps': t} for i, t in enumerate(ntexts)])
    mn = env.run_model(['nfc\tn%d\t%s' % (i, core.field(t)) for i, t in enumerate(ntexts)], need_oracle=False)
    nbad = 0
    changed = 0
    for i, t in enumerate(ntexts):
        g = gn.get('n%d' % i, {}).get('cps')
        m = mn.get('n%d' % i, [''])[0]
        ml = [int(x) for x in m.split(',')] if m else []
        changed += (g != t)
        if g != ml and nbad < 5:
            nbad += 1
            mism.append({'case': None, 'reason': 'NFC of %s: model %s, x/text %s' % (t, ml, g)})
    # the two recorded deviations of the linked x/text from UAX #15, through the real binary (KNOWN_FINDINGS.txt lists exactly
    # these inputs): the printed text must be canonically equivalent to the string (same NFD) and be in NFC
    probes = [{'id': 'probe-nfc-31-marks', 'src': '%s "a%s";\n' % (PRINT, '\u0301' * 31)},
              {'id': 'probe-nfc-supplementary-plane', 'src': '%s "\U00010041\u0301";\n' % PRINT},
              {'id': 'probe-nfc-mark-across-backward-combiner', 'src': '%s "\u00f4\u09be\u1bf3\u0301";\n' % PRINT}]
    rp = env.run_impl([core.file_case(c['id'], c['src'], '')[0] for c in probes])
    for c in probes:
        r = rp[c['id']][0]
        lit = c['src'].split('"')[1]
        out = r['stdout'].decode('utf-8', 'replace').rstrip('\n')
        if unicodedata.normalize('NFD', out) != unicodedata.normalize('NFD', lit) or out != unicodedata.normalize('NFC', lit):
            mism.append({'case': c, 'reason': 'printed text %r is not the NFC form of the string / not canonically equivalent to it (NFC: %r)' % (
                [hex(ord(x)) for x in out][:40], [hex(ord(x)) for x in unicodedata.normalize('NFC', lit)][:40])})
    return {'evaluations': len(cases) + len(bits) + len(ntexts) + len(probes), 'nfc_texts': len(ntexts), 'nfc_texts_outside_agreed_domain_dropped': n_all - len(ntexts), 'nfc_texts_changed_by_normalisation': changed, 'distinct_nontrivial': len(nontriv), 'mismatches': mism,
            'rule': '%d doubles (boundaries, powers of ten +-1ulp, random bit patterns, random integers and decimals) printed alone, spliced by +, and nested; bitwise results; %d strings (every Bangla code point with a decomposition in both forms, combining marks, random mixtures) alone, in an array, as a property, concatenated; nil/booleans/containers/functions; model text_num against Go fmt via goref; non-trivial = distinct outputs' % (len(doubles), len(smeta)),
            'samples': [cases[len(corpus_cases('C15')) + 60]['src'], list(smeta.values())[40]]}
