"""C14: operands are evaluated once, left to right; logic short-circuits on truthiness.  Expression trees of
bounded depth over every node form whose leaves are side-effecting probes (calls that print a tag and return a
chosen value; assignments used as expressions), probe values over every runtime kind, falsy and truthy.
Own predicate: the printed tags of a strict expression are the probe tags in source order, each once."""
import re
import core, lang
from lang import *  # noqa
import zlib
from props.common import sub_rng, diff_runs, replay_generic, corpus_cases

replay = replay_generic
VALS = ['0', '1', '2', '""', '"s"', '"0"', '"০"', '"0.0"', '"-0"', '" "', NIL, TRUE, FALSE, '[]', '[1, 2]', '{}', '{k: 1}', 'p', '0.5', '2 ** 1024 - 2 ** 1024']
PRE = ('%s p(tag, v) { %s tag; %s v; }\n%s arr = [10, 20, 30];\n%s ob = {k: 1, j: 2};\n%s x = 0;\n%s f2(a, b) { %s a; }\n%s f3(a, b, c) { %s [a, b, c]; }\n'
       % (FUN, PRINT, RETURN, VAR, VAR, VAR, FUN, RETURN, FUN, RETURN))


class G:
    def __init__(self, rng):
        self.rng = rng
        self.k = 0
        self.strict = True

    def probe(self, v=None):
        self.k += 1
        return 'p("t%d", %s)' % (self.k, v if v is not None else self.rng.choice(VALS))

    def num(self):
        return self.probe(self.rng.choice(['0', '1', '2', '0.5']))

    def expr(self, d):
        r = self.rng
        if d == 0:
            return self.probe()
        k = r.random()
        if k < 0.25:
            return '(%s %s %s)' % (self.expr(d - 1), r.choice(['+', '-', '*', '==', '!=', '<', '&', '**', '%', '/']), self.expr(d - 1))
        if k < 0.4:
            self.strict = False
            return '(%s %s %s)' % (self.expr(d - 1), r.choice(['||', '&&', OR_W, AND_W]), self.expr(d - 1))
        if k < 0.5:
            return '%s%s' % (r.choice(['-', '!', '~']), self.expr(d - 1))
        if k < 0.6:
            return '[%s]' % ', '.join(self.expr(d - 1) for _ in range(r.randint(1, 3)))
        if k < 0.68:
            return '{a: %s, b: %s}' % (self.expr(d - 1), self.expr(d - 1))
        if k < 0.78:
            return 'f%d(%s)' % ((2, ', '.join(self.expr(d - 1) for _ in range(2))) if r.random() < 0.5 else (3, ', '.join(self.expr(d - 1) for _ in range(3))))
        if k < 0.85:
            return '%s[%s]' % (self.probe('arr'), self.num())
        if k < 0.9:
            return '(%s[%s] = %s)' % (self.probe('arr'), self.num(), self.expr(d - 1))
        if k < 0.94:
            return '(%s.k = %s)' % (self.probe('ob'), self.expr(d - 1))
        if k < 0.97:
            return '(x = %s)' % self.expr(d - 1)
        return '(%s)' % self.expr(d - 1)


def run(env, tier, seed, broken=None):
    rng = sub_rng(seed, 'C14')
    cases = corpus_cases('C14')
    meta = {}
    n = 0
    # short-circuit and truthiness: every value as left operand of || and &&, as condition, under !
    for v in VALS:
        for op in ['||', '&&', OR_W, AND_W]:
            cases.append({'id': 'l%d' % n, 'src': PRE + '%s p("L", %s) %s p("R", 7);\n' % (PRINT, v, op)}); n += 1
        cases.append({'id': 'l%d' % n, 'src': PRE + '%s !p("L", %s);\n%s (p("C", %s)) { %s "T"; } %s { %s "F"; }\n' % (PRINT, v, IF, v, PRINT, ELSE, PRINT)}); n += 1
    y1, y2 = '\u09df', '\u09af\u09bc'
    cases.append({'id': 'l%d' % n, 'src': PRE + '%s o = {%s: p("first", 1), k: p("second", 2), %s: p("third", 3)};\n%s %s(o);\n%s o.%s + o.%s;\n' % (VAR, y1, y2, PRINT, LEN.replace(LEN, VALUES), PRINT, y1, y2)}); n += 1
    cases.append({'id': 'l%d' % n, 'src': PRE + 'x = arr[p("three", 0)] = undefinedName = p("four", 0) || p("five", "v") && p("six", %s);\n' % NIL}); n += 1
    cases.append({'id': 'l%d' % n, 'src': PRE + 'undefinedName = p("only", 1);\n%s "after";\n' % PRINT}); n += 1
    cases.append({'id': 'l%d' % n, 'src': PRE + '%s f2(p("a", 1), zz = p("b", 2));\n' % PRINT}); n += 1
    truthy_ids = list(range(len(corpus_cases('C14')), len(cases)))
    # every operator with a LITERAL on one side (the constants a fast path would single out: 0, 1, 2, 3, -1, 0.5, "2", true) and an
    # operand with an effect on the other - bare, parenthesised, doubly parenthesised, an assignment: evaluated exactly once
    for op in ['+', '-', '*', '/', '%', '**', '<', '<=', '>', '>=', '==', '!=', '&', '|', '^', '<<', '>>', '||', '&&']:
        for lit in ['0', '1', '2', '3', '-1', '0.5', '"2"', TRUE]:
            for shape in ['p("A", 3)', '(p("A", 3))', '((p("A", 3)))', '(x = x + 1)', 'arr[p("I", 1)]', '(ob.k = ob.k + 1)']:
                for e in ('%s %s %s' % (shape, op, lit), '%s %s %s' % (lit, op, shape)):
                    if tier == 'thorough' or zlib.crc32(repr((seed, e)).encode()) % 3 == 0:
                        cases.append({'id': 'k%d' % n, 'src': PRE + '%s %s;\n%s [x, ob.k];\n' % (PRINT, e, PRINT)}); n += 1
    for _ in range(5000 if tier == 'quick' else 150000):
        g = G(rng)
        e = g.expr(rng.randint(1, 3 if tier == 'quick' else 4))
        cid = 'e%d' % n; n += 1
        cases.append({'id': cid, 'src': PRE + '%s %s;\n' % (PRINT, e)})
        meta[cid] = (g.strict, g.k)
    mism, ri, rm = diff_runs(env, cases)
    nontriv = set()
    falsy = {'0', '""', NIL, FALSE}
    for c in cases:
        r = ri[c['id']][0]
        out = r['stdout'].decode('utf-8', 'replace')
        nontriv.add(out)
        m = meta.get(c['id'])
        if m and m[0]:
            tags = [int(x[1:]) for x in re.findall(r'^t\d+$', out, re.M)]
            if tags != sorted(tags) or len(set(tags)) != len(tags):
                mism.append({'case': c, 'reason': 'probes ran out of source order or twice: %s' % tags}); continue
            if r['status'] == 0 and tags != list(range(1, m[1] + 1)):
                mism.append({'case': c, 'reason': 'a strict expression finished but probes %s of %d ran' % (tags, m[1])})
    # own predicate for short-circuit: R printed iff decided by truthiness
    for c in cases:
        if c['id'].startswith('l') and ' p("R", 7)' in c['src']:
            last = c['src'].split('\n')[-2]
            v = last[len(PRINT) + len(' p("L", '):last.index(') ')]
            op = last.split(') ')[1].split(' ')[0]
            isor = op in ('||', OR_W)
            out = ri[c['id']][0]['stdout'].decode('utf-8', 'replace').split('\n')
            ran_r = 'R' in out
            if ran_r != ((v in falsy) == isor):
                mism.append({'case': c, 'reason': 'right operand of %s %s although the left value %s is %s' % (op, 'ran' if ran_r else 'did not run', v, 'falsy' if v in falsy else 'truthy')})
    return {'evaluations': len(cases), 'distinct_nontrivial': len(nontriv), 'mismatches': mism,
            'rule': 'each of %d probe values (every runtime kind, falsy and truthy) as left operand of the four logical spellings, under !, as a condition; random expression trees to depth %d over binary, logical, unary, array/object literal, call, index, indexed store, property store, assignment, group with probe leaves; non-trivial = distinct traces' % (len(VALS), 3 if tier == 'quick' else 4),
            'samples': [cases[-1]['src'].split('\n')[-2][:200]]}
