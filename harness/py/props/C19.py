"""C19: exit status and output streams classify every run correctly.  Real process runs: 0-3 arguments,
every kind of file name / extension, missing and unreadable files, programs of each outcome class with all
stdin contents of 0-4 lines with and without trailing newline, through a pipe and from a file."""
import itertools, os
import core, lang, pools
from lang import *  # noqa
from props.common import sub_rng, diff_runs, replay_generic, corpus_cases
from props.C06 import FAULTS, POSITIONS, PRE, POST


def replay(env, mm):
    if (mm.get('case') or {}).get('cli'):
        print('command-line case:', mm['case']); print(mm['reason']); return False
    return replay_generic(env, mm)


def cli_model_line(cid, args, file_ok, src, stdin):
    a = '|'.join(core.field(core.cps_of(x)) for x in args) if args else '-'
    spec = ('ok:' + core.field(core.cps_of(src))) if file_ok else 'err'
    return 'cli\t%s\t%s\t%s\t%s' % (cid, a, spec, core.field(core.cps_of(stdin)))


def run(env, tier, seed, broken=None):
    rng = sub_rng(seed, 'C19')
    mism = []
    # ---- command lines
    prog = '%s 1;\n' % PRINT
    gcs, mls, info = [], [], {}

    def cli(cid, argv, fname='p.bn', src=prog, exists=True, readable=True, mkdir=False, stdin=''):
        g = {'id': cid, 'mode': 'argv', 'argv': argv, 'fname': fname, 'src_b64': core.b64(src.encode()), 'stdin_b64': core.b64(stdin.encode())}
        if not exists: g['no_file'] = True
        if mkdir: g['mkdir'] = True
        if not readable: g['chmod'] = 0o000
        gcs.append(g)
        args = [fname if a == '{SCRIPT}' else a for a in argv]
        mls.append(cli_model_line(cid, args, exists and readable and not mkdir, src, stdin))
        info[cid] = (argv, fname, exists, readable, mkdir)
    cli('a0', [], stdin='1+1;\n')
    cli('a1', ['{SCRIPT}'])
    cli('a2', ['{SCRIPT}', 'x']); cli('a3', ['{SCRIPT}', 'x', 'y']); cli('a4', ['x.bn', 'y.bn'], exists=False)
    for i, fn in enumerate(['p.BN', 'p.bn.txt', 'p', '.bn', 'd.bn/x', 'dir/p.bn', 'a.b.bn', 'p.bnn', 'p.b', 'bn', 'p.bn ', 'নাম.bn', 'x.y/z.bn', '..bn', 'p.']):
        cli('e%d' % i, ['{SCRIPT}'], fname=fn)
    for i, a in enumerate(['-h', '--help', '--', '-x', '-', '-d.bn']):
        cli('f%d' % i, [a], exists=False)
    cli('f9', ['{SCRIPT}'], fname='-d.bn'); cli('f10', ['--', '{SCRIPT}']); cli('f11', ['-h', '{SCRIPT}'])
    cli('m0', ['missing.bn'], exists=False); cli('m1', ['{SCRIPT}'], fname='d.bn', mkdir=True)
    root = os.geteuid() == 0
    if not root:
        cli('m2', ['{SCRIPT}'], readable=False)
    ri = env.run_impl(gcs)
    rm = env.run_model(mls, need_oracle=False)
    for g in gcs:
        r = ri[g['id']][0]
        why = core.compare_run(rm[g['id']], r)
        if why:
            mism.append({'case': {'id': g['id'], 'cli': True, 'argv': g['argv'], 'fname': g['fname']}, 'reason': why})
        argv, fname, exists, readable, mkdir = info[g['id']]
        # own predicate: >1 argument or a bad extension -> 64 with a message, nothing executed; unreadable -> non-zero, message
        if len(argv) > 1 and (r['status'] != 64 or b'1\n' == r['stdout']):
            mism.append({'case': {'id': g['id'], 'cli': True, 'argv': argv}, 'reason': 'more than one argument: status %s stdout %r' % (r['status'], r['stdout'][:40])})
        if len(argv) == 1 and argv[0] in ('{SCRIPT}', 'missing.bn') and (not exists or mkdir or not readable) and (r['status'] == 0 or r['stderr'] == b'' or r['stdout'] != b'') and fname.endswith('.bn'):
            mism.append({'case': {'id': g['id'], 'cli': True, 'argv': argv, 'fname': fname}, 'reason': 'unreadable file: status %s stderr %r' % (r['status'], r['stderr'][:60])})
    # ---- programs of each outcome class x stdin contents
    stdins = ['', 'a', 'a\n', 'a\nb', '  a  \n\tb\n', 'l1\nl2\nl3\nl4\n', '\n\n', ' \n', 'x y\r\nz\r\n', 'বাংলা ইনপুট\n',
              'abc\n \t ', ' ', '\t', 'a\n ', '\n ', 'a\n\r', '\r', 'a\r', '\u00a0', 'a\n\u3000']      # last lines of blanks only, without a newline
    progs_ = {
        'clean': '%s "s";\n%s %s();\n%s %s("p> ");\n%s %s("q> ") + "!";\n%s "e";\n' % (PRINT, PRINT, INPUT, PRINT, INPUT, PRINT, INPUT, PRINT),
        'lexerr': '%s "s";\n@\n%s %s();\n' % (PRINT, PRINT, INPUT),
        'synerr': '%s "s";\n%s %s();\n%s (;\n' % (PRINT, PRINT, INPUT, PRINT),
        'rterr1': '%s "s";\n%s %s();\n%s 1 / 0;\n%s %s();\n' % (PRINT, PRINT, INPUT, PRINT, PRINT, INPUT),
        'rterr2': '%s nope;\n%s %s();\n' % (PRINT, PRINT, INPUT),
        'eof': '%s %s();\n%s %s();\n%s %s();\n%s %s();\n%s %s();\n%s "done";\n' % ((PRINT, INPUT) * 5 + (PRINT,)),
        # order on stdout of printed lines and prompts, inside loops, functions and nested loops, small and large volumes
        'loopio': '%s i = 0;\n%s (i < 3) {\n  %s "step " + i;\n  %s v = %s("n? ");\n  %s "got " + v;\n  i = i + 1;\n}\n%s "end";\n' % (VAR, WHILE, PRINT, VAR, INPUT, PRINT, PRINT),
        'forio': '%s (%s i = 0; i < 3; i = i + 1) {\n  %s "step " + i;\n  %s "got " + %s("n? ");\n}\n%s "end";\n%s %s("last? ");\n' % (FOR, VAR, PRINT, PRINT, INPUT, PRINT, PRINT, INPUT),
        'fnio': '%s ask(k) { %s "ask " + k; %s %s("k? "); }\n%s (%s i = 0; i < 2; i = i + 1) { %s j = 0; %s (j < 2) { %s ask(i * 2 + j); j = j + 1; } }\n%s "end";\n' % (FUN, PRINT, RETURN, INPUT, FOR, VAR, VAR, WHILE, PRINT, PRINT),
        'bigio': '%s i = 0;\n%s (i < 400) { %s "a line of some length " + i; i = i + 1; %s (i == 200) { %s %s("mid? "); } }\n%s %s("after? ");\n' % (VAR, WHILE, PRINT, IF, PRINT, INPUT, PRINT, INPUT),
        'loopfail': '%s i = 0;\n%s (i < 5) { %s "it " + i; %s (i == 2) { %s %s("p? "); %s nope; } i = i + 1; }\n%s "unreached";\n' % (VAR, WHILE, PRINT, IF, PRINT, INPUT, PRINT, PRINT),
        'inputargs': '%s %s(1);\n' % (PRINT, INPUT), 'inputargs2': '%s %s("a", "b");\n' % (PRINT, INPUT),
    }
    cases = corpus_cases('C19')
    n = 0
    for name, src in progs_.items():
        for sin in stdins:
            for sf in (False, True):
                c = {'id': 'p%d' % n, 'src': src, 'stdin': sin, 'klass': name}; n += 1
                cases.append(c)
                if sf:
                    c['stdin_file'] = True
    # texts whose LAST character is where the front end has to decide (a point after digits, a star inside an open comment, an
    # open string, a lone operator ...), with and without a final newline, after zero / one valid statement
    for tail in ['1.', '2 + 1.', 'x = 1.', '\u09e7.', '1.5.', 'a.', '"s', '"', '/* note *', '/* note', '/*', '/', '*', '1 /', '1 *', '@', '1 +', '(1', '{', '[1,', '1..', '!', '-', '=', '<', '&', '|', '1 &', '&&', '//', '// c', '/* c */', 'a', '1', '"s"', ';']:
        for pre in ['', '%s "s";\n' % PRINT]:
            for end in ['', '\n', ' ', '\r\n']:
                cases.append({'id': 'p%d' % n, 'src': pre + ('%s ' % PRINT if tail[0] not in '{/@;' and not tail.startswith('x =') else '') + tail + end, 'stdin': 'a\n', 'klass': 'tail'}); n += 1
    # runtime errors at sampled positions of C06's matrix
    for _ in range(150 if tier == 'quick' else 3000):
        fexp, kind = rng.choice(FAULTS)
        pos = rng.choice(POSITIONS)
        cases.append({'id': 'p%d' % n, 'src': PRE + pos.replace('@', fexp) + '\n' + POST, 'stdin': rng.choice(stdins), 'klass': 'rterr'}); n += 1
    # stdin from a regular file needs the gorunner flag: split
    mm, ri2, rm2 = diff_runs_stdinfile(env, cases)
    mism += mm
    # very long input lines: beyond what the (quadratic-time) model text functions handle quickly; implementation-only predicate
    longs = [('x' * 70000 + '\n  second  \n', b'x' * 70000 + b'\nsecond\n'), ('y' * 65536 + '\nz', b'y' * 65536 + b'\nz\n'), ('w' * 65535 + '\r\nv\r\n', b'w' * 65535 + b'\nv\n')]
    src2 = '%s %s();\n%s %s();\n' % (PRINT, INPUT, PRINT, INPUT)
    gl = [core.file_case('longin%d' % i, src2, sin)[0] for i, (sin, want) in enumerate(longs)]
    rl = env.run_impl(gl)
    for i, (sin, want) in enumerate(longs):
        r = rl['longin%d' % i][0]
        if r['status'] != 0 or r['stdout'] != want or r['stderr'] != b'':
            mism.append({'case': {'id': 'longin%d' % i, 'src': src2, 'stdin': sin[:30] + '...(%d characters)' % len(sin)},
                         'reason': 'a long input line was not delivered whole: status %s, %d bytes of stdout, stderr %r' % (r['status'], len(r['stdout']), r['stderr'][:100])})
    nontriv = set()
    for c in cases:
        r = ri2[c['id']][0]
        nontriv.add((r['status'], r['stdout'], r['stderr'][:30]))
        k = c.get('klass')
        want = {'clean': None, 'lexerr': 65, 'synerr': 65, 'rterr1': 70, 'rterr2': 70, 'rterr': 70, 'loopfail': 70}.get(k)
        if want and r['status'] != want:
            mism.append({'case': c, 'reason': 'class %s ended with status %s' % (k, r['status'])})
        if r['status'] == 0 and r['stderr'] != b'':
            mism.append({'case': c, 'reason': 'status 0 with diagnostics: %r' % r['stderr'][:80]})
        if r['status'] != 0 and r['stderr'] == b'':
            mism.append({'case': c, 'reason': 'status %s with empty stderr' % r['status']})
        if want == 65 and r['stdout'] != b'':
            mism.append({'case': c, 'reason': 'a rejected text produced output %r' % r['stdout'][:60]})
        if b'[line' in r['stdout'] or b'Error' in r['stdout']:
            mism.append({'case': c, 'reason': 'a diagnostic went to stdout: %r' % r['stdout'][:80]})
    return {'evaluations': len(gcs) + len(cases), 'distinct_nontrivial': len(nontriv), 'mismatches': mism,
            'rule': 'argv of length 0-3; 15 script names (extensions, dot files, directories in the path); missing file, directory named d.bn%s; 8 programs of each outcome class x 10 stdin contents (0-4 lines, with/without final newline, blanks, CRLF, Bangla) through a pipe and from a file; sampled fault positions; non-trivial = distinct (status, stdout, stderr head)' % ('' if root else ', mode 000'),
            'samples': [progs_['clean'], stdins[4]], 'root_skips_mode_000': root}


def diff_runs_stdinfile(env, cases):
    """like common.diff_runs but honours c['stdin_file']"""
    gcs, mls = [], []
    for c in cases:
        g, m = core.file_case(c['id'], c['src'], c.get('stdin', ''))
        if c.get('stdin_file'):
            g['stdin_file'] = True
        gcs.append(g); mls.append(m)
    ri = env.run_impl(gcs)
    rm = env.run_model(mls)
    mism = []
    for c in cases:
        why = core.compare_run(rm[c['id']], ri[c['id']][0])
        if why:
            mism.append({'case': c, 'reason': why, 'impl_stdout': ri[c['id']][0]['stdout'].decode('utf-8', 'replace')[-300:],
                         'impl_stderr': ri[c['id']][0]['stderr'].decode('utf-8', 'replace')[-300:], 'model': rm[c['id']]})
    return mism, ri, rm
