"""helpers shared by the property modules"""
import json, os, random
import core
import kernel
import lang
lang_clock = lang.CLOCK


def sub_rng(seed, tag):
    return random.Random('%d/%s' % (seed, tag))


def diff_runs(env, cases, fuel=200000, seed=0, timeout_ms=5000, need_oracle=True, keep=60, confirm=True):
    """cases: list of dicts {id, src, stdin?, kind?}.  Runs implementation and model on each,
    returns (mismatches, impl results, model results)."""
    gcs, mls = [], []
    for c in cases:
        if c.get('mode') == 'repl':
            g, m = core.repl_case(c['id'], c['src'])
        else:
            g, m = core.file_case(c['id'], c['src'], c.get('stdin', ''), timeout_ms=c.get('timeout_ms', 0), repeat=c.get('repeat', 0))
        gcs.append(g); mls.append(m)
    ri = env.run_impl(gcs, timeout_ms=timeout_ms)
    rm = env.run_model(mls, fuel=fuel, seed=seed, need_oracle=need_oracle)
    mism = []
    for c in cases:
        rs = ri.get(c['id'])
        mf = rm.get(c['id'])
        if rs is None or mf is None:
            mism.append({'case': c, 'reason': 'missing result (impl %s, model %s)' % (rs is not None, mf is not None)})
            continue
        if c.get('mode') != 'repl' and not c.get('stdin_file'):
            kernel.offer_run(c['src'], c.get('stdin', ''), mf)
        for r in rs:
            why = core.compare_run(mf, r, mask_clock=lang_clock in (c['src'] if isinstance(c['src'], str) else ''))
            if why:
                if len(mism) < keep:
                    mism.append({'case': c, 'reason': why, 'impl_status': r['status'],
                                 'impl_stdout': r['stdout'].decode('utf-8', 'replace')[-400:],
                                 'impl_stderr': r['stderr'].decode('utf-8', 'replace')[-400:], 'model': mf})
                break
    # confirm before reporting: a difference that does not show again when the same case is run twice more is an accident
    # of the run (a loaded machine cutting a pipe), not a behaviour of the implementation; one that shows again in either
    # re-run stands (a non-deterministic defect shows with high probability)
    if mism and confirm:
        ids = [m['case']['id'] for m in mism if m.get('case')]
        byid = {c['id']: c for c in cases}
        gcs2 = []
        for i in ids:
            c = byid[i]
            if c.get('mode') == 'repl':
                g, _m = core.repl_case(c['id'], c['src'])
            else:
                g, _m = core.file_case(c['id'], c['src'], c.get('stdin', ''), timeout_ms=4 * (c.get('timeout_ms', 0) or timeout_ms), repeat=2)
            if c.get('mode') == 'repl':
                g['repeat'] = 2
            gcs2.append(g)
        again = env.run_impl(gcs2, timeout_ms=4 * timeout_ms)      # four times the time: a loaded machine is not a looping program
        kept = []
        for m in mism:
            c = m.get('case')
            if not c or c['id'] not in again or rm.get(c['id']) is None:
                kept.append(m); continue
            if any(core.compare_run(rm[c['id']], r, mask_clock=lang_clock in (c['src'] if isinstance(c['src'], str) else '')) for r in again[c['id']]):
                kept.append(m)
            else:
                UNCONFIRMED.append(c['id'])
        mism = kept
    return mism, ri, rm


UNCONFIRMED = []


def replay_generic(env, mm):
    c = mm.get('case')
    if not c:
        print('nothing to replay: ' + mm.get('reason', json.dumps(mm)[:300]))
        return False
    mism, ri, rm = diff_runs(env, [c])
    r = ri[c['id']][0]
    print('source:\n' + c['src'])
    print('implementation: status %s\nstdout: %r\nstderr: %r' % (r['status'], r['stdout'][-500:], r['stderr'][-500:]))
    print('model: %s' % rm.get(c['id']))
    if mism:
        print('STILL DIFFERS: ' + mism[0]['reason'])
        return False
    print('agrees now')
    return True


def corpus_cases(pid):
    """minimised past failures: run first"""
    d = os.path.join(core.ROOT, 'corpus', pid)
    out = []
    if os.path.isdir(d):
        for f in sorted(os.listdir(d)):
            if f.endswith('.json'):
                c = json.load(open(os.path.join(d, f), encoding='utf-8'))
                out.append({'id': c['id'], 'src': c['src'], 'stdin': c.get('stdin', ''), 'note': c.get('note', '')})
    return out
