"""C08: the front end is total, accepts exactly the documented language, runs nothing else.
Streams: strings over a lexical-fragment alphabet, token sequences, every prefix of valid programs
extended by every token kind, mutated and deeply nested texts, invalid UTF-8; process runs of rejected
multi-line texts (stdout empty, status 65, diagnostic line within the text)."""
import itertools, re
import core, lang, progs
from lang import *  # noqa
from front import diff_front, replay_front
from props.common import sub_rng, diff_runs, replay_generic


def replay(env, mm):
    return replay_front(env, mm) if (mm.get('case') or {}).get('front') else replay_generic(env, mm)


FRAGS = ['1', '"s"', 'a', 'b', '(', ')', '[', ']', '{', '}', ',', '.', ';', ':', '=', '||', '&&', '|', '^', '&', '==', '<', '<<', '+', '*', '**', '!', '-', '~',
         FUN, VAR, FOR, IF, ELSE, WHILE, TRUE, NIL, PRINT, RETURN, BREAK, CONTINUE, LEN, '\n', ' ', '//', '/*', '*/', '"', '/', '_', '৫', '.5', '@', '%', '!=', '>=']
TOKS = ['1', '"s"', 'a', 'b', '(', ')', '[', ']', '{', '}', ',', '.', ';', ':', '=', '||', '&&', '|', '==', '<', '+', '*', '**', '!', '-',
        FUN, VAR, FOR, IF, ELSE, WHILE, TRUE, PRINT, RETURN, BREAK, LEN]


def run(env, tier, seed, broken=None):
    rng = sub_rng(seed, 'C08')
    texts = []
    for n in (1, 2):
        for t in itertools.product(FRAGS, repeat=n):
            texts.append(' '.join(t))
    if tier == 'thorough':
        for t in itertools.product(FRAGS, repeat=3):
            texts.append(' '.join(t))
    glue = ['1', '.', 'a', '"', '/', '*', '=', '<', '&', '|', '!', ';', '(', ')', '৫', '\n', '_', '@']
    for n in (1, 2, 3):
        for t in itertools.product(glue, repeat=n):
            texts.append(''.join(t))
    for pre in [PRINT + ' a + ', 'x = ', FUN + ' f(', IF + ' (', '{ ', 'a[', 'o.', 'f(1, ']:
        for tail in ['1.', '1', '"s', '/*', 'a.', '1.5', '', '(', '{', '[', '-', '!']:
            texts.append(pre + tail)
    for np in (254, 255, 256, 257, 300):
        ps = ['p%d' % i for i in range(1, np + 1)]
        texts.append('%s f(%s) { %s p1; }' % (FUN, ', '.join(ps), RETURN))
        texts.append('%s f(%s\n) { %s p1; }' % (FUN, ', '.join(ps), RETURN))
        texts.append('%s f(%s\n, extra) { }' % (FUN, ',\n'.join(ps)))
        # the grammar bounds parameters only: arguments, elements, properties, declarators, statements are unbounded
        nums = ', '.join(str(i) for i in range(1, np + 1))
        texts += ['f(%s);' % nums, '%s %s(%s);' % (PRINT, MAX, nums), 'f(1)(%s);' % nums, '%s [%s];' % (PRINT, nums), 'x = [%s][0];' % nums,
                  '%s {%s};' % (PRINT, ', '.join('k%d: %d' % (i, i) for i in range(1, np + 1))), '%s %s;' % (VAR, ', '.join('v%d = %d' % (i, i) for i in range(1, np + 1))),
                  '{ ' + '1; ' * np + '}', 'f(%s' % nums, '[%s' % nums]
    texts += ['\ufeff%s 1;' % PRINT, '\ufeff', '\ufeffx', '\ufeff\n1;', '1;\ufeff', '\ufeff\ufeff1;', '\u200b1;', '\ufffe1;']
    for sp in ['\x00', '\u00a0', '\u2028', '\x0b']:
        texts += ['%s 1; // c %s (\n%s 2;' % (PRINT, sp, PRINT), '%s 1; /* c %s ( */ %s 2;' % (PRINT, sp, PRINT), '%s "a%sb";' % (PRINT, sp), 'x =%s1;' % sp, 'x = %s1;' % sp, 'x = 1 %s;' % sp]
    # every built-in name and every keyword in every binding position (declarator 1..3 of a list, for-initialiser,
    # function name, parameter, assignment target, property name, object key, label of a call)
    for nm in list(lang.NAT.values()) + list(lang.KW.values()):
        for t in ['%s @;', '%s @ = 1;', '%s a = 1, @ = 2;', '%s a, @;', '%s a = 1, b = 2, @ = 3;', '%s a = 1, @ = 2, c = 3;', '%s @ = 1, b = 2;',
                  FOR + ' (%s @ = 0; 0; ) {}', FOR + ' (%s i = 0, @ = 1; 0; ) {}', FOR + ' (%s i = 0, j = 1, @; 0; ) {}']:
            texts.append((t % VAR).replace('@', nm))
        for t in [FUN + ' @() {}', FUN + ' f(@) {}', FUN + ' f(a, @) {}', FUN + ' f(a, @, c) {}', '@ = 1;', 'o.@;', 'o.@ = 1;', PRINT + ' {@: 1};', PRINT + ' {a: 1, @: 2};',
                  '@(1);', '{ ' + FUN + ' @() {} }', FUN + ' g() { ' + FUN + ' @() {} }', FUN + ' g() { ' + VAR + ' a = 1, @ = 2; }']:
            texts.append(t.replace('@', nm))
    # look-alikes of every keyword and built-in name (other normalisation form, joiner inside, mark appended, character dropped
    # or doubled): ordinary identifiers under the documented grammar, in binding and in use position
    for nm in lang.near_words():
        texts += ['%s %s = 1; %s %s;' % (VAR, nm, PRINT, nm), nm + ';', '%s f(%s) { %s %s; }' % (FUN, nm, RETURN, nm), '%s (1) 1; %s 2;' % (IF, nm)]
    # declarator lists: every pattern of initialised / uninitialised declarators up to 4, initialisers that span lines
    # (array and object literals may), so that each declarator's own initialiser and line end up in the tree
    for k in (1, 2, 3, 4):
        for pat in itertools.product([0, 1, 2], repeat=k):
            ds = []
            for j, kind in enumerate(pat):
                nm = 'v%d' % j
                ds.append(nm if kind == 0 else '%s = %d' % (nm, j + 10) if kind == 1 else '%s = [%d,\n  %d]' % (nm, j, j + 1))
            texts.append('%s %s;' % (VAR, ', '.join(ds)))
            if k <= 3:
                texts.append('%s (%s %s; 0; ) {}' % (FOR, VAR, ', '.join(ds)))
    texts += ['%s o = {k:\n 1}, p = 2, q;' % VAR, '%s a = [1,\n2,\n3], b = [4], a = [5];' % VAR, '%s a = f(\n1), b;' % VAR, '%s a = (\n1), b;' % VAR, '%s a = 1,\n b = 2;' % VAR, '%s a = [1],\n b = 2;' % VAR]
    # token sequences: depth-first, all of length <= 3 (4 in thorough), random of length 4..14
    for n in (3,) if tier == 'quick' else (3, 4):
        for t in itertools.product(TOKS, repeat=n):
            if n == 3 or rng.random() < 0.25:
                texts.append(' '.join(t))
    for _ in range(20000 if tier == 'quick' else 300000):
        texts.append(' '.join(rng.choice(FRAGS) for _ in range(rng.randint(4, 14))))
    # prefixes of valid programs extended by every token
    nprog = 60 if tier == 'quick' else 1500
    for i in range(nprog):
        p = progs.random_program(sub_rng(seed, 'C08p%d' % i), 4, 2, fault_rate=0)
        toks = p.split()
        for k in range(0, len(toks) + 1, max(1, len(toks) // 12)):
            pre = ' '.join(toks[:k])
            texts.append(pre)
            for t in rng.sample(TOKS, 6):
                texts.append(pre + ' ' + t)
    # mutated programs (multi-line, so that lines matter)
    for i in range(1500 if tier == 'quick' else 30000):
        p = progs.random_program(sub_rng(seed, 'C08m%d' % i), 6, 2, fault_rate=0)
        toks = re.split(r'( |\n)', p)
        if len(toks) > 3:
            j = rng.randrange(len(toks))
            r = rng.random()
            if r < 0.4: del toks[j]
            elif r < 0.8: toks.insert(j, rng.choice(FRAGS))
            else: toks[j] = rng.choice(FRAGS)
        texts.append(''.join(toks))
    # deep nesting (kept within what the model's fuel and the OCaml stack handle)
    for d in (10, 100, 1000, 1500):
        texts += ['(' * d + '1' + ')' * d + ';', '[' * d + ']' * d + ';', '{' * d + '}' * d, '-' * d + '1;', '(' * d, 'a' + '[0]' * d + ';',
                  (IF + ' (1) ') * d + '1;', 'a = ' * d + '1;', '!' * d + TRUE + ';']
    mism, gd, acc = diff_front(env, texts)
    # the property's own clauses on the implementation: accepted <=> no diagnostic; diagnostics carry a line within the text
    nontriv = set()
    for i, s in enumerate(texts):
        g = gd.get('t%d' % i)
        if not g:
            continue
        items = core.parse_stderr(g['stderr'])
        nontriv.add((g['had_error'], tuple(x.split(':')[2] if x.count(':') >= 2 else x for x in items[:2])))
        if g['had_error'] != (len(items) > 0):
            mism.append({'case': {'id': 't%d' % i, 'src': s, 'front': True}, 'reason': 'error flag %s but %d diagnostics' % (g['had_error'], len(items))})
        nl = s.count('\n') + 1
        for it in items:
            if it[0] in 'LS':
                ln = int(it.split(':')[1])
                if not (1 <= ln <= nl):
                    mism.append({'case': {'id': 't%d' % i, 'src': s, 'front': True}, 'reason': 'diagnostic line %d outside the text (%d lines)' % (ln, nl)})
    # deep nesting beyond the model: only Go's classification and absence of a crash
    deep = []
    for d in (10000,):
        deep += ['(' * d + '1' + ')' * d + ';', '{' * d + '}' * d, '(' * d, '[' * d]
    gd2 = env.run_godump('parse', [{'id': 'd%d' % i, 'cps': core.cps_of(s)} for i, s in enumerate(deep)])
    for i, s in enumerate(deep):
        g = gd2.get('d%d' % i)
        if g is None or g.get('panic'):
            mism.append({'case': {'id': 'd%d' % i, 'src': s[:50] + '...', 'front': True}, 'reason': 'front end failed on nesting depth 10000: %s' % (g and g.get('panic'))})
    # (v) invalid UTF-8 / NUL bytes and (vi) rejected multi-line texts through the real process: nothing runs
    cases = []
    for i, b in enumerate([b'\xff', b'\xc3(', b'a\x00b;', b'\xe0\xa6', PRINT.encode() + b' "\xff";\n', b'\xf0\x9f\x98\x80;', b'\xed\xa0\x80']):
        cases.append({'id': 'u%d' % i, 'src': b})
    cases.append({'id': 'u90', 'src': '\ufeff%s "first";\n' % PRINT}); cases.append({'id': 'u91', 'src': '\ufeff'}); cases.append({'id': 'u92', 'src': '%s 1;\n\ufeff%s 2;\n' % (PRINT, PRINT)})
    bad_tail = ['@', '\ufeff', '\u200b', '\u00a0', '1 +;', '"open', '/* open', VAR + ' 1;', ') ;', LEN + ' = ;', '1 = 2;', FUN + ' ' + LEN + '() {}', VAR + ' a = 1\n;']
    for i, t in enumerate(bad_tail):
        cases.append({'id': 'v%d' % i, 'src': '%s "first";\n%s %s("probe>");\n\n%s\n%s "last";\n' % (PRINT, PRINT, INPUT, t, PRINT), 'stdin': 'x\n'})
    mm2, ri, rm = diff_runs(env, cases, need_oracle=False)
    mism += mm2
    for c in cases:
        r = ri[c['id']][0]
        if c['id'].startswith('v') and (r['status'] != 65 or r['stdout'] != b''):
            mism.append({'case': c, 'reason': 'a rejected text was (partly) executed or not classified: status %s stdout %r' % (r['status'], r['stdout'][:80])})
    return {'evaluations': len(texts) + len(deep) + len(cases), 'distinct_nontrivial': len(nontriv), 'mismatches': mism, 'accepted': acc,
            'rule': 'all strings of <= %d pieces over a %d-piece lexical alphabet; token sequences of length 3%s over %d tokens and random ones to 14; prefixes of %d valid programs extended by tokens; mutated multi-line programs; nesting depth to 1500 against the model and 10000 on the implementation alone; invalid UTF-8; rejected texts through the process (nothing runs); non-trivial = distinct (accepted, first diagnostic kinds)' % (2 if tier == 'quick' else 3, len(FRAGS), '' if tier == 'quick' else '-4', len(TOKS), nprog),
            'samples': [texts[500], texts[-20][:80]], 'unmodelled_skipped': len(deep)}
