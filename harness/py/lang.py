import os
"""Spellings of keywords and built-in names, read code point by code point from
/repo's sources on every run (never typed: two keywords contain U+09DF, which is not NFC)."""
import re, os, struct

REPO = os.environ.get('BORNO_REPO', '/repo')   # default: the repository itself; tools/seedtest.py points the checks at a scratch worktree


def load():
    """keyword and built-in spellings, code point by code point, from the MODEL's tables (coq/Model/Token.v,
    Value.v) - which the table obligations tie to the Go source on every run.  Reading them from the model keeps
    the generators working on a source tree whose tables have been changed (the change then shows as a difference)."""
    root = os.path.dirname(os.path.dirname(os.path.dirname(os.path.abspath(__file__))))
    tok = open(os.path.join(root, 'coq', 'Model', 'Token.v'), encoding='utf-8').read()
    m = re.search(r'Definition keywords .*?:=\s*\[(.*?)\]\.', tok, re.S)
    kw = {}
    for cps, kind in re.findall(r'\(\[([0-9; ]+)\],\s*T(\w+)\)', m.group(1)):
        kw.setdefault(kind, ''.join(chr(int(x)) for x in cps.split(';')))
    val = open(os.path.join(root, 'coq', 'Model', 'Value.v'), encoding='utf-8').read()
    m = re.search(r'Definition native_name .*?end\.', val, re.S)
    nat = {}
    for name, cps in re.findall(r'\| N(\w+) => \[([0-9; ]+)\]', m.group(0)):
        nat[name.lower()] = ''.join(chr(int(x)) for x in cps.split(';'))
    return kw, nat


KW, NAT = load()
FUN, VAR, FOR, IF, ELSE, WHILE = KW['FUN'], KW['VAR'], KW['FOR'], KW['IF'], KW['ELSE'], KW['WHILE']
TRUE, FALSE, NIL, PRINT, RETURN, BREAK, CONTINUE = KW['TRUE'], KW['FALSE'], KW['NIL'], KW['PRINT'], KW['RETURN'], KW['BREAK'], KW['CONTINUE']
# the two word spellings of the logical operators (map order in the Go source: the Bangla words)
AND_W = [k for k in [KW['LOGICAL_AND']]][0]
OR_W = [k for k in [KW['LOGICAL_OR']]][0]
LEN, APPEND, REMOVE, DELETE, KEYS, VALUES = NAT['len'], NAT['append'], NAT['remove'], NAT['delete'], NAT['keys'], NAT['values']
ABS, SQRT, POW, SIN, COS, TAN, MIN, MAX, ROUND, INPUT, CLOCK = (NAT['abs'], NAT['sqrt'], NAT['pow'], NAT['sin'], NAT['cos'],
                                                               NAT['tan'], NAT['min'], NAT['max'], NAT['round'], NAT['input'], NAT['clock'])
BN_DIGITS = '০১২৩৪৫৬৭৮৯'


def to_bangla(s):
    return ''.join(BN_DIGITS[ord(c) - 48] if '0' <= c <= '9' else c for c in s)


def to_ascii(s):
    return ''.join(chr(48 + BN_DIGITS.index(c)) if c in BN_DIGITS else c for c in s)


def f64_bits(x):
    return struct.unpack('<Q', struct.pack('<d', x))[0]


def bits_f64(b):
    return struct.unpack('<d', struct.pack('<Q', b))[0]


def near_words():
    """words that LOOK like a keyword or a built-in name but are not spelled like one (other normalisation form, a joiner
    inside, a mark appended, one character dropped or doubled, another script's look-alike): under the documented grammar
    each is an ordinary identifier (or, with a character no identifier may contain, a diagnosed piece), never the keyword"""
    import unicodedata
    out = []
    for w in list(KW.values()) + list(NAT.values()):
        vs = {unicodedata.normalize('NFC', w), unicodedata.normalize('NFD', w), unicodedata.normalize('NFKC', w),
              w[:1] + '\u200d' + w[1:], w[:-1] + '\u200c' + w[-1:], w + '\u09bc', w + '\u0981', w[:-1], w[1:], w + w[-1],
              w.replace('_', ''), w.replace('_', '__'), w.upper(), w.lower(), w.swapcase(), w.capitalize()}
        for x, y in [('\u09df', '\u09af\u09bc'), ('\u09dc', '\u09a1\u09bc'), ('\u09dd', '\u09a2\u09bc'), ('\u09cb', '\u09c7\u09be'),
                     ('\u09cc', '\u09c7\u09d7')]:
            vs.add(w.replace(x, y)); vs.add(w.replace(y, x))
        vs.discard(w)
        out += sorted(v for v in vs if v and v not in KW.values() and v not in NAT.values())
    return sorted(set(out))
