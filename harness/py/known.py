"""KNOWN_FINDINGS.txt: genuine defects recorded rather than repaired.  Each entry names
one concrete failing input by the SHA-1 of its source text (and stdin), so any other
violation of the same property is still reported.  Never written at run time."""
import hashlib, os, re

PATH = os.path.join(os.path.dirname(os.path.dirname(os.path.dirname(os.path.abspath(__file__)))), 'KNOWN_FINDINGS.txt')


def case_key(mm):
    c = mm.get('case') or {}
    src = c.get('src', '') if isinstance(c, dict) else ''
    stdin = c.get('stdin', '') if isinstance(c, dict) else ''
    if not src:
        return None
    return hashlib.sha1((src + '\0' + stdin).encode('utf-8', errors='surrogatepass')).hexdigest()[:16]


def load():
    out = []
    if not os.path.exists(PATH):
        return out
    for line in open(PATH, encoding='utf-8'):
        m = re.match(r'^known: property=(C\d+) case=([0-9a-f]+) (.*)$', line.strip())
        if m:
            out.append((m.group(1), m.group(2), m.group(3)))
    return out


def match(kn, pid, mm):
    k = case_key(mm)
    if k is None:
        return None
    for p, key, what in kn:
        if p == pid and key == k:
            return what
    return None
