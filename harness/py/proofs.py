"""The proof side of a check: table obligations (tie A), the property's theorems,
the axioms they rest on, forbidden vernacular, and (thorough) coqchk."""
import hashlib, json, os, re, subprocess, time
import core

COQ = core.COQ
FORBIDDEN = re.compile(r'\b(Admitted|admit|Axiom|Axioms|Parameter|Parameters|Conjecture|Hypothesis|Variable|Abort|'
                       r'bypass_check|Unset\s+Guard\s+Checking|Unset\s+Positivity\s+Checking|Unset\s+Universe\s+Checking|'
                       r'Admit\s+Obligations|type-in-type|impredicative-set)\b')
TRUSTED = [
    'Coq 8.16.1 kernel (coqc); vm_compute inside proofs; no native_compute',
    'Flocq 4.1.0 definitions (IEEE754.BinarySingleNaN) and Coq standard library',
    'gotrans (go/ast table extractor) for the regenerated tables',
    'extraction with ExtrOcamlBasic only (Extract Inductive for bool, option, unit, list, prod, sumbool, sumor; no Extract Constant), OCaml 4.13.1, harness/ocaml/driver.ml',
    'correspondence harness: gorunner, godump, goref, Python generators/comparators, message->kind table',
    'oracles: libm (Go math.Pow/Sin/Cos/Tan via goref), clock, map-iteration schedule; NFC is modelled (Model/Nfc.v over tables regenerated from the linked x/text)',
    'modelled, not verified: Go compiler/runtime (float64 on amd64, int64 conversion, map iteration), fmt, strconv, math, unicode, x/text/norm, bufio, os',
]


def scan_forbidden():
    bad = []
    listed = [l.strip() for l in open(os.path.join(COQ, '_CoqProject')) if l.strip().endswith('.v')]
    for rel in listed:
        if rel.startswith('Gen/'):
            continue
        for p in [os.path.join(COQ, rel)]:
            if not os.path.exists(p):
                continue
            txt = open(p, encoding='utf-8').read()
            # strip comments (non-nested is enough for our sources; nested handled by a small loop)
            out = []
            depth = 0
            i = 0
            while i < len(txt):
                if txt.startswith('(*', i):
                    depth += 1; i += 2; continue
                if txt.startswith('*)', i) and depth > 0:
                    depth -= 1; i += 2; continue
                if depth == 0 and txt[i] == '"':
                    # a string literal: its content is data, not vernacular ("" is an escaped quote)
                    j = i + 1
                    while j < len(txt):
                        if txt[j] == '"':
                            if txt.startswith('""', j):
                                j += 2; continue
                            break
                        j += 1
                    out.append('""'); i = j + 1; continue
                if depth == 0:
                    out.append(txt[i])
                i += 1
            code = ''.join(out)
            in_section = 0
            for ln in code.split('\n'):
                s = ln.strip()
                if re.match(r'^Section\b', s): in_section += 1
                if re.match(r'^End\b', s) and in_section > 0: in_section -= 1
                for m in FORBIDDEN.finditer(ln):
                    w = m.group(1)
                    if w in ('Variable', 'Hypothesis') and in_section > 0:
                        continue
                    bad.append('%s: %s' % (os.path.relpath(p, COQ), s[:80]))
    return bad


def make_target(t):
    r = core.sh(['make', t], cwd=COQ, check=False, timeout=7200)
    return r.returncode == 0, (r.stdout.decode(errors='replace') + r.stderr.decode(errors='replace'))[-3000:]


def theorem_names(path):
    txt = open(path, encoding='utf-8').read()
    return re.findall(r'^\s*(?:Theorem|Lemma|Corollary)\s+([A-Za-z0-9_\']+)', txt, re.M)


def print_assumptions(pid, names):
    d = os.path.join(core.BUILD, 'assum')
    os.makedirs(d, exist_ok=True)
    # cached per state of the compiled property file (it is rebuilt whenever anything below it changes)
    vo = os.path.join(COQ, 'Properties', pid + '.vo')
    st = os.stat(vo)
    key = hashlib.sha256(('%s|%d|%d|%s' % (vo, st.st_size, st.st_mtime_ns, ','.join(names))).encode()).hexdigest()[:16]
    cache = os.path.join(d, 'assum_%s_%s.json' % (pid, key))
    if os.path.exists(cache):
        return json.load(open(cache)), True
    res, ok = _print_assumptions(pid, names, d)
    if ok:
        json.dump(res, open(cache, 'w'))
    return res, ok


def _print_assumptions(pid, names, d):
    p = os.path.join(d, 'Assum_%s.v' % pid)
    with open(p, 'w') as f:
        f.write('From Borno Require Import Properties.%s.\n' % pid)
        for n in names:
            f.write('Print Assumptions %s.\n' % n)
    r = core.sh(['coqc', '-Q', COQ, 'Borno', p], check=False, timeout=1800)
    txt = r.stdout.decode(errors='replace')
    res = {}
    blocks = re.split(r'(?=Closed under the global context|Axioms:)', txt)
    blocks = [b for b in blocks if b.strip()]
    for n, b in zip(names, blocks):
        if b.startswith('Closed under'):
            res[n] = []
        else:
            res[n] = sorted(set(re.findall(r'^([A-Za-z_][\w\.\']*)\s*:', b, re.M)))
    return res, r.returncode == 0


def check_property(pid, tier, ok_coq, coq_log):
    out = {'broken': [], 'log': '', 'obligations': 0, 'discharged': 0, 'theorems': [], 'axioms': {}, 'tables': [],
           'checker_cmd': 'cd /verif/coq && coq_makefile -f _CoqProject -o Makefile && make   (coqc 8.16.1, full .vo build)',
           'trusted_base': list(TRUSTED), 'assumptions': []}
    bad = scan_forbidden()
    if bad:
        out['broken'].append('forbidden vernacular: ' + '; '.join(bad[:5]))
    un = unlisted_files()
    if un:
        out['broken'].append('not listed in _CoqProject (never built by make, never scanned): ' + ', '.join(un[:6]))
    tabf = os.path.join(COQ, 'Oblig', 'Tables_%s.v' % pid)
    propf = os.path.join(COQ, 'Properties', '%s.v' % pid)
    if os.path.exists(tabf):
        names = theorem_names(tabf)
        out['tables'] = names
        out['obligations'] += len(names)
        ok, log = make_target('Oblig/Tables_%s.vo' % pid)
        if ok:
            out['discharged'] += len(names)
        else:
            out['broken'].append('Oblig/Tables_%s.v (a table regenerated from the source no longer equals the model\'s)' % pid)
            out['log'] += log
    if os.path.exists(propf):
        names = theorem_names(propf)
        out['theorems'] = names
        out['obligations'] += len(names)
        ok, log = make_target('Properties/%s.vo' % pid)
        if ok:
            out['discharged'] += len(names)
            ax, ok2 = print_assumptions(pid, names)
            out['axioms'] = ax
            allax = sorted(set(a for v in ax.values() for a in v))
            out['assumptions'].append('axioms below the theorems (Print Assumptions): ' + (', '.join(allax) if allax else 'none (closed under the global context)'))
        else:
            out['broken'].append('Properties/%s.v' % pid)
            out['log'] += log
    if not ok_coq and not out['broken']:
        # something else in the development failed to build; it is not this property's
        out['assumptions'].append('note: another part of the Coq development failed to build: ' + coq_log[-300:])
    if tier == 'thorough':
        ok, msg = coqchk_once()
        out['coqchk'] = msg
        if not ok:
            out['broken'].append('coqchk: ' + msg[-300:])
    return out


def coqchk_once():
    """one coqchk -o over the property files per state of the .vo tree (cached)"""
    h = hashlib.sha256()
    vos = []
    for base, dirs, files in os.walk(COQ):
        for f in sorted(files):
            if f.endswith('.vo'):
                p = os.path.join(base, f)
                vos.append(p)
                h.update(p.encode()); h.update(str(os.path.getmtime(p)).encode())
    key = h.hexdigest()[:16]
    cache = os.path.join(core.BUILD, 'coqchk_' + key + '.txt')
    if os.path.exists(cache):
        txt = open(cache).read()
        return txt.startswith('OK'), txt
    mods = []
    pd = os.path.join(COQ, 'Properties')
    if os.path.isdir(pd):
        for f in sorted(os.listdir(pd)):
            if f.endswith('.vo'):
                mods.append('Borno.Properties.' + f[:-3])
    if not mods:
        return True, 'OK (no property files yet)'
    t0 = time.time()
    r = core.sh(['coqchk', '-silent', '-o', '-Q', COQ, 'Borno'] + mods, check=False, timeout=6 * 3600)
    txt = (r.stdout.decode(errors='replace') + r.stderr.decode(errors='replace'))
    res = ('OK' if r.returncode == 0 else 'FAIL') + ' coqchk %.0fs\n' % (time.time() - t0) + txt[-4000:]
    open(cache, 'w').write(res)
    return r.returncode == 0, res


def unlisted_files():
    """every .v under Model/Spec/Proofs/Oblig/Properties must be listed in _CoqProject (make and the scan only see those)"""
    listed = set(l.strip() for l in open(os.path.join(COQ, '_CoqProject')) if l.strip().endswith('.v'))
    out = []
    for d in ('Model', 'Spec', 'Proofs', 'Oblig', 'Properties'):
        for f in sorted(os.listdir(os.path.join(COQ, d))):
            if f.endswith('.v') and '%s/%s' % (d, f) not in listed:
                out.append('%s/%s' % (d, f))
    return out
