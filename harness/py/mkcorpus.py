#!/usr/bin/env python3
"""add a minimised failing case to the corpus: mkcorpus.py PID NAME NOTE < source   (stdin text via --stdin)"""
import json, os, sys
pid, name, note = sys.argv[1], sys.argv[2], sys.argv[3]
stdin = ''
if '--stdin' in sys.argv:
    stdin = sys.argv[sys.argv.index('--stdin') + 1].encode().decode('unicode_escape')
src = sys.stdin.read()
d = os.path.join('/verif/corpus', pid)
os.makedirs(d, exist_ok=True)
json.dump({'id': 'corpus-' + name, 'src': src, 'stdin': stdin, 'note': note}, open(os.path.join(d, name + '.json'), 'w'), ensure_ascii=False, indent=1)
