"""front-end correspondence: tokens, syntax trees and all diagnostics of lexer and parser,
implementation (godump over the exported API) against the model"""
import core
import kernel


def diff_front(env, texts, prefix='t', keep=40):
    """texts: list of str (or list of code-point lists).  Returns (mismatches, godump results, accepted count)"""
    cps = [t if isinstance(t, list) else core.cps_of(t) for t in texts]
    cases = [{'id': '%s%d' % (prefix, i), 'cps': c} for i, c in enumerate(cps)]
    gd = env.run_godump('both', cases)
    md = env.run_model(['parse\t%s%d\t%s' % (prefix, i, core.field(c)) for i, c in enumerate(cps)], need_oracle=False, case_timeout=40)
    mt = env.run_model(['tokens\t%s%d\t%s' % (prefix, i, core.field(c)) for i, c in enumerate(cps)], need_oracle=False)
    mism = []
    acc = 0
    for i, c in enumerate(cps):
        cid = '%s%d' % (prefix, i)
        g = gd.get(cid); m = md.get(cid); t = mt.get(cid)
        src = ''.join(chr(x) for x in c)
        case = {'id': cid, 'src': src, 'front': True}
        if g is None or m is None or t is None:
            mism.append({'case': case, 'reason': 'missing front-end result'}); continue
        if g.get('panic'):
            mism.append({'case': case, 'reason': 'front end panicked: ' + g['panic'][:200]}); continue
        gt = '\x1f'.join(g.get('tokens') or [])
        if gt != t[0] or str(g['eof_line']) != t[1]:
            if len(mism) < keep:
                mism.append({'case': case, 'reason': 'tokens differ: implementation %s | model %s' % (gt[:300], t[0][:300])})
            continue
        gitems = core.parse_stderr(g['stderr'])
        mitems = m[1].split(' ') if m[1] else []
        gast = g.get('ast', '') if not g['parse_err'] else '-'
        if m[2] == 'parsefuel':
            mism.append({'case': case, 'reason': 'model parser ran out of fuel'}); continue
        if i % 7 == 0:
            kernel.offer_front(src, m)
        if gitems != mitems or gast != m[0]:
            if len(mism) < keep:
                mism.append({'case': case, 'reason': 'parse differs: implementation %s %s | model %s %s' % (gitems[:4], gast[:300], mitems[:4], m[0][:300])})
            continue
        if not g['had_error']:
            acc += 1
    return mism, gd, acc


def replay_front(env, mm):
    c = mm.get('case')
    if not c:
        print('nothing to replay: ' + mm.get('reason', ''))
        return False
    mism, gd, acc = diff_front(env, [c['src']], prefix='rp')
    print('text: %r' % c['src'])
    print('implementation:', gd.get('rp0'))
    if mism:
        print('STILL DIFFERS: ' + mism[0]['reason'])
        return False
    print('agrees now')
    return True
