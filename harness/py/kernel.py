"""Kernel cross-check (DESIGN section 5(5)): a sample of the cases of every run is also evaluated by
vm_compute inside coqc (no extraction, no OCaml in the trusted path) and must give, character for character,
the text the extracted model printed.  Keeps extraction honest."""
import os, re, time
import core

POOL = []          # (mode, fields..., expected text) collected by the correspondence helpers of this run
BAD_WORDS = None


def eligible(src):
    global BAD_WORDS
    if BAD_WORDS is None:
        import lang
        BAD_WORDS = ['**', lang.POW, lang.SIN, lang.COS, lang.TAN, lang.CLOCK]
    return isinstance(src, str) and len(src) < 1500 and not any(w in src for w in BAD_WORDS)


def offer_run(src, stdin, model_fields):
    if len(POOL) < 4000 and eligible(src) and isinstance(stdin, str) and model_fields and not model_fields[0].startswith('noresult'):
        POOL.append(('file', src, stdin, '\t'.join((model_fields + ['', '', ''])[:3])))


def offer_frun(src, stdin, model_fields):
    """a run of the flag-level evaluator (Model/FlagEval.v through FlagCli.frun_file)"""
    if len(POOL) < 4000 and eligible(src) and isinstance(stdin, str) and model_fields and not model_fields[0].startswith('noresult'):
        POOL.append(('ffile', src, stdin, '\t'.join((model_fields + ['', '', ''])[:3])))


def offer_front(src, model_parse_fields):
    if len(POOL) < 4000 and isinstance(src, str) and len(src) < 400:
        POOL.append(('parse', src, '', '\t'.join((model_parse_fields + ['', '', ''])[:3])))


def coq_list(cps):
    return '[' + ';'.join(map(str, cps)) + ']'


def run(n=40, seed=0):
    """returns dict(evaluated, agreed, seconds, error)"""
    import random
    if not POOL:
        return {'evaluated': 0, 'agreed': 0, 'seconds': 0.0}
    rng = random.Random(seed)
    sample = rng.sample(POOL, min(n, len(POOL)))
    d = os.path.join(core.BUILD, 'kernel')
    os.makedirs(d, exist_ok=True)
    path = os.path.join(d, 'Cases_%d.v' % os.getpid())
    with open(path, 'w') as f:
        f.write('From Borno Require Import Base Num Unicode Token Lexer Ast Parser Value Eval Cli Render FlagEval FlagCli.\nOpen Scope N_scope.\n')
        f.write('Definition libm0 (_ : N) (_ _ : f64) : f64 := f_nan.\n')
        f.write('Definition fuel0 : nat := N.to_nat 200000.\n')
        f.write('Definition run1 (mode : N) (src stdin : list N) : list N :=\n  if mode =? 1 then outcome_str (run_file libm0 (f_of_bits 4745084416362086400) (rotate_sched 0) fuel0 src stdin)\n  else if mode =? 2 then outcome_str (frun_file libm0 (f_of_bits 4745084416362086400) (rotate_sched 0) fuel0 src stdin) else parse_str src.\n')
        f.write('Definition cases : list (N * list N * list N * list N) := [\n')
        rows = []
        for mode, src, stdin, exp in sample:
            rows.append('  (%s, %s, %s, %s)' % ({'file': '1', 'ffile': '2'}.get(mode, '0'), coq_list(core.cps_of(src)), coq_list(core.cps_of(stdin)), coq_list([ord(c) for c in exp])))
        f.write(';\n'.join(rows) + '\n].\n')
        f.write('Definition agree (c : N * list N * list N * list N) : bool := let \'(m, s, i, e) := c in str_eqb (run1 m s i) e.\n')
        f.write('Definition verdict := (length cases, length (filter agree cases)).\nEval vm_compute in verdict.\n')
    t0 = time.time()
    r = core.sh(['coqc', '-Q', core.COQ, 'Borno', path], check=False, timeout=1800)
    out = r.stdout.decode(errors='replace')
    m = re.search(r'=\s*\((\d+)%?n?a?t?,\s*(\d+)', out.replace('\n', ' '))
    res = {'evaluated': len(sample), 'agreed': int(m.group(2)) if m else -1, 'seconds': round(time.time() - t0, 1)}
    if r.returncode != 0 or not m:
        res['error'] = (out + r.stderr.decode(errors='replace'))[-500:]
    for ext in ('.v', '.vo', '.vok', '.vos', '.glob'):
        try: os.remove(path[:-2] + ext)
        except OSError: pass
    return res
