import os
"""Shared machinery of the Borno checks: building, running implementation and
model on the same cases, projecting and comparing observables."""
import base64, hashlib, json, os, re, shutil, subprocess, sys, time, unicodedata

ROOT = os.path.dirname(os.path.dirname(os.path.dirname(os.path.abspath(__file__))))   # the checkout this file lives in (/verif, or a snapshot of it)
REPO = os.environ.get('BORNO_REPO', '/repo')   # default: the repository itself; tools/seedtest.py points the checks at a scratch worktree
BUILD = os.path.join(ROOT, 'build')
COQ = os.path.join(ROOT, 'coq')
GOENV = dict(os.environ, GOFLAGS='-mod=mod', GOPROXY='off', GOSUMDB='off', GOTOOLCHAIN='local',
             CGO_ENABLED='0')
JOBS = str(os.cpu_count() or 8)


def log(*a):
    print(*a, file=sys.stderr, flush=True)


def sh(cmd, cwd=None, env=None, timeout=3600, check=True, input=None):
    r = subprocess.run(cmd, cwd=cwd, env=env, timeout=timeout, input=input,
                       stdout=subprocess.PIPE, stderr=subprocess.PIPE)
    if check and r.returncode != 0:
        raise RuntimeError('command failed: %s\n%s\n%s' % (cmd, r.stdout.decode(errors='replace')[-4000:],
                                                          r.stderr.decode(errors='replace')[-4000:]))
    return r


# ---------------------------------------------------------------- building

def _files_under(d, exts):
    out = []
    for base, dirs, files in os.walk(d):
        dirs[:] = [x for x in dirs if x not in ('.git',)]
        for f in files:
            if f.endswith(exts):
                out.append(os.path.join(base, f))
    return sorted(out)


def repo_hash():
    h = hashlib.sha256()
    for p in _files_under(REPO, ('.go', '.mod', '.sum', '.md', '.txt')):
        h.update(p.encode()); h.update(b'\0')
        with open(p, 'rb') as f:
            h.update(f.read())
        h.update(b'\0')
    for p in _files_under(os.path.join(ROOT, 'harness', 'go'), ('.go', '.mod')):
        with open(p, 'rb') as f:
            h.update(f.read())
    return h.hexdigest()[:16]


def build_tools():
    """gorunner, goref, gotrans: independent of /repo"""
    bindir = os.path.join(BUILD, 'bin')
    os.makedirs(bindir, exist_ok=True)
    src = os.path.join(ROOT, 'harness', 'go', 'tools')
    stamp = os.path.join(bindir, '.stamp')
    h = hashlib.sha256()
    for p in _files_under(src, ('.go', '.mod')):
        h.update(open(p, 'rb').read())
    hv = h.hexdigest()
    if os.path.exists(stamp) and open(stamp).read() == hv and all(
            os.path.exists(os.path.join(bindir, t)) for t in ('gorunner', 'goref', 'gotrans')):
        return bindir
    for t in ('gorunner', 'goref', 'gotrans'):
        if os.path.isdir(os.path.join(src, t)):
            sh(['go', 'build', '-o', os.path.join(bindir, t), './' + t], cwd=src, env=GOENV)
    open(stamp, 'w').write(hv)
    return bindir


def build_impl():
    """borno and godump from /repo's current working tree (through private -modfile copies)"""
    hv = repo_hash()
    d = os.path.join(BUILD, 'impl', hv)
    ok = os.path.join(d, '.ok')
    if os.path.exists(ok):
        return d
    # drop older builds
    par = os.path.join(BUILD, 'impl')
    if os.path.isdir(par):
        olds = sorted(os.listdir(par), key=lambda x: os.path.getmtime(os.path.join(par, x)))
        for x in olds[:-4]:
            shutil.rmtree(os.path.join(par, x), ignore_errors=True)
    os.makedirs(d, exist_ok=True)
    shutil.copy(os.path.join(REPO, 'go.mod'), os.path.join(d, 'go.mod'))
    shutil.copy(os.path.join(REPO, 'go.sum'), os.path.join(d, 'go.sum'))
    sh(['go', 'build', '-modfile=' + os.path.join(d, 'go.mod'), '-o', os.path.join(d, 'borno'), '.'],
       cwd=REPO, env=GOENV)
    dd = os.path.join(d, 'dump')
    shutil.copytree(os.path.join(ROOT, 'harness', 'go', 'dump'), dd, dirs_exist_ok=True)
    shutil.copy(os.path.join(REPO, 'go.sum'), os.path.join(dd, 'go.sum'))
    gm = open(os.path.join(dd, 'go.mod')).read().replace('=> /repo', '=> ' + REPO)
    open(os.path.join(dd, 'go.mod'), 'w').write(gm)
    sh(['go', 'build', '-o', os.path.join(d, 'godump'), './godump'], cwd=dd, env=GOENV)
    open(ok, 'w').write(hv)
    return d


def build_coq():
    """full .vo build of the development (no-op when nothing changed) + extraction + driver"""
    gen = os.path.join(COQ, 'Gen', 'GenUnicode.v')
    bindir = build_tools()
    if not os.path.exists(gen):
        os.makedirs(os.path.dirname(gen), exist_ok=True)
        r = sh([os.path.join(bindir, 'goref'), 'unicode'])
        open(gen, 'wb').write(r.stdout)
    if not os.path.exists(os.path.join(COQ, 'Gen', 'GenTables.v')) or not os.path.exists(os.path.join(COQ, 'Gen', 'GenNfc.v')):
        gen_tables()
    if not os.path.exists(os.path.join(COQ, 'Makefile')) or \
            os.path.getmtime(os.path.join(COQ, 'Makefile')) < os.path.getmtime(os.path.join(COQ, '_CoqProject')):
        sh(['coq_makefile', '-f', '_CoqProject', '-o', 'Makefile'], cwd=COQ)
    r = sh(['make', '-j' + JOBS], cwd=COQ, timeout=7200, check=False)
    if r.returncode != 0:
        return False, (r.stdout.decode(errors='replace') + r.stderr.decode(errors='replace'))[-6000:]
    return True, ''


def build_model():
    md = os.path.join(BUILD, 'model')
    os.makedirs(md, exist_ok=True)
    exe = os.path.join(md, 'bornomodel')
    srcs = [os.path.join(COQ, 'Model', f) for f in sorted(os.listdir(os.path.join(COQ, 'Model'))) if f.endswith('.v')]
    srcs += [os.path.join(COQ, 'Extract', 'Extract.v'), os.path.join(ROOT, 'harness', 'ocaml', 'driver.ml'),
             os.path.join(COQ, 'Gen', 'GenUnicode.v')]
    h = hashlib.sha256()
    for p in srcs:
        h.update(open(p, 'rb').read())
    hv = h.hexdigest()
    stamp = os.path.join(md, '.stamp')
    if os.path.exists(exe) and os.path.exists(stamp) and open(stamp).read() == hv:
        return exe
    ed = os.path.join(COQ, 'Extract')
    sh(['coqc', '-Q', '..', 'Borno', 'Extract.v'], cwd=ed, timeout=1800)
    for f in ('bornomodel.ml', 'bornomodel.mli'):
        shutil.copy(os.path.join(ed, f), os.path.join(md, f))
    shutil.copy(os.path.join(ROOT, 'harness', 'ocaml', 'driver.ml'), os.path.join(md, 'driver.ml'))
    sh(['ocamlfind', 'ocamlopt', '-O2', '-w', '-a', '-package', 'unix', '-linkpkg',
        'bornomodel.mli', 'bornomodel.ml', 'driver.ml', '-o', 'bornomodel'], cwd=md, timeout=1800)
    open(stamp, 'w').write(hv)
    return exe


def gen_tables():
    """tie (A): regenerate Gen/GenTables.v from /repo's current sources"""
    bindir = build_tools()
    out = os.path.join(COQ, 'Gen', 'GenTables.v')
    os.makedirs(os.path.dirname(out), exist_ok=True)
    r = sh([os.path.join(bindir, 'gotrans'), REPO], check=False)
    if r.returncode != 0:
        raise RuntimeError('gotrans failed: ' + r.stderr.decode(errors='replace'))
    old = open(out, 'rb').read() if os.path.exists(out) else None
    if old != r.stdout:
        open(out, 'wb').write(r.stdout)
    gen_nfc()
    return out


def gen_nfc():
    """Gen/GenNfc.v: the normalisation tables of the x/text version the interpreter is linked with"""
    out = os.path.join(COQ, 'Gen', 'GenNfc.v')
    r = sh([os.path.join(build_impl(), 'godump'), 'nfctables'], check=False)
    if r.returncode != 0 or b'gen_comp' not in r.stdout:
        raise RuntimeError('godump nfctables failed: ' + r.stderr.decode(errors='replace')[-300:])
    old = open(out, 'rb').read() if os.path.exists(out) else None
    if old != r.stdout:
        open(out, 'wb').write(r.stdout)
    return out


# ---------------------------------------------------------------- encoding

def cps_of(s):
    """code points of a str (as Go's []rune(string) gives for valid UTF-8)"""
    return [ord(c) for c in s]


def go_runes_of_bytes(b):
    """[]rune(string(b)) for arbitrary bytes: every byte that does not start a valid
    encoding becomes U+FFFD on its own (Go's utf8.DecodeRune, width 1)"""
    out = []
    i = 0
    n = len(b)
    while i < n:
        c = b[i]
        if c < 0x80:
            out.append(c); i += 1; continue
        for L in (2, 3, 4):
            if i + L <= n:
                try:
                    ch = b[i:i + L].decode('utf-8')
                except UnicodeDecodeError:
                    continue
                if len(ch) == 1:
                    out.append(ord(ch)); i += L
                    break
        else:
            out.append(0xFFFD); i += 1
    return out


def field(cps):
    return ' '.join(map(str, cps))


def b64(b):
    return base64.b64encode(b).decode()


# ---------------------------------------------------------------- running

def _limit_mem():
    import resource
    resource.setrlimit(resource.RLIMIT_AS, (6 << 30, 6 << 30))
    resource.setrlimit(resource.RLIMIT_STACK, (resource.RLIM_INFINITY, resource.RLIM_INFINITY))


class Env:
    def __init__(self):
        self.bindir = build_tools()
        self.impl = build_impl()
        self.model = build_model()
        self.borno = os.path.join(self.impl, 'borno')
        self.godump = os.path.join(self.impl, 'godump')
        self.gorunner = os.path.join(self.bindir, 'gorunner')
        self.goref = os.path.join(self.bindir, 'goref')
        self.work = os.path.join(BUILD, 'work', str(os.getpid()))
        os.makedirs(self.work, exist_ok=True)

    def close(self):
        shutil.rmtree(self.work, ignore_errors=True)

    def run_impl(self, cases, timeout_ms=5000, _retry=True):
        """cases: dicts for gorunner.  Returns {id: [result per repetition]}"""
        inp = '\n'.join(json.dumps(c) for c in cases).encode() + b'\n'
        r = sh([self.gorunner, '-bin', self.borno, '-work', os.path.join(self.work, 'run'),
                '-j', JOBS, '-timeout', str(timeout_ms)], input=inp, timeout=7200)
        out = {}
        for line in r.stdout.splitlines():
            if not line.strip():
                continue
            d = json.loads(line)
            d['stdout'] = base64.b64decode(d.pop('stdout_b64'))
            d['stderr'] = base64.b64decode(d.pop('stderr_b64'))
            out.setdefault(d['id'], []).append(d)
        for v in out.values():
            v.sort(key=lambda d: d['rep'])
        # status -2 = gorunner could not start the process at all (fork failure, binary being replaced): not an
        # observation of the implementation.  Run those cases again once; if it persists, it is a harness failure.
        if _retry:
            # (also: a failing exit status with an empty stderr - the pipe was cut before the diagnostic was copied)
            bad = set(k for k, v in out.items() if any(d['status'] == -2 or (d['status'] in (65, 70) and d['stderr'] == b'' and not d['timeout']) for d in v))
            if bad:
                again = self.run_impl([c for c in cases if c['id'] in bad], timeout_ms=timeout_ms, _retry=False)
                out.update(again)
                still = [k for k, v in again.items() if any(d['status'] == -2 for d in v)]
                if still:
                    raise RuntimeError('gorunner could not run the implementation on %d cases (e.g. %s): %r' % (len(still), still[0], again[still[0]][0]['stderr'][:200]))
        return out

    def run_godump(self, mode, cases):
        """cases: dicts {id, cps:[...]}; returns {id: out}"""
        inp = '\n'.join(json.dumps(c) for c in cases).encode() + b'\n'
        r = sh([self.godump, mode], input=inp, timeout=7200)
        out = {}
        for line in r.stdout.splitlines():
            if line.strip():
                d = json.loads(line)
                out[d['id']] = d
        return out

    def run_model(self, lines, fuel=200000, seed=0, need_oracle=True, shards=None, case_timeout=10, _retry=True):
        """lines: list of tab-separated case lines (without newline).  Returns {id: [fields...]}"""
        shards = shards or int(JOBS)
        n = len(lines)
        if n == 0:
            return {}
        shards = max(1, min(shards, (n + 199) // 200))
        procs = []
        for k in range(shards):
            part = lines[k::shards]
            cmd = [self.model, '--fuel', str(fuel), '--seed', str(seed), '--case-timeout', str(case_timeout)]
            if need_oracle:
                cmd += ['--goref', self.goref]
            p = subprocess.Popen(cmd, stdin=subprocess.PIPE, stdout=subprocess.PIPE, stderr=subprocess.PIPE,
                                 preexec_fn=_limit_mem)
            procs.append((p, ('\n'.join(part) + '\n').encode()))
        out = {}
        import threading
        results = [None] * len(procs)

        def work(i):
            p, data = procs[i]
            results[i] = p.communicate(data)
        ths = [threading.Thread(target=work, args=(i,)) for i in range(len(procs))]
        for t in ths: t.start()
        for t in ths: t.join()
        for i, (p, _) in enumerate(procs):
            so, se = results[i]
            if p.returncode != 0:
                # the driver died (the OCaml runtime's "Fatal error: out of memory" under the address-space limit cannot be
                # caught inside it): evaluate the cases of this shard one process each; a case that kills its process has
                # no result for lack of memory
                part = procs[i][1].decode().split('\n')
                part = [l for l in part if l]
                if len(part) == 1 or not _retry:
                    if len(part) == 1 and b'out of memory' in se:
                        out[part[0].split('\t')[1]] = ['noresult:memory', '', '']
                        continue
                    raise RuntimeError('model driver failed: ' + se.decode(errors='replace')[-2000:])
                for l in part:
                    out.update(self.run_model([l], fuel=fuel, seed=seed, need_oracle=need_oracle, shards=1, case_timeout=case_timeout, _retry=False))
                continue
            for line in so.decode().split('\n'):
                if line:
                    fs = line.split('\t')
                    out[fs[0]] = fs[1:]
        # a per-case time limit that strikes on a loaded machine is not an observation of the model: evaluate those
        # cases again, one process, six times the limit (a case that really is too slow still ends as noresult:timeout)
        if _retry:
            slow = set(k for k, v in out.items() if v and v[0] == 'noresult:timeout')
            if 0 < len(slow) <= 40:
                again = [l for l in lines if l.split('\t')[1] in slow]
                for l in again:
                    out.update(self.run_model([l], fuel=fuel, seed=seed, need_oracle=need_oracle, shards=1, case_timeout=case_timeout * 6, _retry=False))
        return out


# ---------------------------------------------------------------- projecting Go's stderr

PARSE_MSGS = {
    'Expect variable name.': 'PExpectVarName',
    "Expect ';' before newline.": 'PSemiBeforeNewline',
    "Expect ';' after variable declaration.": 'PSemiAfterVar',
    'Expected ; after break.': 'PSemiAfterBreak',
    'Expected ; after continue.': 'PSemiAfterContinue',
    "Expect '(' after 'for'.": 'PLParenAfterFor',
    "Expect ';' after loop condition.": 'PSemiAfterLoopCond',
    "Expect ')' after for clauses.": 'PRParenAfterFor',
    "Expect '(' after 'while'.": 'PLParenAfterWhile',
    "Expect ')' after condition.": 'PRParenAfterCond',
    "Expect '(' after 'if'.": 'PLParenAfterIf',
    "Expect ')' after if condition.": 'PRParenAfterIfCond',
    "Expect ';' after value.": 'PSemiAfterValue',
    "Expect ';' after return value.": 'PSemiAfterReturn',
    'Expect function name.': 'PExpectFunName',
    "Expect '(' after function name.": 'PLParenAfterFunName',
    "Can't have more than 255 parameters.": 'PTooManyParams',
    'Expect parameter name.': 'PExpectParam',
    "Expect ')' after parameters.": 'PRParenAfterParams',
    "Expect '{' before function body.": 'PLBraceBeforeBody',
    "Expect '}' after block.": 'PRBraceAfterBlock',
    'Invalid assignment target.': 'PInvalidAssign',
    "Expect ']' after array index.": 'PRBracketAfterIndex',
    "Expect property name after '.'.": 'PPropAfterDot',
    "Expect ')' after arguments.": 'PRParenAfterArgs',
    "Expect ')' after expression.": 'PRParenAfterExpr',
    'Unexpected token. Expect expression.': 'PExpectExpr',
    'Expect property name. Must be a string.': 'PPropName',
    "Expect ':' after property name.": 'PColonAfterProp',
    "Expect '}' after object literal.": 'PRBraceAfterObject',
    "Expect ']' after array elements.": 'PRBracketAfterElems',
}
LEX_MSGS = {
    'Unexpected character.': 'LexUnexpectedChar',
    'Invalid number format': 'LexBadNumber',
    'Unterminated string.': 'LexUnterminatedString',
    'Unterminated multiline comment': 'LexUnterminatedComment',
}
RESERVED_RE = [
    (re.compile(r"^'(.*)' is a reserved identifier and cannot be used as a variable name\.$", re.S), 'PReservedVar'),
    (re.compile(r"^'(.*)' is a reserved identifier and cannot be used as a function name\.$", re.S), 'PReservedFun'),
]
NATIVE_MSGS = [
    (r'^(len|keys|values|abs|sqrt|sin|cos|tan|round) function expects exactly 1 argument$', 'NfArgCount'),
    (r'^append function expects at least 2 arguments \(array and element\(s\)\)$', 'NfArgCount'),
    (r'^remove function expects exactly 2 arguments \(array and index\)$', 'NfArgCount'),
    (r'^delete function expects exactly 2 arguments \(object and key\)$', 'NfArgCount'),
    (r'^pow function expects exactly 2 arguments$', 'NfArgCount'),
    (r'^(min|max) function expects at least 1 argument$', 'NfArgCount'),
    (r'^(len|append|remove) function only works on arrays$', 'NfNotArray'),
    (r'^(delete|keys|values) function only works on objects$', 'NfNotObject'),
    (r'^array index must be an integer$', 'NfIndexInt'),
    (r'^array index out of bounds$', 'NfIndexBounds'),
    (r'^delete function expects the second argument to be a string key$', 'NfKeyType'),
    (r"^key '.*' not found in object$", 'NfKeyMissing'),
    (r'^(argument|base|exponent) must be a number$', 'NfNotNumber'),
    (r'^all arguments must be numbers$', 'NfNotNumber'),
    (r'^(min|max) function expects a non-empty array or list of arguments$', 'NfEmpty'),
    (r'^input function accepts at most 1 argument$', 'NfInputArgs'),
    (r"^input function's argument must be a string", 'NfInputType'),
    (r'^failed to read input: ', 'NfInputEOF'),
]
NATIVE_MSGS = [(re.compile(a, re.S), b) for a, b in NATIVE_MSGS]
RT_MSGS = [
    (r'^Left operand must be a number\.$', 'RLeftNumber'),
    (r'^Right operand must be a number\.$', 'RRightNumber'),
    (r'^Left operand must be an integer\.$', 'RLeftInteger'),
    (r'^Right operand must be an integer\.$', 'RRightInteger'),
    (r'^Division by zero\.$', 'RDivZero'),
    (r'^Operands must be numbers or strings\.$', 'ROperandsNumStr'),
    (r'^Right operand must be a string or number\.$', 'RRightStrNum'),
    (r'^Shift count must not be negative\.$', 'RNegShift'),
    (r'^expected a number, got ', 'RUnaryNumber'),
    (r'^expected an integer, got ', 'RUnaryInteger'),
    (r'^Variable .* is not defined\.$', 'RUndefinedVar'),
    (r"^Undefined variable '.*'\.$", 'RUndefinedAssign'),
    (r'^Cannot redeclare variable .*\.$', 'RRedeclare'),
    (r'^Invalid object assignment\. Not an object\.$', 'RNotObjectAssign'),
    (r'^Invalid property access\. Not an object\.$', 'RNotObjectAccess'),
    (r"^Property '.*' does not exist on object '.*'\.$", 'RNoProperty'),
    (r'^Invalid array access\. Not an array\.$', 'RNotArrayAccess'),
    (r'^Invalid array assignment\. Not an array\.$', 'RNotArrayAssign'),
    (r'^Array index must be an integer\.$', 'RIndexInteger'),
    (r'^Array index out of bounds\.$', 'RIndexBounds'),
    (r'^Can only call functions\.$', 'RNotCallable'),
    (r'^Expected -?\d+ arguments but \d+\.$', 'RArity'),
    (r"^Unexpected 'break' outside of loop\.$", 'RStrayBreak'),
    (r"^Unexpected 'continue' outside of loop\.$", 'RStrayContinue'),
    (r"^Unexpected 'return' outside of function\.$", 'RStrayReturn'),
]
RT_MSGS = [(re.compile(a, re.S), b) for a, b in RT_MSGS]


def rt_kind(msg):
    if msg.startswith('Function call failed: '):
        rest = msg[len('Function call failed: '):]
        for rx, k in NATIVE_MSGS:
            if rx.search(rest):
                return 'RCallFailed.' + k
        return 'RCallFailed.UNKNOWN(' + rest + ')'
    for rx, k in RT_MSGS:
        if rx.search(msg):
            return k
    return 'UNKNOWN(' + msg + ')'


_front_head = re.compile(r'\[line (-?\d+)\] Error')


def parse_stderr(text):
    """Go stderr -> list of items in the model driver's notation.
    Front-end items: 'L:line:kind', 'S:line:kind:where'.  Runtime: 'R:line:kind'.
    Anything unrecognised: 'X:<text>'."""
    items = []
    p = 0
    n = len(text)
    all_front = sorted(list(PARSE_MSGS.items()) + list(LEX_MSGS.items()), key=lambda kv: -len(kv[0]))
    while p < n:
        m = _front_head.match(text, p)
        if m:
            line = m.group(1)
            q = m.end()
            if text.startswith(': ', q):
                # lexer diagnostic (no location) -- message up to newline
                e = text.find('\n', q)
                msg = text[q + 2:e if e >= 0 else n]
                k = LEX_MSGS.get(msg)
                if k:
                    items.append('L:%s:%s' % (line, k))
                else:
                    items.append('X:' + text[p:e if e >= 0 else n])
                p = (e + 1) if e >= 0 else n
                continue
            if text.startswith(' at end: ', q):
                e = text.find('\n', q)
                msg = text[q + 9:e if e >= 0 else n]
                k = PARSE_MSGS.get(msg)
                if k is None:
                    for rx, kk in RESERVED_RE:
                        if rx.match(msg): k = kk
                items.append('S:%s:%s:end' % (line, k) if k else 'X:' + text[p:e])
                p = (e + 1) if e >= 0 else n
                continue
            if text.startswith(" at '", q):
                s0 = q + 5
                best = None
                # earliest position where "': <known message>\n" follows
                idx = s0
                while True:
                    j = text.find("': ", idx)
                    if j < 0:
                        break
                    rest_start = j + 3
                    found = None
                    for msg, k in all_front:
                        if text.startswith(msg + '\n', rest_start):
                            found = (k, rest_start + len(msg) + 1); break
                    if not found:
                        e = text.find('\n', rest_start)
                        cand = text[rest_start:e if e >= 0 else n]
                        for rx, kk in RESERVED_RE:
                            if rx.match(cand):
                                found = (kk, (e + 1) if e >= 0 else n)
                    if found:
                        best = (j, found); break
                    idx = j + 1
                if best:
                    j, (k, endp) = best
                    lexeme = text[s0:j]
                    items.append('S:%s:%s:at=%s' % (line, k, ','.join(str(ord(c)) for c in lexeme)))
                    p = endp
                    continue
            e = text.find('\n', p)
            items.append('X:' + text[p:e if e >= 0 else n])
            p = (e + 1) if e >= 0 else n
            continue
        # runtime diagnostic: message, newline, [line N], newline
        m2 = re.compile(r'(.*?)\n\[line (-?\d+)\]\n', re.S).match(text, p)
        if m2:
            items.append('R:%s:%s' % (m2.group(2), rt_kind(m2.group(1))))
            p = m2.end()
            continue
        items.append('X:' + text[p:p + 200])
        break
    return items


def nfc(s):
    return unicodedata.normalize('NFC', s)


def model_stdout(events_field):
    """bytes the process writes for the model's event list"""
    out = []
    if events_field.strip() == '':
        return b''
    for ev in events_field.split(' '):
        kind, _, body = ev.partition(':')
        txt = ''.join(chr(int(x)) for x in body.split(',')) if body else ''
        if kind == 'P':
            out.append(txt + '\n')        # already in NFC: Model/Render.v applies Model/Nfc.v
        elif kind == 'E':
            out.append(txt + '\n')
        elif kind == 'Q':
            out.append(txt)
        elif kind == 'T':
            out.append(txt + '\n')
    return ''.join(out).encode('utf-8', errors='surrogatepass')


PANIC_RX = re.compile(rb'(panic:|fatal error:|goroutine \d+ \[|runtime error)')


def impl_abnormal(res):
    return res['timeout'] is False and (res['status'] not in (0, 1, 64, 65, 70) or bool(PANIC_RX.search(res['stderr'])))


CLOCK_RX = re.compile(rb'1\.\d{3,}e\+09')


INCONCLUSIVE = []


def compare_run(model_fields, res, first_runtime_only=True, mask_clock=False):
    """model_fields: [status, events, stderr-items]; res: gorunner result.
    Returns None if they agree on the projected observables, else a reason string."""
    mstatus, mevents, mitems = (model_fields + ['', '', ''])[:3]
    if mstatus.startswith('noresult'):
        if mstatus in ('noresult:fuel', 'noresult:timeout', 'noresult:memory', 'noresult:stack') and res['timeout']:
            return None
        if mstatus in ('noresult:timeout', 'noresult:memory', 'noresult:stack'):
            # the extracted model (unary-free but list-based strings, inductive integers) ran out of its per-case time or
            # memory allowance (already retried with six times the time) on a program the implementation finishes: no
            # observation of the model, hence no verdict; counted in the evidence
            INCONCLUSIVE.append(mstatus)
            return None
        return 'model has no result (%s); implementation status %s' % (mstatus, res['status'])
    mitems_l = mitems.split(' ') if mitems else []
    if mitems_l == ['C'] and res['timeout']:
        # model: the Go runtime dies of stack exhaustion printing a self-containing value; growing a goroutine stack
        # to its 1 GB limit can outlast the time limit on a loaded machine: still on its way to the predicted crash
        return None
    if res['timeout'] and res.get('truncated') and not mstatus.startswith('noresult'):
        # the implementation was stopped because it had written 1 MB (the cap that catches printing loops) while the
        # model finishes with an output at least that long: compare the captured prefix; the rest is not observed
        mo = model_stdout(mevents)
        if len(res['stdout']) >= 1000000 and len(mo) >= len(res['stdout']) and mo[:len(res['stdout']) - 8] == res['stdout'][:len(res['stdout']) - 8]:
            INCONCLUSIVE.append('output-cap')
            return None
    if res['timeout']:
        return 'implementation timed out; model status ' + mstatus
    if mitems_l == ['C']:
        # model: the Go runtime dies printing a self-containing value
        if res['status'] == 2 and PANIC_RX.search(res['stderr']) and model_stdout(mevents) == res['stdout']:
            return None
        return 'model predicts a host crash (cyclic print); implementation status %s' % res['status']
    if int(mstatus) != res['status']:
        return 'status: model %s, implementation %s' % (mstatus, res['status'])
    mo = model_stdout(mevents)
    if mask_clock:
        mo = CLOCK_RX.sub(b'<clock>', mo)
        res = dict(res, stdout=CLOCK_RX.sub(b'<clock>', res['stdout']))
    if mo != res['stdout']:
        return 'stdout differs: model %r, implementation %r' % (mo[-300:], res['stdout'][-300:])
    err = res['stderr'].decode('utf-8', errors='replace')
    if mitems_l == ['F']:
        return None if err.startswith('Error: could not read file') else 'stderr: expected file error, got %r' % err[:200]
    gitems = parse_stderr(err)
    if mitems_l and mitems_l[0].startswith('R:'):
        if not gitems or gitems[0] != mitems_l[0]:
            return 'first diagnostic: model %s, implementation %s' % (mitems_l[0], gitems[:1])
        return None
    if gitems != mitems_l:
        return 'diagnostics: model %s, implementation %s' % (mitems_l, gitems)
    return None


# ---------------------------------------------------------------- case helpers

def file_case(cid, src, stdin='', timeout_ms=0, repeat=0, fname=None):
    """(gorunner case, model line) for running a script file"""
    sb = src.encode('utf-8') if isinstance(src, str) else src
    ib = stdin.encode('utf-8') if isinstance(stdin, str) else stdin
    gc = {'id': cid, 'mode': 'file', 'src_b64': b64(sb), 'stdin_b64': b64(ib)}
    if timeout_ms: gc['timeout_ms'] = timeout_ms
    if repeat: gc['repeat'] = repeat
    if fname: gc['fname'] = fname
    scps = cps_of(src) if isinstance(src, str) else go_runes_of_bytes(src)
    icps = cps_of(stdin) if isinstance(stdin, str) else go_runes_of_bytes(stdin)
    ml = 'file\t%s\t%s\t%s' % (cid, field(scps), field(icps))
    return gc, ml


def repl_case(cid, text):
    tb = text.encode('utf-8')
    gc = {'id': cid, 'mode': 'repl', 'src_b64': b64(tb)}
    ml = 'repl\t%s\t%s' % (cid, field(cps_of(text)))
    return gc, ml
