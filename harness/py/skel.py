"""control-flow skeletons: chains of nested constructs with a leaf statement innermost and trace points everywhere"""
import itertools
from lang import *  # noqa

CONSTRUCTS = ['if', 'else', 'while', 'for', 'block']


def nest(chain, leaf, fn=False, limit=3, when=2):
    """program text: constructs of `chain` nested outermost first, `leaf` innermost.  Loops run `limit` times;
    an if/else guard refers to the nearest enclosing loop counter so the leaf runs in iteration `when`."""
    n = [0]
    out = []

    def tr(ind, tag):
        out.append('%s%s "%s";' % (ind, PRINT, tag))

    def go(i, ind, counter):
        if i == len(chain):
            tr(ind, 'L<')
            out.append(ind + leaf)
            tr(ind, 'L>')
            return
        c = chain[i]
        n[0] += 1
        k = n[0]
        tr(ind, '%s%d<' % (c, k))
        if c == 'block':
            out.append(ind + '{')
            out.append('%s  %s q%d = %d;' % (ind, VAR, k, k))
            go(i + 1, ind + '  ', counter)
            out.append(ind + '}')
        elif c in ('if', 'else'):
            cond = ('(%s == %d)' % (counter, when)) if counter else ('(%s)' % TRUE)
            if c == 'else':
                cond = ('(%s != %d)' % (counter, when)) if counter else ('(%s)' % FALSE)
                out.append('%s%s %s {' % (ind, IF, cond)); tr(ind + '  ', 'then%d' % k)
                out.append('%s} %s {' % (ind, ELSE))
            else:
                out.append('%s%s %s {' % (ind, IF, cond))
            go(i + 1, ind + '  ', counter)
            if c == 'if':
                out.append('%s} %s {' % (ind, ELSE)); tr(ind + '  ', 'else%d' % k)
            out.append(ind + '}')
        elif c == 'while':
            cn = 'c%d' % k
            out.append('%s%s %s = 0;' % (ind, VAR, cn))
            out.append('%s%s (%s < %d) {' % (ind, WHILE, cn, limit))
            out.append('%s  %s = %s + 1;' % (ind, cn, cn))
            out.append('%s  %s %s;' % (ind, PRINT, cn))
            go(i + 1, ind + '  ', cn)
            tr(ind + '  ', 'w%d-end' % k)
            out.append(ind + '}')
        elif c == 'for':
            cn = 'i%d' % k
            out.append('%s%s (%s %s = 1; %s <= %d; %s = %s + 1) {' % (ind, FOR, VAR, cn, cn, limit, cn, cn))
            out.append('%s  %s %s * 10;' % (ind, PRINT, cn))
            go(i + 1, ind + '  ', cn)
            tr(ind + '  ', 'f%d-end' % k)
            out.append(ind + '}')
        tr(ind, '%s%d>' % (c, k))

    if fn:
        out.append('%s fn() {' % FUN)
        go(0, '  ', None)
        out.append('  %s "fell-off";' % RETURN)
        out.append('}')
        out.append('%s fn();' % PRINT)
        out.append('%s "after-call";' % PRINT)
    else:
        go(0, '', None)
        tr('', 'end')
    return '\n'.join(out) + '\n'


def chains(depth):
    for d in range(1, depth + 1):
        for ch in itertools.product(CONSTRUCTS, repeat=d):
            yield ch
