"""Random structured Borno programs: type-aware (so that most run without a fault),
terminating (every loop has a dedicated bounded counter, every recursion a depth
parameter that only the generator touches), printing a trace of what they do."""
import lang
from lang import *  # noqa

NAMES = ['a', 'b', 'x', 'গ', 'মান', 'ব\u09dfস']          # deliberately colliding pool
FN_NAMES = ['f', 'g', 'h']
TYPES = ['num', 'num', 'num', 'str', 'bool', 'arr', 'obj']
KEYS_POOL = ['k', 'v', 'নাম', 'z']


class Gen:
    def __init__(self, rng, fault_rate=0.08, use_input=False):
        self.rng = rng
        self.n = 0
        self.fault = rng.random() < fault_rate   # this program gets (at most) one planted fault
        self.use_input = use_input
        self.inputs = 0

    def fresh(self, p):
        self.n += 1
        return '%s%d' % (p, self.n)

    def vars_of(self, scope, ty):
        seen = set()
        out = []
        for s in reversed(scope):
            for (x, t, extra) in reversed(s['vars']):
                if x in seen:
                    continue
                seen.add(x)
                if t == ty and not extra.get('hidden'):
                    out.append((x, extra))
        return out

    def take_fault(self):
        if self.fault and self.rng.random() < 0.15:
            self.fault = False
            return True
        return False

    # ---- expressions by type
    def num(self, scope, d=2):
        r = self.rng
        if self.take_fault():
            return r.choice(['(1 / 0)', 'নাই', '(%s - 1)' % NIL, '(5 %% 0)', '%s(1)' % LEN, '[1][3]', '(1)(2)', '({k: 1}).zz', '(1.5 | 1)', '"a" * 2'])
        vs = self.vars_of(scope, 'num')
        k = r.random()
        if d <= 0 or k < 0.3:
            if vs and r.random() < 0.6:
                return r.choice(vs)[0]
            return r.choice(['0', '1', '2', '3', '7', '10', '0.5', '১২', '100', '1000000', '2.25', '৩.৫'])
        if k < 0.55:
            return '(%s %s %s)' % (self.num(scope, d - 1), r.choice(['+', '-', '*', '+', '-']), self.num(scope, d - 1))
        if k < 0.6:
            return '(%s %s %s)' % (self.num(scope, d - 1), r.choice(['%', '/']), r.choice(['2', '3', '7', '0.5']))
        if k < 0.65:
            return '(%s %s %s)' % (self.num(scope, 0), r.choice(['&', '|', '^', '<<', '>>']), r.choice(['1', '2', '3', '5']))
        if k < 0.7:
            return '%s%s' % (r.choice(['-', '-', '~']), self.num(scope, 0))
        if k < 0.8:
            fns = [f for s in scope for f in s['funs']]
            if fns:
                name, ar, rec = r.choice(fns)
                args = [self.num(scope, d - 1) for _ in range(ar)]
                if rec:
                    args[0] = str(r.randint(0, 3))
                return '%s(%s)' % (name, ', '.join(args))
        if k < 0.88:
            nat = r.choice([ABS, ROUND, SQRT, MIN, MAX, POW])
            if nat in (MIN, MAX):
                return '%s(%s)' % (nat, ', '.join(self.num(scope, d - 1) for _ in range(r.randint(1, 3))))
            if nat == POW:
                return '%s(%s, %s)' % (nat, self.num(scope, 0), r.choice(['2', '3', '0.5', '0']))
            return '%s(%s)' % (nat, self.num(scope, d - 1))
        if k < 0.94:
            return '%s(%s)' % (LEN, self.arr(scope, d - 1)[0])
        arrs = [v for v in self.vars_of(scope, 'arr') if v[1].get('len', 0) >= 1]
        if arrs:
            x, ex = r.choice(arrs)
            return '%s[%d]' % (x, r.randrange(ex['len']))
        objs = [v for v in self.vars_of(scope, 'obj') if v[1].get('keys')]
        if objs:
            x, ex = r.choice(objs)
            return '%s.%s' % (x, r.choice(ex['keys']))
        return '(%s)' % self.num(scope, d - 1)

    def str_(self, scope, d=2):
        r = self.rng
        vs = self.vars_of(scope, 'str')
        k = r.random()
        if d <= 0 or k < 0.4:
            if vs and r.random() < 0.5:
                return r.choice(vs)[0]
            return r.choice(['"s"', '"ab"', '""', '"৫"', '"x y"', '"কথা"'])
        if k < 0.7:
            return '(%s + %s)' % (self.str_(scope, d - 1), self.str_(scope, d - 1))
        if k < 0.85:
            return '(%s + %s)' % (self.str_(scope, d - 1), self.num(scope, d - 1))
        if self.use_input and self.inputs < 3 and r.random() < 0.5:
            self.inputs += 1
            return '%s()' % INPUT
        return '(%s + %s)' % (self.num(scope, d - 1), self.str_(scope, d - 1))

    def bool_(self, scope, d=2):
        r = self.rng
        k = r.random()
        if d <= 0 or k < 0.2:
            vs = self.vars_of(scope, 'bool')
            if vs and r.random() < 0.5:
                return r.choice(vs)[0]
            return r.choice([TRUE, FALSE])
        if k < 0.6:
            return '(%s %s %s)' % (self.num(scope, d - 1), r.choice(['<', '<=', '>', '>=', '==', '!=']), self.num(scope, d - 1))
        if k < 0.7:
            return '(%s %s %s)' % (self.str_(scope, d - 1), r.choice(['==', '!=']), self.str_(scope, d - 1))
        if k < 0.8:
            return '!%s' % self.any(scope, d - 1)
        return '(%s %s %s)' % (self.bool_(scope, d - 1), r.choice(['&&', '||', AND_W, OR_W]), self.bool_(scope, d - 1))

    def arr(self, scope, d=1):
        """returns (expression, length)"""
        r = self.rng
        vs = self.vars_of(scope, 'arr')
        k = r.random()
        if vs and k < 0.4:
            x, ex = r.choice(vs)
            return x, ex.get('len', 0)
        if vs and k < 0.55 and d > 0:
            x, ex = r.choice(vs)
            extra = r.randint(1, 2)
            return '%s(%s, %s)' % (APPEND, x, ', '.join(self.num(scope, 0) for _ in range(extra))), ex.get('len', 0) + extra
        if vs and k < 0.65 and d > 0:
            cand = [v for v in vs if v[1].get('len', 0) >= 1]
            if cand:
                x, ex = r.choice(cand)
                return '%s(%s, %d)' % (REMOVE, x, r.randrange(ex['len'])), ex['len'] - 1
        n = r.randint(0, 3)
        return '[%s]' % ', '.join(self.num(scope, 0) for _ in range(n)), n

    def obj(self, scope, d=1):
        r = self.rng
        keys = r.sample(KEYS_POOL, r.randint(0, 3))
        return '{%s}' % ', '.join('%s: %s' % (kk, self.num(scope, 0)) for kk in keys), keys

    def any(self, scope, d=1):
        t = self.rng.choice(['num', 'num', 'str', 'bool', 'arr', 'obj', 'nil'])
        return self.typed(scope, t, d)[0]

    def typed(self, scope, t, d=2):
        if t == 'num':
            return self.num(scope, d), {}
        if t == 'str':
            return self.str_(scope, d), {}
        if t == 'bool':
            return self.bool_(scope, d), {}
        if t == 'arr':
            e, n = self.arr(scope, 1)
            return e, {'len': n}
        if t == 'obj':
            e, ks = self.obj(scope)
            return e, {'keys': ks}
        return NIL, {}

    # ---- statements
    def block(self, scope, depth, n, in_loop, in_fn):
        scope = scope + [{'vars': [], 'funs': []}]
        out = []
        for _ in range(n):
            out += self.stmt(scope, depth, in_loop, in_fn)
        return out

    def stmt(self, scope, depth, in_loop, in_fn):
        r = self.rng
        k = r.random()
        cur = scope[-1]
        ind = '  ' * (len(scope) - 1)
        if k < 0.2:
            here = [v[0] for v in cur['vars']]
            cand = [x for x in NAMES if x not in here]
            if not cand:
                return [ind + '%s %s;' % (PRINT, self.any(scope))]
            x = r.choice(cand)
            t = r.choice(TYPES)
            e, extra = self.typed(scope, t)
            cur['vars'].append((x, t, extra))
            return [ind + '%s %s = %s;' % (VAR, x, e)]
        if k < 0.38:
            t = r.choice(['num', 'num', 'str', 'bool', 'arr'])
            vs = self.vars_of(scope, t)
            if vs:
                x, ex = r.choice(vs)
                if t == 'arr':
                    if ex.get('len', 0) >= 1 and r.random() < 0.7:
                        return [ind + '%s[%d] = %s;' % (x, r.randrange(ex['len']), self.num(scope, 1))]
                    return [ind + '%s %s;' % (PRINT, x)]
                e, extra = self.typed(scope, t)
                return [ind + '%s = %s;' % (x, e)]
            objs = self.vars_of(scope, 'obj')
            if objs:
                x, ex = r.choice(objs)
                kk = r.choice(KEYS_POOL)
                if kk not in ex['keys']:
                    ex['keys'].append(kk)
                return [ind + '%s.%s = %s;' % (x, kk, self.num(scope, 1))]
            return [ind + '%s %s;' % (PRINT, self.any(scope))]
        if k < 0.6:
            return [ind + '%s %s;' % (PRINT, self.any(scope, 2))]
        if depth <= 0:
            return [ind + '%s %s;' % (PRINT, self.any(scope, 1))]
        if k < 0.7:
            out = [ind + '%s (%s) {' % (IF, self.bool_(scope) if r.random() < 0.8 else self.any(scope))]
            out += self.block(scope, depth - 1, r.randint(1, 3), in_loop, in_fn)
            if r.random() < 0.5:
                out += [ind + '} %s {' % ELSE] + self.block(scope, depth - 1, r.randint(1, 2), in_loop, in_fn)
            return out + [ind + '}']
        if k < 0.77:
            c = self.fresh('c')
            cur['vars'].append((c, 'num', {'hidden': True}))
            out = [ind + '%s %s = 0;' % (VAR, c), ind + '%s (%s < %d) {' % (WHILE, c, r.randint(0, 4)), ind + '  %s = %s + 1;' % (c, c),
                   ind + '  %s %s;' % (PRINT, c)]
            out += self.block(scope, depth - 1, r.randint(1, 3), True, in_fn)
            return out + [ind + '}']
        if k < 0.84:
            i = self.fresh('i')
            out = [ind + '%s (%s %s = 0; %s < %d; %s = %s + 1) {' % (FOR, VAR, i, i, r.randint(0, 4), i, i)]
            inner = scope + [{'vars': [(i, 'num', {'hidden': True})], 'funs': []}]
            body = self.block(inner, depth - 1, r.randint(1, 3), True, in_fn)
            out += [ind + '  %s %s * 10;' % (PRINT, i)] + body
            return out + [ind + '}']
        if k < 0.88 and in_loop:
            return [ind + '%s (%s) { %s; }' % (IF, self.bool_(scope, 1), r.choice([BREAK, CONTINUE]))]
        if k < 0.92 and in_fn:
            return [ind + '%s (%s) { %s %s; }' % (IF, self.bool_(scope, 1), RETURN, self.num(scope, 1))]
        if k < 0.97:
            name = r.choice(FN_NAMES) if r.random() < 0.7 else self.fresh('fn')
            if any(f[0] == name for f in cur['funs']):
                name = self.fresh('fn')      # never re-declare in the same scope (it would rebind earlier callers)
            ar = r.randint(0, 3)
            rec = r.random() < 0.3 and ar >= 1
            params = (['d'] + ['p%d' % j for j in range(1, ar)]) if rec else ['p%d' % j for j in range(ar)]
            pvars = [(p, 'num', {'hidden': p == 'd'}) for p in params]
            # inside the body the name denotes the function itself: hide outer functions of that name
            fscope = [{'vars': sc['vars'], 'funs': [f for f in sc['funs'] if f[0] != name]} for sc in scope] + [{'vars': pvars, 'funs': []}]
            out = [ind + '%s %s(%s) {' % (FUN, name, ', '.join(params))]
            if rec:
                out += [ind + '  %s (d <= 0) { %s 0; }' % (IF, RETURN)]
            body = []
            for _ in range(r.randint(1, 4)):
                body += self.stmt(fscope, depth - 1, False, True)
            out += body
            if rec:
                out += [ind + '  %s %s(d - 1%s) + 1;' % (RETURN, name, ''.join(', ' + self.num(fscope, 0) for _ in range(ar - 1)))]
            elif r.random() < 0.7:
                out += [ind + '  %s %s;' % (RETURN, self.num(fscope, 1))]
            out += [ind + '}']
            # the function is callable only after its declaration, from this scope inwards
            cur['funs'] = [f for f in cur['funs'] if f[0] != name] + [(name, ar, rec)]
            cur['vars'] = [v for v in cur['vars'] if v[0] != name]
            return out
        return [ind + '{'] + self.block(scope, depth - 1, r.randint(1, 3), in_loop, in_fn) + [ind + '}']

    def program(self, n_stmts=12, depth=3):
        scope = [{'vars': [], 'funs': []}]
        out = []
        for _ in range(n_stmts):
            out += self.stmt(scope, depth, False, False)
        return '\n'.join(out) + '\n'


def random_program(rng, n_stmts=12, depth=3, **kw):
    g = Gen(rng, **kw)
    return g.program(n_stmts, depth)
