"""Random structured Borno programs that terminate (every loop has a dedicated bounded
counter, every recursion a depth parameter) and print a trace of what they do."""
import lang
from lang import *  # noqa

NAMES = ['a', 'b', 'x', 'গ']          # deliberately colliding pool
FN_NAMES = ['f', 'g', 'h']


class Gen:
    def __init__(self, rng, err_rate=0.04, use_input=False, use_objects=True):
        self.rng = rng
        self.n = 0
        self.err_rate = err_rate
        self.use_input = use_input
        self.use_objects = use_objects
        self.lines = []

    def fresh(self, p):
        self.n += 1
        return '%s%d' % (p, self.n)

    # ---- expressions
    def atom(self, scope):
        r = self.rng
        k = r.random()
        vis = [v for s in scope for v in s['vars']]
        if vis and k < 0.45:
            return r.choice(vis)
        if k < 0.5 and r.random() < self.err_rate * 5:
            return r.choice(NAMES)
        if k < 0.75:
            return r.choice(['0', '1', '2', '3', '7', '10', '0.5', '১২', '100', '1000000', '2.25'])
        if k < 0.85:
            return r.choice(['"s"', '"ab"', '""', '"৫"', '"x y"'])
        if k < 0.9:
            return r.choice([TRUE, FALSE, NIL])
        if k < 0.95:
            return '[%s]' % ', '.join(self.atom(scope) for _ in range(r.randint(0, 3)))
        if self.use_objects:
            keys = r.sample(['k', 'v', 'নাম', 'z'], r.randint(0, 3))
            return '{%s}' % ', '.join('%s: %s' % (kk, self.atom(scope)) for kk in keys)
        return '4'

    def expr(self, scope, depth=2):
        r = self.rng
        if depth <= 0 or r.random() < 0.3:
            return self.atom(scope)
        k = r.random()
        if k < 0.5:
            op = r.choice(['+', '-', '*', '+', '<', '<=', '==', '!=', '>', '%', '/', '&', '|', '**'])
            return '(%s %s %s)' % (self.expr(scope, depth - 1), op, self.expr(scope, depth - 1))
        if k < 0.6:
            return '(%s %s %s)' % (self.expr(scope, depth - 1), r.choice(['&&', '||', AND_W, OR_W]), self.expr(scope, depth - 1))
        if k < 0.67:
            return '%s%s' % (r.choice(['-', '!', '~']), self.expr(scope, depth - 1))
        fns = [f for s in scope for f in s['funs']]
        if fns and k < 0.85:
            name, ar, rec = r.choice(fns)
            args = [self.expr(scope, depth - 1) for _ in range(ar)]
            if rec:
                args[0] = str(r.randint(0, 3))
            if r.random() < self.err_rate:
                args = args[:-1] if args else args + ['1']
            return '%s(%s)' % (name, ', '.join(args))
        if k < 0.93:
            nat = r.choice([(LEN, 1), (ABS, 1), (ROUND, 1), (MIN, 2), (MAX, 2), (SQRT, 1), (APPEND, 2), (POW, 2)])
            args = [self.expr(scope, depth - 1) for _ in range(nat[1])]
            if nat[0] in (LEN, APPEND):
                args[0] = '[%s]' % ', '.join(self.atom(scope) for _ in range(r.randint(0, 3)))
            return '%s(%s)' % (nat[0], ', '.join(args))
        if k < 0.97:
            return '%s[%s]' % (self.atom(scope), r.choice(['0', '1', '2', self.atom(scope)]))
        if self.use_input and r.random() < 0.5:
            return '%s()' % INPUT
        return '(%s)' % self.expr(scope, depth - 1)

    # ---- statements
    def block(self, scope, depth, n, in_loop, in_fn):
        scope = scope + [{'vars': [], 'funs': []}]
        out = []
        for _ in range(n):
            out += self.stmt(scope, depth, in_loop, in_fn)
        return out

    def stmt(self, scope, depth, in_loop, in_fn):
        r = self.rng
        k = r.random()
        cur = scope[-1]
        ind = '  ' * (len(scope) - 1)
        if k < 0.2:
            cand = [x for x in NAMES if x not in cur['vars']]
            if not cand or r.random() < self.err_rate:
                cand = NAMES
            x = r.choice(cand)
            if x not in cur['vars']:
                cur['vars'].append(x)
            if r.random() < 0.15:
                return [ind + '%s %s;' % (VAR, x)]
            return [ind + '%s %s = %s;' % (VAR, x, self.expr(scope))]
        if k < 0.4:
            vis = [v for s in scope for v in s['vars']]
            x = r.choice(vis) if vis and r.random() > self.err_rate else r.choice(NAMES)
            return [ind + '%s = %s;' % (x, self.expr(scope))]
        if k < 0.62:
            return [ind + '%s %s;' % (PRINT, self.expr(scope))]
        if depth <= 0:
            return [ind + '%s %s;' % (PRINT, self.atom(scope))]
        if k < 0.7:
            out = [ind + '%s (%s) {' % (IF, self.expr(scope))]
            out += self.block(scope, depth - 1, r.randint(1, 3), in_loop, in_fn)
            if r.random() < 0.5:
                out += [ind + '} %s {' % ELSE] + self.block(scope, depth - 1, r.randint(1, 2), in_loop, in_fn)
            return out + [ind + '}']
        if k < 0.76:
            c = self.fresh('c')
            cur['vars'].append(c)
            out = [ind + '%s %s = 0;' % (VAR, c), ind + '%s (%s < %d) {' % (WHILE, c, r.randint(0, 4)), ind + '  %s = %s + 1;' % (c, c)]
            out += self.block(scope, depth - 1, r.randint(1, 3), True, in_fn)
            cur['vars'].remove(c)   # do not let later code reassign the counter
            return out + [ind + '}']
        if k < 0.82:
            i = self.fresh('i')
            out = [ind + '%s (%s %s = 0; %s < %d; %s = %s + 1) {' % (FOR, VAR, i, i, r.randint(0, 4), i, i)]
            inner = scope + [{'vars': [], 'funs': []}]
            body = self.block(inner, depth - 1, r.randint(1, 3), True, in_fn)
            out += [ind + '  %s %s;' % (PRINT, i)] + body
            return out + [ind + '}']
        if k < 0.86 and in_loop:
            return [ind + '%s (%s) { %s; }' % (IF, self.expr(scope, 1), r.choice([BREAK, CONTINUE]))]
        if k < 0.9 and in_fn:
            return [ind + '%s (%s) { %s %s; }' % (IF, self.expr(scope, 1), RETURN, self.expr(scope, 1))]
        if k < 0.96:
            name = r.choice(FN_NAMES) if r.random() < 0.7 else self.fresh('fn')
            ar = r.randint(0, 3)
            rec = r.random() < 0.3 and ar >= 1
            params = ['d'] + ['p%d' % j for j in range(1, ar)] if rec else ['p%d' % j for j in range(ar)]
            fscope = scope + [{'vars': list(params), 'funs': [(name, ar, rec)]}]
            out = [ind + '%s %s(%s) {' % (FUN, name, ', '.join(params))]
            if rec:
                out += [ind + '  %s (d <= 0) { %s 0; }' % (IF, RETURN)]
            body = []
            for _ in range(r.randint(1, 4)):
                body += self.stmt(fscope, depth - 1, False, True)
            out += body
            if rec:
                out += [ind + '  %s %s(d - 1%s) + 1;' % (RETURN, name, ''.join(', ' + self.atom(fscope) for _ in range(ar - 1)))]
            elif r.random() < 0.6:
                out += [ind + '  %s %s;' % (RETURN, self.expr(fscope, 1))]
            out += [ind + '}']
            cur['funs'] = [f for f in cur['funs'] if f[0] != name] + [(name, ar, rec)]
            return out
        out = [ind + '{'] + self.block(scope, depth - 1, r.randint(1, 3), in_loop, in_fn) + [ind + '}']
        return out

    def program(self, n_stmts=12, depth=3):
        scope = [{'vars': [], 'funs': []}]
        out = []
        for _ in range(n_stmts):
            out += self.stmt(scope, depth, False, False)
        return '\n'.join(out) + '\n'


def random_program(rng, n_stmts=12, depth=3, **kw):
    return Gen(rng, **kw).program(n_stmts, depth)
