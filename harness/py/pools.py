"""Generator pools (DESIGN appendix A)."""
import lang
from lang import *  # noqa

SETUP = (
    f"{VAR} arr = [1];\n{VAR} arr2 = arr;\n{VAR} arr3 = [1, \"a\", {NIL}];\n{VAR} ob = {{k: 1}};\n{VAR} ob2 = ob;\n"
    f"{FUN} fn1() {{ {RETURN} 1; }}\n{VAR} fn1b = fn1;\n{FUN} fn2(x) {{ {RETURN} x; }}\n"
)

# (producer expression, kind)
NUMS = ['0', '0 * -1', '1', '-1', '0.5', '-7', '3', '63', '64', '65', '2 ** 31', '2 ** 53', '2 ** 53 + 1',
        '2 ** 63', '-(2 ** 63)', '2 ** 64', '10 ** 308', '2 ** -1074', '2 ** 1024', '-(2 ** 1024)',
        '2 ** 1024 - 2 ** 1024', '1.5', '1000000', '999999', '0.1 + 0.2', '7 & 3', '1 << 40']
STRS = ['""', '"\u09df"', '"\u09af\u09bc"', '"١٢"', '"१"', '"１"', '"10%"', '"a"', '"abc"', '"5"', '"১০"', '"1e3"', '" 5"', '"-2"', '"অ"', '"ab" + "c"', '"" + ""', '"1.5"', '"0"', '"inf"', '"0x10"']
OTHERS = [NIL, TRUE, FALSE, '[]', '[1]', 'arr', 'arr2', 'arr3', '{}', 'ob', 'ob2', 'fn1', 'fn1b', 'fn2', LEN, CLOCK, SIN, COS]
VALUES = [(e, 'num') for e in NUMS] + [(e, 'str') for e in STRS] + [(e, 'other') for e in OTHERS]

BINOPS = ['+', '-', '*', '/', '%', '**', '<', '<=', '>', '>=', '==', '!=', '&', '|', '^', '<<', '>>', '&&', '||', AND_W, OR_W]
UNOPS = ['-', '!', '~']
