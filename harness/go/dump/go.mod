module verifdump

go 1.22.6

require github.com/ah-naf/borno v0.0.0

require golang.org/x/text v0.21.0 // indirect

replace github.com/ah-naf/borno => /repo
