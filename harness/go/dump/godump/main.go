// godump: lexes / parses texts with Borno's exported lexer and parser API and
// dumps tokens, syntax trees (S-expressions over exported fields) and
// diagnostics.  Single-threaded (Borno keeps its error flags in globals).
package main

import (
	"bufio"
	"bytes"
	"encoding/base64"
	"encoding/json"
	"fmt"
	"io"
	"math"
	"os"
	"reflect"
	"sort"
	"strings"

	"github.com/ah-naf/borno/ast"
	"github.com/ah-naf/borno/lexer"
	"github.com/ah-naf/borno/parser"
	"github.com/ah-naf/borno/token"
	"github.com/ah-naf/borno/utils"
	"golang.org/x/text/unicode/norm"
)

type Case struct {
	ID     string `json:"id"`
	SrcB64 string `json:"src_b64"`
	Cps    []int  `json:"cps"` // alternative to src_b64: raw code points
}

type Out struct {
	ID      string   `json:"id"`
	Tokens  []string `json:"tokens,omitempty"`
	EOFLine int      `json:"eof_line"`
	Ast     string   `json:"ast,omitempty"`
	Stderr  string   `json:"stderr"`
	HadErr  bool     `json:"had_error"`
	Panic   string   `json:"panic,omitempty"`
	ParseErr bool    `json:"parse_err"`
}

var errFile *os.File

func resetErr() { errFile.Truncate(0); errFile.Seek(0, 0) }
func readErr() string {
	errFile.Seek(0, 0)
	b, _ := io.ReadAll(errFile)
	return string(b)
}

func cps(s string) string {
	var sb strings.Builder
	sb.WriteByte('<')
	for i, r := range []rune(s) {
		if i > 0 {
			sb.WriteByte('.')
		}
		fmt.Fprintf(&sb, "%d", r)
	}
	sb.WriteByte('>')
	return sb.String()
}
func cpsR(rs []rune) string {
	var sb strings.Builder
	sb.WriteByte('<')
	for i, r := range rs {
		if i > 0 {
			sb.WriteByte('.')
		}
		fmt.Fprintf(&sb, "%d", r)
	}
	sb.WriteByte('>')
	return sb.String()
}

func lit(v interface{}) string {
	switch x := v.(type) {
	case nil:
		return "nil"
	case bool:
		if x {
			return "true"
		}
		return "false"
	case float64:
		return fmt.Sprintf("num:%d", math.Float64bits(x))
	case string:
		return "str:" + cps(x)
	case []rune:
		return "str:" + cpsR(x)
	default:
		return fmt.Sprintf("other:%T", v)
	}
}

func tokStr(t token.Token) string {
	return fmt.Sprintf("%d %s %s %d", int(t.Type), cps(t.Lexeme), lit(t.Literal), t.Line)
}

func opt(e ast.Expr) string {
	if e == nil || (reflect.ValueOf(e).Kind() == reflect.Ptr && reflect.ValueOf(e).IsNil()) {
		return "none"
	}
	return sx(e)
}

func list(es []ast.Expr) string {
	parts := make([]string, len(es))
	for i, e := range es {
		parts[i] = sx(e)
	}
	return "[" + strings.Join(parts, " ") + "]"
}
func slist(es []ast.Stmt) string {
	parts := make([]string, len(es))
	for i, e := range es {
		parts[i] = sx(e)
	}
	return "[" + strings.Join(parts, " ") + "]"
}

func sx(e ast.Expr) string {
	switch n := e.(type) {
	case *ast.Literal:
		return fmt.Sprintf("(lit %s %d)", lit(n.Value), n.Line)
	case *ast.Identifier:
		return fmt.Sprintf("(id %s %d)", cps(n.Name.Lexeme), n.Line)
	case *ast.Grouping:
		return fmt.Sprintf("(group %s %d)", sx(n.Expression), n.Line)
	case *ast.Unary:
		return fmt.Sprintf("(unary %d %s %d)", int(n.Operator.Type), sx(n.Right), n.Line)
	case *ast.Binary:
		return fmt.Sprintf("(binary %d %s %s %d)", int(n.Operator.Type), sx(n.Left), sx(n.Right), n.Line)
	case *ast.Logical:
		return fmt.Sprintf("(logical %d %s %s)", int(n.Operator.Type), sx(n.Left), sx(n.Right))
	case *ast.AssignmentStmt:
		return fmt.Sprintf("(assign %s %s %d)", cps(n.Name.Lexeme), sx(n.Value), n.Line)
	case *ast.ArrayAssignment:
		return fmt.Sprintf("(aassign %s %s %s %d)", sx(n.Array), sx(n.Index), sx(n.Value), n.Line)
	case *ast.PropertyAssignment:
		return fmt.Sprintf("(passign %s %s %s %d)", sx(n.Object), cps(n.Property.Lexeme), sx(n.Value), n.Line)
	case *ast.Call:
		return fmt.Sprintf("(call %s %d %s)", sx(n.Callee), n.Paren.Line, list(n.Arguments))
	case *ast.ArrayAccess:
		return fmt.Sprintf("(index %s %s %d)", sx(n.Array), sx(n.Index), n.Line)
	case *ast.PropertyAccess:
		return fmt.Sprintf("(prop %s %s %d)", sx(n.Object), cps(n.Property.Lexeme), n.Line)
	case *ast.ArrayLiteral:
		return fmt.Sprintf("(array %s)", list(n.Elements))
	case *ast.ObjectLiteral:
		var keys []string
		ordered := false
		kf := reflect.ValueOf(n).Elem().FieldByName("Keys")
		if kf.IsValid() && kf.Kind() == reflect.Slice {
			ordered = true
			for i := 0; i < kf.Len(); i++ {
				keys = append(keys, kf.Index(i).String())
			}
		} else {
			for k := range n.Properties {
				keys = append(keys, k)
			}
			sort.Strings(keys)
		}
		parts := make([]string, len(keys))
		for i, k := range keys {
			parts[i] = fmt.Sprintf("(%s %s)", cps(k), sx(n.Properties[k]))
		}
		tag := "object-sorted"
		if ordered {
			tag = "object"
		}
		return fmt.Sprintf("(%s [%s])", tag, strings.Join(parts, " "))
	case *ast.ExpressionStatement:
		return fmt.Sprintf("(expr %s)", sx(n.Expression))
	case *ast.PrintStatement:
		return fmt.Sprintf("(print %s)", sx(n.Expression))
	case *ast.VarStmt:
		return fmt.Sprintf("(var %s %s %d)", cps(n.Name.Lexeme), opt(n.Initializer), n.Line)
	case *ast.VarListStmt:
		parts := make([]string, len(n.Declarations))
		for i := range n.Declarations {
			parts[i] = sx(&n.Declarations[i])
		}
		return "(varlist [" + strings.Join(parts, " ") + "])"
	case *ast.BlockStmt:
		return "(block " + slist(n.Block) + ")"
	case *ast.IfStmt:
		return fmt.Sprintf("(if %s %s %s)", sx(n.Condition), sx(n.ThenBranch), opt(n.ElseBranch))
	case *ast.While:
		return fmt.Sprintf("(while %s %s)", sx(n.Condition), sx(n.Body))
	case *ast.ForStmt:
		return fmt.Sprintf("(for %s %s %s %s)", opt(n.Initializer), opt(n.Condition), opt(n.Increment), sx(n.Body))
	case *ast.BreakStmt:
		return fmt.Sprintf("(break %d)", n.Line)
	case *ast.ContinueStmt:
		return fmt.Sprintf("(continue %d)", n.Line)
	case *ast.Return:
		return fmt.Sprintf("(return %d %s)", n.Keyword.Line, opt(n.Value))
	case *ast.FunctionStmt:
		ps := make([]string, len(n.Params))
		for i, p := range n.Params {
			ps[i] = cps(p.Lexeme)
		}
		return fmt.Sprintf("(fun %s [%s] %s)", cps(n.Name.Lexeme), strings.Join(ps, " "), slist(n.Body))
	default:
		return fmt.Sprintf("(unknown %T)", e)
	}
}

func doCase(mode string, c Case) (o Out) {
	o.ID = c.ID
	var src []rune
	if c.Cps != nil {
		src = make([]rune, len(c.Cps))
		for i, x := range c.Cps {
			src[i] = rune(x)
		}
	} else {
		b, _ := base64.StdEncoding.DecodeString(c.SrcB64)
		src = []rune(string(b))
	}
	utils.HadError = false
	utils.HadRuntimeError = false
	resetErr()
	defer func() {
		if r := recover(); r != nil {
			o.Panic = fmt.Sprint(r)
		}
		o.Stderr = readErr()
		o.HadErr = utils.HadError
	}()
	toks := lexer.NewScanner(src).ScanTokens()
	if mode == "tokens" || mode == "both" {
		for _, t := range toks[:len(toks)-1] {
			o.Tokens = append(o.Tokens, tokStr(t))
		}
	}
	last := toks[len(toks)-1]
	if last.Type != token.EOF {
		o.Panic = "last token is not EOF"
	}
	o.EOFLine = last.Line
	if mode == "parse" || mode == "both" {
		stmts, err := parser.NewParser(toks).Parse()
		if err != nil {
			o.ParseErr = true
		} else {
			o.Ast = slist(stmts)
		}
	}
	return o
}

func main() {
	if len(os.Args) < 2 {
		fmt.Fprintln(os.Stderr, "usage: godump tokens|parse|both|cpsweep|translit < cases.jsonl")
		os.Exit(2)
	}
	mode := os.Args[1]
	f, err := os.CreateTemp("", "godump-stderr-*")
	if err != nil {
		panic(err)
	}
	defer os.Remove(f.Name())
	errFile = f
	realErr := os.Stderr
	os.Stderr = f
	w := bufio.NewWriterSize(os.Stdout, 1<<20)
	defer w.Flush()
	switch mode {
	case "nfctables":
		// Unicode normalisation data of the very x/text version the interpreter is linked with, as Coq tables:
		// full canonical decompositions (Hangul syllables excepted: algorithmic), canonical combining classes,
		// and the primary composites as (first, second, composite)
		fmt.Fprintf(w, "(* generated by godump nfctables from golang.org/x/text/unicode/norm, Unicode %s; do not edit *)\n", norm.Version)
		fmt.Fprint(w, "From Coq Require Import NArith List.\nImport ListNotations.\nOpen Scope N_scope.\n\n")
		cps := func(rs []rune) string {
			parts := make([]string, len(rs))
			for i, r := range rs {
				parts[i] = fmt.Sprintf("%d", r)
			}
			return "[" + strings.Join(parts, ";") + "]"
		}
		var nfd, comp, ccc []string
		cccStart, cccPrev, cccVal := -1, -1, 0
		flushCcc := func() {
			if cccStart >= 0 {
				ccc = append(ccc, fmt.Sprintf("(%d,%d,%d)", cccStart, cccPrev, cccVal))
			}
			cccStart = -1
		}
		for cp := 0; cp <= 0x10FFFF; cp++ {
			if cp >= 0xD800 && cp <= 0xDFFF {
				continue
			}
			r := rune(cp)
			c := int(norm.NFD.PropertiesString(string(r)).CCC())
			if c != 0 {
				if cccStart >= 0 && cccPrev == cp-1 && cccVal == c {
					cccPrev = cp
				} else {
					flushCcc()
					cccStart, cccPrev, cccVal = cp, cp, c
				}
			}
			if cp >= 0xAC00 && cp <= 0xD7A3 {
				continue
			}
			d := []rune(norm.NFD.String(string(r)))
			if len(d) != 1 || d[0] != r {
				nfd = append(nfd, fmt.Sprintf("(%d,%s)", cp, cps(d)))
				if len(d) >= 2 && norm.NFC.String(string(d)) == string(r) {
					first := []rune(norm.NFC.String(string(d[:len(d)-1])))
					if len(first) == 1 && norm.NFC.String(string([]rune{first[0], d[len(d)-1]})) == string(r) {
						comp = append(comp, fmt.Sprintf("(%d,%d,%d)", first[0], d[len(d)-1], cp))
					}
				}
			}
		}
		flushCcc()
		emitList := func(name, ty string, items []string) {
			fmt.Fprintf(w, "Definition %s : list %s := [\n", name, ty)
			for i, it := range items {
				sep := ";"
				if i == len(items)-1 {
					sep = ""
				}
				fmt.Fprintf(w, "  %s%s\n", it, sep)
			}
			fmt.Fprint(w, "].\n\n")
		}
		emitList("gen_nfd", "(N * list N)", nfd)
		emitList("gen_ccc", "(N * N * N)", ccc)
		emitList("gen_comp", "(N * N * N)", comp)
		// Stream-Safe Text Process as x/text applies it: per code point, the number of leading and of trailing
		// "non-starters" of its compatibility decomposition, where a rune counts as a non-starter when it has a
		// non-zero class or combines backwards (maketables.go computeNonStarterCounts); Hangul syllables are left
		// to the model (2 trailing, 1 without a final consonant)
		var ssl []string
		nonStarter := func(r rune) bool { return !norm.NFKC.PropertiesString(string(r)).BoundaryBefore() }
		for cp := 0; cp <= 0x10FFFF; cp++ {
			if (cp >= 0xD800 && cp <= 0xDFFF) || (cp >= 0xAC00 && cp <= 0xD7A3) {
				continue
			}
			rs := []rune(norm.NFKD.String(string(rune(cp))))
			lead, trail := 0, 0
			for _, r := range rs {
				if !nonStarter(r) {
					break
				}
				lead++
			}
			for i := len(rs) - 1; i >= 0; i-- {
				if !nonStarter(rs[i]) {
					break
				}
				trail++
			}
			if lead != 0 || trail != 0 {
				ssl = append(ssl, fmt.Sprintf("(%d,%d,%d)", cp, lead, trail))
			}
		}
		emitList("gen_ss", "(N * N * N)", ssl)
	case "nfc":
		// reference: NFC of each input text (one JSON case per line: {id, cps})
		sc := bufio.NewScanner(os.Stdin)
		sc.Buffer(make([]byte, 1<<20), 1<<26)
		for sc.Scan() {
			var c struct {
				ID  string `json:"id"`
				Cps []int  `json:"cps"`
			}
			if json.Unmarshal(sc.Bytes(), &c) != nil {
				continue
			}
			rs := make([]rune, len(c.Cps))
			for i, x := range c.Cps {
				rs[i] = rune(x)
			}
			out := []rune(norm.NFC.String(string(rs)))
			ints := make([]int, len(out))
			for i, x := range out {
				ints[i] = int(x)
			}
			b, _ := json.Marshal(map[string]interface{}{"id": c.ID, "cps": ints})
			w.Write(b)
			w.WriteByte('\n')
		}
	case "cpsweep":
		// every code point on its own: token type (or -1 = no token), diagnostic flag,
		// and whether ConvertBanglaDigitsToASCII changes it (and to what).  Run-length compressed.
		prev := ""
		start := 0
		flush := func(end int) {
			if prev != "" {
				fmt.Fprintf(w, "%d %d %s\n", start, end, prev)
			}
		}
		for cp := 0; cp <= 0x10FFFF; cp++ {
			if cp >= 0xD800 && cp <= 0xDFFF {
				continue
			}
			utils.HadError = false
			toks := lexer.NewScanner([]rune{rune(cp)}).ScanTokens()
			ty := -1
			if len(toks) == 2 {
				ty = int(toks[0].Type)
			} else if len(toks) != 1 {
				ty = -2
			}
			tr := []rune(utils.ConvertBanglaDigitsToASCII(string(rune(cp))))
			delta := 0
			if len(tr) != 1 {
				delta = -999999
			} else {
				delta = int(tr[0]) - cp
			}
			cur := fmt.Sprintf("%d %v %d %d", ty, utils.HadError, toks[len(toks)-1].Line, delta)
			if cur != prev {
				flush(cp - 1)
				prev, start = cur, cp
				if cp == 0xE000 && start == 0xE000 {
					// keep ranges from spanning the surrogate gap ambiguity
				}
			}
		}
		flush(0x10FFFF)
		errFile.Truncate(0)
	default:
		sc := bufio.NewScanner(os.Stdin)
		sc.Buffer(make([]byte, 1<<20), 1<<28)
		enc := json.NewEncoder(w)
		for sc.Scan() {
			line := sc.Bytes()
			if len(bytes.TrimSpace(line)) == 0 {
				continue
			}
			var c Case
			if err := json.Unmarshal(line, &c); err != nil {
				fmt.Fprintln(realErr, "bad case:", err)
				os.Exit(2)
			}
			enc.Encode(doCase(mode, c))
		}
	}
	os.Stderr = realErr
}
