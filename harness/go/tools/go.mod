module veriftools

go 1.22.6
