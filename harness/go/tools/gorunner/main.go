// gorunner: runs the real borno binary on a batch of cases (JSONL on stdin) in
// parallel workers and writes one JSON result per case to stdout.
package main

import (
	"bufio"
	"bytes"
	"context"
	"encoding/base64"
	"encoding/json"
	"flag"
	"fmt"
	"os"
	"os/exec"
	"path/filepath"
	"sync"
	"time"
)

type Case struct {
	ID       string   `json:"id"`
	Mode     string   `json:"mode"` // file | repl | argv
	SrcB64   string   `json:"src_b64"`
	StdinB64 string   `json:"stdin_b64"`
	Fname    string   `json:"fname"`     // script file name (default p.bn)
	Argv     []string `json:"argv"`      // for mode argv: literal arguments ({SCRIPT} is replaced by the script path)
	StdinFile bool    `json:"stdin_file"` // feed stdin from a regular file instead of a pipe
	NoFile   bool     `json:"no_file"`   // do not create the script file
	Chmod    int      `json:"chmod"`     // if non-zero, chmod the script file to this mode
	MkDir    bool     `json:"mkdir"`     // create a directory instead of a file at fname
	TimeoutMs int     `json:"timeout_ms"`
	Repeat   int      `json:"repeat"`    // run this many times; all results reported
}

type Result struct {
	ID        string `json:"id"`
	Rep       int    `json:"rep"`
	Status    int    `json:"status"`
	StdoutB64 string `json:"stdout_b64"`
	StderrB64 string `json:"stderr_b64"`
	Timeout   bool   `json:"timeout"`
	Truncated bool   `json:"truncated"`
	Ms        float64 `json:"ms"`
}

type capWriter struct {
	buf    bytes.Buffer
	limit  int
	over   bool
	cancel context.CancelFunc
}

func (w *capWriter) Write(p []byte) (int, error) {
	if w.buf.Len()+len(p) > w.limit {
		room := w.limit - w.buf.Len()
		if room > 0 {
			w.buf.Write(p[:room])
		}
		w.over = true
		w.cancel()
		return len(p), nil
	}
	return w.buf.Write(p)
}

func main() {
	bin := flag.String("bin", "", "path of the borno binary")
	work := flag.String("work", "", "scratch directory")
	workers := flag.Int("j", 16, "workers")
	defTimeout := flag.Int("timeout", 5000, "default per-case timeout in ms")
	outLimit := flag.Int("limit", 1<<20, "stdout/stderr cap in bytes")
	flag.Parse()
	if *bin == "" || *work == "" {
		fmt.Fprintln(os.Stderr, "usage: gorunner -bin borno -work dir < cases.jsonl > results.jsonl")
		os.Exit(2)
	}
	cases := make(chan Case, 256)
	results := make(chan Result, 256)
	var wg sync.WaitGroup
	for w := 0; w < *workers; w++ {
		wg.Add(1)
		go func(w int) {
			defer wg.Done()
			dir := filepath.Join(*work, fmt.Sprintf("w%d", w))
			for c := range cases {
				n := c.Repeat
				if n <= 0 {
					n = 1
				}
				for r := 0; r < n; r++ {
					results <- runCase(*bin, dir, c, r, *defTimeout, *outLimit)
				}
			}
		}(w)
	}
	go func() {
		sc := bufio.NewScanner(os.Stdin)
		sc.Buffer(make([]byte, 1<<20), 1<<28)
		for sc.Scan() {
			line := sc.Bytes()
			if len(bytes.TrimSpace(line)) == 0 {
				continue
			}
			var c Case
			if err := json.Unmarshal(line, &c); err != nil {
				fmt.Fprintln(os.Stderr, "bad case:", err)
				os.Exit(2)
			}
			cases <- c
		}
		close(cases)
		wg.Wait()
		close(results)
	}()
	out := bufio.NewWriterSize(os.Stdout, 1<<20)
	enc := json.NewEncoder(out)
	for r := range results {
		enc.Encode(r)
	}
	out.Flush()
}

func runCase(bin, dir string, c Case, rep, defTimeout, limit int) Result {
	os.RemoveAll(dir)
	os.MkdirAll(dir, 0o755)
	src, _ := base64.StdEncoding.DecodeString(c.SrcB64)
	stdin, _ := base64.StdEncoding.DecodeString(c.StdinB64)
	fname := c.Fname
	if fname == "" {
		fname = "p.bn"
	}
	script := filepath.Join(dir, fname)
	os.MkdirAll(filepath.Dir(script), 0o755)
	if c.MkDir {
		os.MkdirAll(script, 0o755)
	} else if !c.NoFile && c.Mode != "repl" {
		os.WriteFile(script, src, 0o644)
		if c.Chmod != 0 {
			os.Chmod(script, os.FileMode(c.Chmod))
		}
	}
	var args []string
	switch c.Mode {
	case "file":
		args = []string{fname}
	case "repl":
		args = nil
		stdin = src
	case "argv":
		for _, a := range c.Argv {
			if a == "{SCRIPT}" {
				a = fname
			}
			args = append(args, a)
		}
	}
	to := c.TimeoutMs
	if to <= 0 {
		to = defTimeout
	}
	ctx, cancel := context.WithTimeout(context.Background(), time.Duration(to)*time.Millisecond)
	defer cancel()
	cmd := exec.CommandContext(ctx, bin, args...)
	cmd.Dir = dir
	cmd.Env = []string{"PATH=/usr/bin:/bin", "HOME=" + dir}
	so := &capWriter{limit: limit, cancel: cancel}
	se := &capWriter{limit: limit, cancel: cancel}
	cmd.Stdout = so
	cmd.Stderr = se
	if c.StdinFile {
		p := filepath.Join(dir, "stdin.txt")
		os.WriteFile(p, stdin, 0o644)
		f, _ := os.Open(p)
		defer f.Close()
		cmd.Stdin = f
	} else {
		cmd.Stdin = bytes.NewReader(stdin)
	}
	cmd.WaitDelay = 10 * time.Second // only bounds the copying of the pipes after the process has exited
	t0 := time.Now()
	err := cmd.Run()
	ms := float64(time.Since(t0).Microseconds()) / 1000
	res := Result{ID: c.ID, Rep: rep, Ms: ms}
	res.StdoutB64 = base64.StdEncoding.EncodeToString(so.buf.Bytes())
	res.StderrB64 = base64.StdEncoding.EncodeToString(se.buf.Bytes())
	res.Truncated = so.over || se.over
	if ctx.Err() == context.DeadlineExceeded {
		res.Timeout = true
		res.Status = -1
	} else if err != nil {
		if ee, ok := err.(*exec.ExitError); ok {
			res.Status = ee.ExitCode()
		} else {
			res.Status = -2
			res.StderrB64 = base64.StdEncoding.EncodeToString([]byte("gorunner: " + err.Error()))
		}
	}
	if res.Truncated && !res.Timeout {
		res.Timeout = true // killed because it flooded its output: treat like non-termination
		res.Status = -1
	}
	if c.Chmod != 0 {
		os.Chmod(script, 0o644)
	}
	return res
}
