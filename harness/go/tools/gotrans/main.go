// gotrans: tie (A).  Re-reads Borno's Go sources (go/ast, purely syntactic, no
// import of Borno) and emits Gen/GenTables.v: the tables the Coq model is built
// on, as plain Coq data (strings, numbers, lists).  Obligation files then prove
// each generated table equal to the model's.  Where the source no longer has the
// shape a table is read from, the table contains an "extraction_failed:<site>"
// marker, which makes the obligation fail.
package main

import (
	"bytes"
	"fmt"
	"go/ast"
	"go/parser"
	"go/printer"
	"go/token"
	"os"
	"path/filepath"
	"sort"
	"strconv"
	"strings"
)

var fset = token.NewFileSet()
var root string

func parse(rel string) *ast.File {
	f, err := parser.ParseFile(fset, filepath.Join(root, rel), nil, 0)
	if err != nil {
		fmt.Fprintln(os.Stderr, "gotrans:", err)
		os.Exit(1)
	}
	return f
}

func selName(e ast.Expr) string {
	switch x := e.(type) {
	case *ast.SelectorExpr:
		return x.Sel.Name
	case *ast.Ident:
		return x.Name
	case *ast.StarExpr:
		return selName(x.X)
	}
	return "?"
}

func exprStr(e ast.Expr) string {
	switch x := e.(type) {
	case *ast.Ident:
		return x.Name
	case *ast.SelectorExpr:
		return exprStr(x.X) + "." + x.Sel.Name
	case *ast.IndexExpr:
		return exprStr(x.X) + "[]"
	case *ast.SliceExpr:
		return exprStr(x.X) + "[:]"
	case *ast.CallExpr:
		return exprStr(x.Fun) + "()"
	case *ast.StarExpr:
		return "*" + exprStr(x.X)
	case *ast.UnaryExpr:
		return x.Op.String() + exprStr(x.X)
	case *ast.BasicLit:
		return x.Value
	case *ast.ParenExpr:
		return "(" + exprStr(x.X) + ")"
	case *ast.BinaryExpr:
		return exprStr(x.X) + x.Op.String() + exprStr(x.Y)
	}
	return fmt.Sprintf("%T", e)
}

func cpsOfLit(b *ast.BasicLit) []rune {
	switch b.Kind {
	case token.STRING:
		s, err := strconv.Unquote(b.Value)
		if err != nil {
			return []rune("?")
		}
		return []rune(s)
	case token.CHAR:
		s, err := strconv.Unquote(b.Value)
		if err != nil {
			return []rune("?")
		}
		return []rune(s)
	}
	return []rune("?")
}

func coqCps(rs []rune) string {
	parts := make([]string, len(rs))
	for i, r := range rs {
		parts[i] = strconv.Itoa(int(r))
	}
	return "[" + strings.Join(parts, "; ") + "]"
}
func coqStr(s string) string { return "\"" + strings.ReplaceAll(s, "\"", "\"\"") + "\"" }
func coqStrList(l []string) string {
	parts := make([]string, len(l))
	for i, s := range l {
		parts[i] = coqStr(s)
	}
	return "[" + strings.Join(parts, "; ") + "]"
}
func coqBool(b bool) string {
	if b {
		return "true"
	}
	return "false"
}

func lessRunes(a, b []rune) bool {
	for i := 0; i < len(a) && i < len(b); i++ {
		if a[i] != b[i] {
			return a[i] < b[i]
		}
	}
	return len(a) < len(b)
}

var out strings.Builder

func emit(format string, a ...interface{}) { fmt.Fprintf(&out, format, a...) }

func funcDecls(f *ast.File) map[string]*ast.FuncDecl {
	m := map[string]*ast.FuncDecl{}
	for _, d := range f.Decls {
		if fd, ok := d.(*ast.FuncDecl); ok {
			name := fd.Name.Name
			if fd.Recv != nil && len(fd.Recv.List) == 1 {
				name = selName(fd.Recv.List[0].Type) + "." + name
			}
			m[name] = fd
		}
	}
	return m
}

// ---------------------------------------------------------------- token kinds
func tokenKinds() {
	f := parse("token/token.go")
	var names []string
	ast.Inspect(f, func(n ast.Node) bool {
		gd, ok := n.(*ast.GenDecl)
		if !ok || gd.Tok != token.CONST {
			return true
		}
		isTok := false
		for _, sp := range gd.Specs {
			vs := sp.(*ast.ValueSpec)
			if vs.Type != nil && selName(vs.Type) == "TokenType" {
				isTok = true
			}
			if isTok {
				for _, nm := range vs.Names {
					names = append(names, nm.Name)
				}
			}
		}
		return false
	})
	emit("Definition gen_token_kinds : list string := %s.\n\n", coqStrList(names))
}

// ---------------------------------------------------------------- lexer tables
type kv struct {
	k []rune
	v string
}

func lexerTables() {
	f := parse("lexer/scanner.go")
	var kws []kv
	ast.Inspect(f, func(n ast.Node) bool {
		if vs, ok := n.(*ast.ValueSpec); ok && len(vs.Names) == 1 && vs.Names[0].Name == "keywords" && len(vs.Values) == 1 {
			if cl, ok := vs.Values[0].(*ast.CompositeLit); ok {
				for _, el := range cl.Elts {
					p, ok := el.(*ast.KeyValueExpr)
					if !ok {
						continue
					}
					if b, ok := p.Key.(*ast.BasicLit); ok {
						kws = append(kws, kv{cpsOfLit(b), selName(p.Value)})
					}
				}
			}
		}
		return true
	})
	sort.Slice(kws, func(i, j int) bool { return lessRunes(kws[i].k, kws[j].k) })
	emit("Definition gen_keywords : list (list N * string) := [\n")
	for i, p := range kws {
		sep := ";"
		if i == len(kws)-1 {
			sep = ""
		}
		emit("  (%s, %s)%s\n", coqCps(p.k), coqStr(p.v), sep)
	}
	emit("].\n\n")

	fds := funcDecls(f)
	// how a word is classified: the statements of identifier() after its scanning loop, printed from the syntax tree
	// (the key of the keyword look-up must be the whole lexeme and the look-up must be the spelling table itself)
	var classify []string
	if fd, ok := fds["Scanner.identifier"]; ok && fd.Body != nil {
		for _, st := range fd.Body.List {
			if _, isLoop := st.(*ast.ForStmt); isLoop {
				continue
			}
			switch x := st.(type) {
			case *ast.IfStmt:
				var b bytes.Buffer
				if x.Init != nil {
					printer.Fprint(&b, fset, x.Init)
					b.WriteString("; ")
				}
				printer.Fprint(&b, fset, x.Cond)
				classify = append(classify, "if "+strings.Join(strings.Fields(b.String()), " "))
				for _, arm := range []ast.Stmt{x.Body, x.Else} {
					if arm != nil {
						var c bytes.Buffer
						printer.Fprint(&c, fset, arm)
						classify = append(classify, strings.Join(strings.Fields(c.String()), " "))
					}
				}
			default:
				var b bytes.Buffer
				printer.Fprint(&b, fset, st)
				classify = append(classify, strings.Join(strings.Fields(b.String()), " "))
			}
		}
	}
	emit("Definition gen_word_classification : list string := %s.\n\n", coqStrList(classify))
	// character dispatch of scanToken
	type one struct {
		c rune
		t string
	}
	type two struct {
		c, d rune
		t    string
	}
	var ones []one
	var twos []two
	var blanks, newlines, quotes, comment2 []rune
	failed := ""
	addTok := func(s ast.Stmt) (string, bool) {
		es, ok := s.(*ast.ExprStmt)
		if !ok {
			return "", false
		}
		c, ok := es.X.(*ast.CallExpr)
		if !ok || selName(c.Fun) != "addToken" || len(c.Args) != 1 {
			return "", false
		}
		return selName(c.Args[0]), true
	}
	matchChar := func(e ast.Expr) (rune, bool) {
		c, ok := e.(*ast.CallExpr)
		if !ok || selName(c.Fun) != "match" || len(c.Args) != 1 {
			return 0, false
		}
		b, ok := c.Args[0].(*ast.BasicLit)
		if !ok {
			return 0, false
		}
		return cpsOfLit(b)[0], true
	}
	if fd, ok := fds["Scanner.scanToken"]; ok {
		ast.Inspect(fd.Body, func(n ast.Node) bool {
			sw, ok := n.(*ast.SwitchStmt)
			if !ok {
				return true
			}
			for _, st := range sw.Body.List {
				cc := st.(*ast.CaseClause)
				if cc.List == nil {
					continue // default: digits, letters, bad characters (compared by the exhaustive code-point sweep)
				}
				var chars []rune
				for _, e := range cc.List {
					if b, ok := e.(*ast.BasicLit); ok {
						chars = append(chars, cpsOfLit(b)[0])
					}
				}
				if len(cc.Body) == 0 {
					blanks = append(blanks, chars...)
					continue
				}
				if len(cc.Body) == 1 {
					if t, ok := addTok(cc.Body[0]); ok {
						for _, c := range chars {
							ones = append(ones, one{c, t})
						}
						continue
					}
					if ifs, ok := cc.Body[0].(*ast.IfStmt); ok && len(chars) == 1 {
						c := chars[0]
						cur := ifs
						okShape := true
						for cur != nil {
							d, ok := matchChar(cur.Cond)
							if !ok {
								okShape = false
								break
							}
							if len(cur.Body.List) == 1 {
								if t, ok := addTok(cur.Body.List[0]); ok {
									twos = append(twos, two{c, d, t})
								} else {
									comment2 = append(comment2, c, d)
								}
							} else {
								comment2 = append(comment2, c, d)
							}
							switch el := cur.Else.(type) {
							case *ast.IfStmt:
								cur = el
							case *ast.BlockStmt:
								if len(el.List) == 1 {
									if t, ok := addTok(el.List[0]); ok {
										ones = append(ones, one{c, t})
									} else {
										okShape = false
									}
								} else {
									okShape = false
								}
								cur = nil
							default:
								okShape = false
								cur = nil
							}
						}
						if !okShape {
							failed = "scanToken:case " + string(c)
						}
						continue
					}
					if es, ok := cc.Body[0].(*ast.IncDecStmt); ok && exprStr(es.X) == "s.line" {
						newlines = append(newlines, chars...)
						continue
					}
					if es, ok := cc.Body[0].(*ast.ExprStmt); ok {
						if c, ok := es.X.(*ast.CallExpr); ok && selName(c.Fun) == "stringLiteral" {
							quotes = append(quotes, chars...)
							continue
						}
					}
				}
				failed = "scanToken:case " + string(chars)
			}
			return false
		})
	} else {
		failed = "scanToken missing"
	}
	sort.Slice(ones, func(i, j int) bool { return ones[i].c < ones[j].c })
	sort.Slice(twos, func(i, j int) bool {
		if twos[i].c != twos[j].c {
			return twos[i].c < twos[j].c
		}
		return twos[i].d < twos[j].d
	})
	emit("Definition gen_one_char : list (N * string) := [")
	for i, o := range ones {
		if i > 0 {
			emit("; ")
		}
		emit("(%d, %s)", o.c, coqStr(o.t))
	}
	if failed != "" {
		if len(ones) > 0 {
			emit("; ")
		}
		emit("(0, %s)", coqStr("extraction_failed:"+failed))
	}
	emit("].\n")
	emit("Definition gen_two_char : list (N * N * string) := [")
	for i, o := range twos {
		if i > 0 {
			emit("; ")
		}
		emit("(%d, %d, %s)", o.c, o.d, coqStr(o.t))
	}
	emit("].\n")
	emit("Definition gen_blank_chars : list N := %s.\n", coqCps(blanks))
	emit("Definition gen_newline_chars : list N := %s.\n", coqCps(newlines))
	emit("Definition gen_quote_chars : list N := %s.\n", coqCps(quotes))
	emit("Definition gen_comment_openers : list N := %s.\n\n", coqCps(comment2))

	// isDigit: (c >= 'a' && c <= 'b') || (c >= 'c' && c <= 'd')
	var ranges [][2]rune
	okDigits := false
	if fd, ok := fds["isDigit"]; ok && len(fd.Body.List) == 1 {
		if rs, ok := fd.Body.List[0].(*ast.ReturnStmt); ok && len(rs.Results) == 1 {
			okDigits = true
			var walk func(e ast.Expr)
			walk = func(e ast.Expr) {
				switch x := e.(type) {
				case *ast.ParenExpr:
					walk(x.X)
				case *ast.BinaryExpr:
					if x.Op == token.LOR {
						walk(x.X)
						walk(x.Y)
						return
					}
					if x.Op == token.LAND {
						lo, ok1 := x.X.(*ast.BinaryExpr)
						hi, ok2 := x.Y.(*ast.BinaryExpr)
						if ok1 && ok2 && lo.Op == token.GEQ && hi.Op == token.LEQ {
							a, oka := lo.Y.(*ast.BasicLit)
							b, okb := hi.Y.(*ast.BasicLit)
							if oka && okb {
								ranges = append(ranges, [2]rune{cpsOfLit(a)[0], cpsOfLit(b)[0]})
								return
							}
						}
					}
					okDigits = false
				default:
					okDigits = false
				}
			}
			walk(rs.Results[0])
		}
	}
	emit("Definition gen_digit_ranges : list (N * N) := [")
	for i, r := range ranges {
		if i > 0 {
			emit("; ")
		}
		emit("(%d, %d)", r[0], r[1])
	}
	if !okDigits {
		if len(ranges) > 0 {
			emit("; ")
		}
		emit("(1114112, 0)")
	}
	emit("].\n")
	// isAlpha: unicode.IsLetter(r) || unicode.IsMark(r) || r == '_'
	var alpha []string
	if fd, ok := fds["isAlpha"]; ok && len(fd.Body.List) == 1 {
		if rs, ok := fd.Body.List[0].(*ast.ReturnStmt); ok && len(rs.Results) == 1 {
			var walk func(e ast.Expr)
			walk = func(e ast.Expr) {
				switch x := e.(type) {
				case *ast.ParenExpr:
					walk(x.X)
				case *ast.BinaryExpr:
					if x.Op == token.LOR {
						walk(x.X)
						walk(x.Y)
					} else if x.Op == token.EQL {
						if b, ok := x.Y.(*ast.BasicLit); ok {
							alpha = append(alpha, "char:"+strconv.Itoa(int(cpsOfLit(b)[0])))
						} else {
							alpha = append(alpha, "extraction_failed:isAlpha")
						}
					} else {
						alpha = append(alpha, "extraction_failed:isAlpha")
					}
				case *ast.CallExpr:
					alpha = append(alpha, exprStr(x.Fun))
				default:
					alpha = append(alpha, "extraction_failed:isAlpha")
				}
			}
			walk(rs.Results[0])
		}
	}
	emit("Definition gen_alpha_classes : list string := %s.\n\n", coqStrList(alpha))
}

// ---------------------------------------------------------------- utils: digit table
func utilsTables() {
	f := parse("utils/utils.go")
	type p struct{ k, v rune }
	var tab []p
	ast.Inspect(f, func(n ast.Node) bool {
		fd, ok := n.(*ast.FuncDecl)
		if !ok || fd.Name.Name != "ConvertBanglaDigitsToASCII" {
			return true
		}
		ast.Inspect(fd.Body, func(m ast.Node) bool {
			if cl, ok := m.(*ast.CompositeLit); ok {
				if _, ok := cl.Type.(*ast.MapType); ok {
					for _, el := range cl.Elts {
						e := el.(*ast.KeyValueExpr)
						a, ok1 := e.Key.(*ast.BasicLit)
						b, ok2 := e.Value.(*ast.BasicLit)
						if ok1 && ok2 {
							tab = append(tab, p{cpsOfLit(a)[0], cpsOfLit(b)[0]})
						}
					}
				}
			}
			return true
		})
		return false
	})
	sort.Slice(tab, func(i, j int) bool { return tab[i].k < tab[j].k })
	emit("Definition gen_digit_table : list (N * N) := [")
	for i, e := range tab {
		if i > 0 {
			emit("; ")
		}
		emit("(%d, %d)", e.k, e.v)
	}
	emit("].\n\n")
}

// ---------------------------------------------------------------- parser tables
func matchArgs(e ast.Expr) ([]string, bool) {
	c, ok := e.(*ast.CallExpr)
	if !ok || selName(c.Fun) != "match" {
		return nil, false
	}
	var r []string
	for _, a := range c.Args {
		r = append(r, selName(a))
	}
	return r, true
}

type level struct {
	fn, first, next, ctor, kind string
	ops                         []string
	leftAssoc                   bool
}

func parserTables() {
	f := parse("parser/parser.go")
	fds := funcDecls(f)
	// reserved identifiers
	var res [][]rune
	ast.Inspect(f, func(n ast.Node) bool {
		if vs, ok := n.(*ast.ValueSpec); ok && len(vs.Names) == 1 && vs.Names[0].Name == "reservedIdentifiers" && len(vs.Values) == 1 {
			if cl, ok := vs.Values[0].(*ast.CompositeLit); ok {
				for _, el := range cl.Elts {
					if p, ok := el.(*ast.KeyValueExpr); ok {
						if b, ok := p.Key.(*ast.BasicLit); ok {
							res = append(res, cpsOfLit(b))
						}
					}
				}
			}
		}
		return true
	})
	sort.Slice(res, func(i, j int) bool { return lessRunes(res[i], res[j]) })
	emit("Definition gen_reserved : list (list N) := [\n")
	for i, r := range res {
		sep := ";"
		if i == len(res)-1 {
			sep = ""
		}
		emit("  %s%s\n", coqCps(r), sep)
	}
	emit("].\n\n")

	// the ladder: follow the chain of "first operand" callees from expression()
	levels := map[string]*level{}
	for name, fd := range fds {
		if fd.Recv == nil || fd.Body == nil {
			continue
		}
		lv := &level{fn: fd.Name.Name}
		for _, st := range fd.Body.List {
			switch s := st.(type) {
			case *ast.AssignStmt:
				if lv.first == "" && len(s.Rhs) == 1 {
					if c, ok := s.Rhs[0].(*ast.CallExpr); ok {
						lv.first = selName(c.Fun)
					}
				}
			case *ast.ForStmt:
				if o, ok := matchArgs(s.Cond); ok && lv.kind == "" {
					lv.ops, lv.kind = o, "loop"
					ast.Inspect(s.Body, func(n ast.Node) bool {
						switch x := n.(type) {
						case *ast.AssignStmt:
							if len(x.Lhs) == 2 && len(x.Rhs) == 1 {
								if c, ok := x.Rhs[0].(*ast.CallExpr); ok && lv.next == "" {
									lv.next = selName(c.Fun)
								}
							}
						case *ast.CompositeLit:
							lv.ctor = selName(x.Type)
							l, r := "", ""
							for _, el := range x.Elts {
								if p, ok := el.(*ast.KeyValueExpr); ok {
									switch selName(p.Key) {
									case "Left":
										l = exprStr(p.Value)
									case "Right":
										r = exprStr(p.Value)
									}
								}
							}
							lv.leftAssoc = l == "expr" && r == "right"
						}
						return true
					})
				}
			case *ast.IfStmt:
				if o, ok := matchArgs(s.Cond); ok && lv.kind == "" && lv.first != "" {
					lv.ops, lv.kind = o, "if"
				}
			}
		}
		_ = name
		levels[fd.Name.Name] = lv
	}
	// expression -> assignment -> first level
	start := ""
	if a, ok := levels["assignment"]; ok {
		start = a.first
	}
	emit("Definition gen_ladder : list (list string * bool) := [\n")
	var chain []string
	cur := start
	okLadder := start != ""
	firstRow := true
	for steps := 0; cur != "" && cur != "unary" && steps < 40; steps++ {
		lv, ok := levels[cur]
		if !ok || lv.kind != "loop" || lv.first != lv.next || !lv.leftAssoc {
			okLadder = false
			break
		}
		if !firstRow {
			emit(";\n")
		}
		firstRow = false
		emit("  (%s, %s)", coqStrList(lv.ops), coqBool(lv.ctor == "Logical"))
		if lv.ctor != "Logical" && lv.ctor != "Binary" {
			okLadder = false
		}
		chain = append(chain, cur)
		cur = lv.first
	}
	if cur != "unary" {
		okLadder = false
	}
	if !okLadder {
		if !firstRow {
			emit(";\n")
		}
		emit("  ([%s], false)", coqStr("extraction_failed:ladder at "+cur))
	}
	emit("\n].\n")
	emit("Definition gen_ladder_functions : list string := %s.\n", coqStrList(chain))

	// unary: if p.match(ops) { right := p.unary() ... &ast.Unary } ; return p.call()
	var uops []string
	urec, ufall := "", ""
	if fd, ok := fds["Parser.unary"]; ok {
		for _, st := range fd.Body.List {
			switch s := st.(type) {
			case *ast.IfStmt:
				if o, ok := matchArgs(s.Cond); ok {
					uops = o
					ast.Inspect(s.Body, func(n ast.Node) bool {
						if a, ok := n.(*ast.AssignStmt); ok && len(a.Rhs) == 1 && len(a.Lhs) == 2 {
							if c, ok := a.Rhs[0].(*ast.CallExpr); ok && urec == "" {
								urec = selName(c.Fun)
							}
						}
						return true
					})
				}
			case *ast.ReturnStmt:
				if len(s.Results) == 1 {
					if c, ok := s.Results[0].(*ast.CallExpr); ok {
						ufall = selName(c.Fun)
					}
				}
			}
		}
	}
	emit("Definition gen_unary : list string * string * string := (%s, %s, %s).\n", coqStrList(uops), coqStr(urec), coqStr(ufall))

	// assignment: right-recursive through assignment(); target cases
	var targets []string
	arec := ""
	if fd, ok := fds["Parser.assignment"]; ok {
		ast.Inspect(fd.Body, func(n ast.Node) bool {
			switch x := n.(type) {
			case *ast.TypeSwitchStmt:
				for _, c := range x.Body.List {
					cc := c.(*ast.CaseClause)
					for _, e := range cc.List {
						targets = append(targets, selName(e))
					}
				}
			case *ast.IfStmt:
				if o, ok := matchArgs(x.Cond); ok && len(o) == 1 && o[0] == "EQUAL" {
					ast.Inspect(x.Body, func(m ast.Node) bool {
						if a, ok := m.(*ast.AssignStmt); ok && len(a.Rhs) == 1 && len(a.Lhs) == 2 && arec == "" {
							if c, ok := a.Rhs[0].(*ast.CallExpr); ok {
								arec = selName(c.Fun)
							}
						}
						return true
					})
				}
			}
			return true
		})
	}
	emit("Definition gen_assign_targets : list string := %s.\n", coqStrList(targets))
	emit("Definition gen_assign_value_parser : string := %s.\n", coqStr(arec))

	// suffixes handled by call()
	var suffixes []string
	if fd, ok := fds["Parser.call"]; ok {
		ast.Inspect(fd.Body, func(n ast.Node) bool {
			if s, ok := n.(*ast.IfStmt); ok {
				if o, ok := matchArgs(s.Cond); ok {
					suffixes = append(suffixes, o...)
				}
			}
			return true
		})
	}
	emit("Definition gen_suffix_openers : list string := %s.\n", coqStrList(suffixes))

	// max parameter count: len(parameters) >= K
	maxp := "extraction_failed"
	if fd, ok := fds["Parser.function"]; ok {
		ast.Inspect(fd.Body, func(n ast.Node) bool {
			if b, ok := n.(*ast.BinaryExpr); ok && b.Op == token.GEQ && strings.HasPrefix(exprStr(b.X), "len(") {
				if l, ok := b.Y.(*ast.BasicLit); ok {
					maxp = l.Value
				}
			}
			return true
		})
	}
	if _, err := strconv.Atoi(maxp); err != nil {
		maxp = "0"
	}
	emit("Definition gen_max_params : N := %s.\n", maxp)

	// statement keyword dispatch in statement() and declaration(): token -> callee
	var disp []string
	for _, fn := range []string{"Parser.declaration", "Parser.statement"} {
		if fd, ok := fds[fn]; ok {
			for _, st := range fd.Body.List {
				if s, ok := st.(*ast.IfStmt); ok {
					if o, ok := matchArgs(s.Cond); ok && len(o) == 1 {
						callee := ""
						ast.Inspect(s.Body, func(n ast.Node) bool {
							if c, ok := n.(*ast.CallExpr); ok && callee == "" {
								nm := selName(c.Fun)
								if nm != "consume" {
									callee = nm
								} else if len(c.Args) > 0 {
									callee = "consume:" + selName(c.Args[0])
								}
							}
							return true
						})
						disp = append(disp, o[0]+"->"+callee)
					}
				}
			}
		}
	}
	emit("Definition gen_stmt_dispatch : list string := %s.\n", coqStrList(disp))

	// consume calls whose error result is discarded (lenient sites)
	var lenient []string
	for name, fd := range fds {
		if fd.Body == nil {
			continue
		}
		for _, st := range fd.Body.List {
			if es, ok := st.(*ast.ExprStmt); ok {
				if c, ok := es.X.(*ast.CallExpr); ok && selName(c.Fun) == "consume" && len(c.Args) > 0 {
					lenient = append(lenient, strings.TrimPrefix(name, "Parser.")+":"+selName(c.Args[0]))
				}
			}
		}
	}
	sort.Strings(lenient)
	emit("Definition gen_lenient_consumes : list string := %s.\n\n", coqStrList(lenient))
}

// ---------------------------------------------------------------- interpreter tables
func mapTypedNames(files []*ast.File) map[string]bool {
	names := map[string]bool{}
	isMap := func(e ast.Expr) bool {
		_, ok := e.(*ast.MapType)
		return ok
	}
	for _, f := range files {
		ast.Inspect(f, func(n ast.Node) bool {
			switch x := n.(type) {
			case *ast.Field:
				if isMap(x.Type) {
					for _, nm := range x.Names {
						names[nm.Name] = true
					}
				}
			case *ast.AssignStmt:
				for i, r := range x.Rhs {
					m := false
					switch y := r.(type) {
					case *ast.CallExpr:
						if id, ok := y.Fun.(*ast.Ident); ok && id.Name == "make" && len(y.Args) > 0 && isMap(y.Args[0]) {
							m = true
						}
					case *ast.CompositeLit:
						m = isMap(y.Type)
					case *ast.TypeAssertExpr:
						m = y.Type != nil && isMap(y.Type)
					}
					if m && i < len(x.Lhs) {
						if id, ok := x.Lhs[i].(*ast.Ident); ok {
							names[id.Name] = true
						}
					}
				}
			case *ast.ValueSpec:
				for i, v := range x.Values {
					if cl, ok := v.(*ast.CompositeLit); ok && isMap(cl.Type) && i < len(x.Names) {
						names[x.Names[i].Name] = true
					}
				}
				if x.Type != nil && isMap(x.Type) {
					for _, nm := range x.Names {
						names[nm.Name] = true
					}
				}
			}
			return true
		})
	}
	return names
}

// mechTrace: the error-flag mechanism of one piece of code, in source order: sub-evaluations (E), polls of
// utils.HadRuntimeError (P, with the condition when it is not the bare flag), reports (R + start of the
// message), calls of the callee (CALL), output (OUT), scope operations (ENV), operator helpers (OP), stores
// into a cell (STORE), loops (LOOP) and returns of a non-None signal are left out (see gen_arm_signals).
func mechTrace(body []ast.Stmt) []string {
	var tr []string
	for _, s := range body {
		ast.Inspect(s, func(n ast.Node) bool {
			switch x := n.(type) {
			case *ast.IfStmt:
				if strings.Contains(exprStr(x.Cond), "HadRuntimeError") {
					c := exprStr(x.Cond)
					if c == "utils.HadRuntimeError" {
						tr = append(tr, "P")
					} else {
						tr = append(tr, "P:"+c)
					}
				}
			case *ast.ForStmt, *ast.RangeStmt:
				tr = append(tr, "LOOP")
			case *ast.AssignStmt:
				if len(x.Lhs) == 1 {
					if _, ok := x.Lhs[0].(*ast.IndexExpr); ok {
						tr = append(tr, "STORE:"+exprStr(x.Lhs[0]))
					}
				}
			case *ast.CallExpr:
				fn := exprStr(x.Fun)
				switch {
				case fn == "i.eval" && len(x.Args) >= 2:
					tr = append(tr, "E:"+exprStr(x.Args[0]))
				case fn == "utils.RuntimeError" && len(x.Args) == 2:
					msg := ""
					ast.Inspect(x.Args[1], func(m ast.Node) bool {
						if b, ok := m.(*ast.BasicLit); ok && msg == "" && b.Kind == token.STRING {
							msg, _ = strconv.Unquote(b.Value)
						}
						return true
					})
					if len(msg) > 24 {
						msg = msg[:24]
					}
					tr = append(tr, "R:"+msg)
				case fn == "function.Call":
					tr = append(tr, "CALL")
				case fn == "fmt.Println":
					tr = append(tr, "OUT")
				case fn == "evaluateBinary" || fn == "evaluateUnary":
					tr = append(tr, "OP:"+fn)
				case strings.HasSuffix(fn, ".Define") || strings.HasSuffix(fn, ".Assign") || strings.HasSuffix(fn, ".Get") || strings.HasSuffix(fn, ".GetInCurrentScope"):
					tr = append(tr, "ENV:"+selName(x.Fun))
				}
			}
			return true
		})
	}
	return tr
}

func interpreterTables() {
	rels := []string{"interpreter/interpreter.go", "interpreter/function.go", "interpreter/nativeFunction.go",
		"interpreter/nativeFunctionArray.go", "interpreter/nativeFunctionObject.go", "interpreter/nativeFunctionMath.go",
		"ast/expr.go", "ast/stmt.go", "parser/parser.go", "environment/environment.go"}
	var files []*ast.File
	for _, r := range rels {
		files = append(files, parse(r))
	}
	// built-in registry, in registration order
	interp := files[0]
	fds := funcDecls(interp)
	type reg struct {
		name []rune
		ty   string
	}
	var regs []reg
	if fd, ok := fds["NewInterpreter"]; ok {
		ast.Inspect(fd.Body, func(n ast.Node) bool {
			if c, ok := n.(*ast.CallExpr); ok && selName(c.Fun) == "Define" && len(c.Args) == 2 {
				if b, ok := c.Args[0].(*ast.BasicLit); ok {
					if cl, ok := c.Args[1].(*ast.CompositeLit); ok {
						regs = append(regs, reg{cpsOfLit(b), selName(cl.Type)})
					}
				}
			}
			return true
		})
	}
	emit("Definition gen_natives : list (list N * string) := [\n")
	for i, r := range regs {
		sep := ";"
		if i == len(regs)-1 {
			sep = ""
		}
		emit("  (%s, %s)%s\n", coqCps(r.name), coqStr(r.ty), sep)
	}
	emit("].\n")
	// Arity() of each native type
	arity := map[string]string{}
	label := map[string]string{}
	for _, f := range files[1:6] {
		for name, fd := range funcDecls(f) {
			if strings.HasSuffix(name, ".Arity") && fd.Body != nil && len(fd.Body.List) == 1 {
				if rs, ok := fd.Body.List[0].(*ast.ReturnStmt); ok && len(rs.Results) == 1 {
					arity[strings.TrimSuffix(name, ".Arity")] = exprStr(rs.Results[0])
				}
			}
			if strings.HasSuffix(name, ".String") && fd.Body != nil && len(fd.Body.List) == 1 {
				if rs, ok := fd.Body.List[0].(*ast.ReturnStmt); ok && len(rs.Results) == 1 {
					if b, ok := rs.Results[0].(*ast.BasicLit); ok {
						s, _ := strconv.Unquote(b.Value)
						label[strings.TrimSuffix(name, ".String")] = s
					}
				}
			}
		}
	}
	emit("Definition gen_native_arity : list (string * Z) := [")
	for i, r := range regs {
		if i > 0 {
			emit("; ")
		}
		a, ok := arity[r.ty]
		if !ok {
			a = "-99"
		}
		if _, err := strconv.Atoi(a); err != nil {
			a = "-99"
		}
		emit("(%s, (%s)%%Z)", coqStr(r.ty), a)
	}
	emit("].\n")
	// the body of every built-in's Call, as the sequence in source order of: error returns (ERR + start of the message),
	// library calls (math.*, strings.*, sort.*, time.*, fmt.Print*, bufio/os readers), append/copy/make/delete/len on the
	// argument data, loops, and comparisons against len(arguments).  Eval.call_native transcribes exactly this.
	nativeTrace := func(body *ast.BlockStmt) []string {
		var tr []string
		ast.Inspect(body, func(n ast.Node) bool {
			switch x := n.(type) {
			case *ast.ForStmt, *ast.RangeStmt:
				tr = append(tr, "LOOP")
			case *ast.BinaryExpr:
				l, r := exprStr(x.X), exprStr(x.Y)
				if l == "len()" && (x.Op == token.EQL || x.Op == token.NEQ || x.Op == token.LSS || x.Op == token.GTR || x.Op == token.LEQ || x.Op == token.GEQ) {
					if c, ok := x.X.(*ast.CallExpr); ok && len(c.Args) == 1 {
						tr = append(tr, "LEN("+exprStr(c.Args[0])+")"+x.Op.String()+r)
					}
				}
				if (x.Op == token.LSS || x.Op == token.GEQ || x.Op == token.GTR || x.Op == token.LEQ) && l != "len()" {
					tr = append(tr, "CMP:"+l+x.Op.String()+r)
				}
			case *ast.CallExpr:
				fn := exprStr(x.Fun)
				switch {
				case fn == "fmt.Errorf" || fn == "errors.New":
					msg := ""
					if len(x.Args) > 0 {
						if b, ok := x.Args[0].(*ast.BasicLit); ok {
							msg, _ = strconv.Unquote(b.Value)
						}
					}
					if len(msg) > 28 {
						msg = msg[:28]
					}
					tr = append(tr, "ERR:"+msg)
				case strings.HasPrefix(fn, "math.") || strings.HasPrefix(fn, "strings.") || strings.HasPrefix(fn, "sort.") || strings.HasPrefix(fn, "time.") ||
					strings.HasPrefix(fn, "fmt.Print") || strings.HasPrefix(fn, "bufio.") || strings.HasSuffix(fn, ".ReadString") || strings.HasPrefix(fn, "strconv.") || strings.HasPrefix(fn, "norm."):
					tr = append(tr, "LIB:"+fn)
				case fn == "append" || fn == "copy" || fn == "make" || fn == "delete":
					a := ""
					if len(x.Args) > 0 {
						a = exprStr(x.Args[0])
					}
					tr = append(tr, "BUILTIN:"+fn+"("+a+")")
				case fn == "toNumber" || fn == "toInt64" || fn == "isTruthy" || fn == "stringify" || fn == "isEqual":
					tr = append(tr, "HELPER:"+fn)
				}
			}
			return true
		})
		return tr
	}
	emit("Definition gen_native_trace : list (string * list string) := [\n")
	for i, r := range regs {
		var tr []string
		for _, f := range files[1:6] {
			if fd, ok := funcDecls(f)[r.ty+".Call"]; ok && fd.Body != nil {
				tr = nativeTrace(fd.Body)
			}
		}
		sep := ";"
		if i == len(regs)-1 {
			sep = ""
		}
		emit("  (%s, %s)%s\n", coqStr(r.ty), coqStrList(tr), sep)
	}
	emit("].\n")
	emit("Definition gen_native_label : list (string * list N) := [")
	for i, r := range regs {
		if i > 0 {
			emit("; ")
		}
		emit("(%s, %s)", coqStr(r.ty), coqCps([]rune(label[r.ty])))
	}
	emit("].\n\n")

	// arms of eval and, per arm, the fields handed to i.eval in textual order
	var arms []string
	type armInfo struct {
		name   string
		order  []string
		sigs   []string
		scopes []string
		trace  []string
	}
	var infos []armInfo
	entryPoll := false
	callPoll := false
	if fd, ok := fds["Interpreter.eval"]; ok {
		// entry poll: first statement is `if utils.HadRuntimeError { return ... }`
		for _, st := range fd.Body.List {
			if ifs, ok := st.(*ast.IfStmt); ok && exprStr(ifs.Cond) == "utils.HadRuntimeError" {
				entryPoll = true
			}
			if ts, ok := st.(*ast.TypeSwitchStmt); ok {
				for _, c := range ts.Body.List {
					cc := c.(*ast.CaseClause)
					if cc.List == nil {
						continue
					}
					name := selName(cc.List[0])
					arms = append(arms, name)
					info := armInfo{name: name}
					info.trace = mechTrace(cc.Body)
					seenSig := map[string]bool{}
					for _, s := range cc.Body {
						ast.Inspect(s, func(n ast.Node) bool {
							switch x := n.(type) {
							case *ast.CallExpr:
								fn := exprStr(x.Fun)
								if fn == "i.eval" && len(x.Args) >= 2 {
									info.order = append(info.order, exprStr(x.Args[0])+"@"+exprStr(x.Args[1]))
								}
								if fn == "environment.NewEnvironmentWithParent" && len(x.Args) == 1 {
									info.scopes = append(info.scopes, exprStr(x.Args[0]))
								}
								if fn == "function.Call" {
									info.order = append(info.order, "CALL")
								}
								if fn == "function.Arity" && (len(info.order) == 0 || info.order[len(info.order)-1] != "ARITY") {
									info.order = append(info.order, "ARITY")
								}
							case *ast.SelectorExpr:
							case *ast.Ident:
								if strings.HasPrefix(x.Name, "ControlFlow") && x.Name != "ControlFlowSignal" && !seenSig[x.Name] {
									// only tests, not constructions
								}
							case *ast.BinaryExpr:
								if (x.Op == token.EQL || x.Op == token.NEQ) && strings.HasSuffix(exprStr(x.X), ".Type") {
									if id, ok := x.Y.(*ast.Ident); ok && strings.HasPrefix(id.Name, "ControlFlow") {
										tag := x.Op.String() + id.Name
										if !seenSig[tag] {
											seenSig[tag] = true
											info.sigs = append(info.sigs, tag)
										}
									}
								}
							case *ast.IfStmt:
								if name == "Call" && exprStr(x.Cond) == "utils.HadRuntimeError" {
									callPoll = true
								}
							}
							return true
						})
					}
					infos = append(infos, info)
				}
			}
		}
	}
	emit("Definition gen_eval_arms : list string := %s.\n", coqStrList(arms))
	emit("Definition gen_eval_order : list (string * list string) := [\n")
	for i, in := range infos {
		sep := ";"
		if i == len(infos)-1 {
			sep = ""
		}
		emit("  (%s, %s)%s\n", coqStr(in.name), coqStrList(in.order), sep)
	}
	emit("].\n")
	emit("Definition gen_arm_signals : list (string * list string) := [\n")
	first := true
	for _, in := range infos {
		switch in.name {
		case "While", "ForStmt", "BlockStmt", "IfStmt":
			if !first {
				emit(";\n")
			}
			first = false
			emit("  (%s, %s)", coqStr(in.name), coqStrList(in.sigs))
		}
	}
	emit("\n].\n")
	emit("Definition gen_arm_scopes : list (string * list string) := [\n")
	first = true
	for _, in := range infos {
		if len(in.scopes) > 0 {
			if !first {
				emit(";\n")
			}
			first = false
			emit("  (%s, %s)", coqStr(in.name), coqStrList(in.scopes))
		}
	}
	emit("\n].\n")
	emit("Definition gen_entry_poll : bool := %s.\n", coqBool(entryPoll))
	emit("Definition gen_call_poll : bool := %s.\n", coqBool(callPoll))
	// the flag mechanism per arm and in the helpers around eval (FlagEval.v transcribes exactly this)
	emit("Definition gen_arm_trace : list (string * list string) := [\n")
	for _, in := range infos {
		emit("  (%s, %s);\n", coqStr(in.name), coqStrList(in.trace))
	}
	extra := []struct{ label, file, fn string }{{"Interpret", "", "Interpreter.Interpret"}, {"evaluateBinary:entry", "", "evaluateBinary"}, {"evaluateUnary:entry", "", "evaluateUnary"}}
	for _, ex := range extra {
		var tr []string
		if fd, ok := fds[ex.fn]; ok {
			if strings.HasSuffix(ex.label, ":entry") {
				tr = mechTrace(fd.Body.List[:1])
			} else {
				tr = mechTrace(fd.Body.List)
			}
		}
		emit("  (%s, %s);\n", coqStr(ex.label), coqStrList(tr))
	}
	{
		var tr []string
		if fd, ok := funcDecls(files[1])["Function.Call"]; ok {
			tr = mechTrace(fd.Body.List)
		}
		emit("  (%s, %s);\n", coqStr("Function.Call"), coqStrList(tr))
		tr = nil
		if fd, ok := funcDecls(files[9])["Environment.Assign"]; ok {
			tr = mechTrace(fd.Body.List)
		}
		emit("  (%s, %s)\n].\n", coqStr("Environment.Assign"), coqStrList(tr))
	}

	// Function.Call: scope parent and signals
	ffds := funcDecls(files[1])
	var fscope []string
	var fsigs []string
	if fd, ok := ffds["Function.Call"]; ok {
		ast.Inspect(fd.Body, func(n ast.Node) bool {
			switch x := n.(type) {
			case *ast.CallExpr:
				if exprStr(x.Fun) == "environment.NewEnvironmentWithParent" && len(x.Args) == 1 {
					fscope = append(fscope, exprStr(x.Args[0]))
				}
			case *ast.BinaryExpr:
				if (x.Op == token.EQL || x.Op == token.NEQ) && strings.HasSuffix(exprStr(x.X), ".Type") {
					if id, ok := x.Y.(*ast.Ident); ok {
						fsigs = append(fsigs, x.Op.String()+id.Name)
					}
				}
			}
			return true
		})
	}
	emit("Definition gen_call_scope : list string := %s.\n", coqStrList(fscope))
	emit("Definition gen_call_signals : list string := %s.\n\n", coqStrList(fsigs))

	// range statements over map-typed expressions (syntactic: names known to hold maps)
	maps := mapTypedNames(files)
	var ranges []string
	for k, f := range files {
		for name, fd := range funcDecls(f) {
			if fd.Body == nil {
				continue
			}
			sorted := false
			ast.Inspect(fd.Body, func(n ast.Node) bool {
				if c, ok := n.(*ast.CallExpr); ok && strings.HasPrefix(exprStr(c.Fun), "sort.") {
					sorted = true
				}
				return true
			})
			ast.Inspect(fd.Body, func(n ast.Node) bool {
				if r, ok := n.(*ast.RangeStmt); ok {
					last := selName(r.X)
					if maps[last] {
						ranges = append(ranges, fmt.Sprintf("%s:%s:%s:sorted=%v", rels[k], name, exprStr(r.X), sorted))
					}
				}
				return true
			})
		}
	}
	sort.Strings(ranges)
	emit("Definition gen_map_ranges : list string := %s.\n\n", coqStrList(ranges))

	// appends whose first argument is (a slice of) a value taken from arguments[...] by a type assertion (C11)
	var appends []string
	rootIdent := func(e ast.Expr) string {
		for {
			switch x := e.(type) {
			case *ast.Ident:
				return x.Name
			case *ast.SliceExpr:
				e = x.X
			case *ast.IndexExpr:
				e = x.X
			case *ast.ParenExpr:
				e = x.X
			default:
				return ""
			}
		}
	}
	for k, f := range files[2:6] {
		for name, fd := range funcDecls(f) {
			if fd.Body == nil {
				continue
			}
			fromArgs := map[string]bool{}
			ast.Inspect(fd.Body, func(n ast.Node) bool {
				if a, ok := n.(*ast.AssignStmt); ok && len(a.Rhs) == 1 {
					if ta, ok := a.Rhs[0].(*ast.TypeAssertExpr); ok && rootIdent(ta.X) == "arguments" {
						if id, ok := a.Lhs[0].(*ast.Ident); ok {
							fromArgs[id.Name] = true
						}
					}
					if len(a.Lhs) == 1 {
						if id, ok := a.Lhs[0].(*ast.Ident); ok && rootIdent(a.Rhs[0]) == "arguments" {
							fromArgs[id.Name] = true
						}
					}
				}
				return true
			})
			ast.Inspect(fd.Body, func(n ast.Node) bool {
				if c, ok := n.(*ast.CallExpr); ok {
					if id, ok := c.Fun.(*ast.Ident); ok && id.Name == "append" && len(c.Args) > 0 {
						r := rootIdent(c.Args[0])
						if fromArgs[r] || r == "arguments" {
							appends = append(appends, rels[k+2]+":"+name+":"+exprStr(c.Args[0]))
						}
					}
				}
				return true
			})
		}
	}
	sort.Strings(appends)
	emit("Definition gen_appends_onto_argument : list string := %s.\n\n", coqStrList(appends))
}

// ---------------------------------------------------------------- main.go
func mainTables() {
	f := parse("main.go")
	var exits []string
	gate := false
	var resets []string
	for name, fd := range funcDecls(f) {
		if fd.Body == nil {
			continue
		}
		ast.Inspect(fd.Body, func(n ast.Node) bool {
			switch x := n.(type) {
			case *ast.IfStmt:
				// if COND { ... os.Exit(K) }
				for _, st := range x.Body.List {
					if es, ok := st.(*ast.ExprStmt); ok {
						if c, ok := es.X.(*ast.CallExpr); ok && exprStr(c.Fun) == "os.Exit" && len(c.Args) == 1 {
							exits = append(exits, fmt.Sprintf("%s:%d:%s=>%s", name, fset.Position(x.Pos()).Line, exprStr(x.Cond), exprStr(c.Args[0])))
						}
					}
				}
				if name == "run" && exprStr(x.Cond) == "utils.HadError" {
					gate = true
				}
			case *ast.AssignStmt:
				if name == "runPrompt" && len(x.Lhs) == 1 && len(x.Rhs) == 1 {
					resets = append(resets, exprStr(x.Lhs[0])+"="+exprStr(x.Rhs[0]))
				}
			}
			return true
		})
	}
	sort.Slice(exits, func(i, j int) bool {
		a := strings.SplitN(exits[i], ":", 3)
		b := strings.SplitN(exits[j], ":", 3)
		ai, _ := strconv.Atoi(a[1])
		bi, _ := strconv.Atoi(b[1])
		return ai < bi
	})
	var ex2 []string
	for _, e := range exits {
		p := strings.SplitN(e, ":", 3)
		ex2 = append(ex2, p[0]+":"+p[2])
	}
	emit("Definition gen_exits : list string := %s.\n", coqStrList(ex2))
	emit("Definition gen_front_gate : bool := %s.\n", coqBool(gate))
	var rs []string
	for _, r := range resets {
		if strings.HasPrefix(r, "utils.") {
			rs = append(rs, r)
		}
	}
	emit("Definition gen_repl_resets : list string := %s.\n\n", coqStrList(rs))
}

// ---------------------------------------------------------------- the published grammar (grammer.txt, English half)
func docTables() {
	b, err := os.ReadFile(filepath.Join(root, "grammer.txt"))
	if err != nil {
		emit("Definition gen_doc_ladder : list (string * list string * string) := [(\"extraction_failed:grammer.txt\", [], \"\")].\n\n")
		return
	}
	text := string(b)
	// the file has an English and a Bangla half with the same rules: keep the first
	if i := strings.Index(text, "program"); i >= 0 {
		if j := strings.Index(text[i+7:], "program "); j > 0 {
			text = text[:i+7+j]
		}
	}
	// rule lines:  name → operand ( ( "op" | "op" ) operand )* ;   (one level of the ladder each)
	type rule struct {
		name, operand string
		ops           []string
	}
	var rules []rule
	for _, ln := range strings.Split(text, "\n") {
		f := strings.Fields(ln)
		if len(f) < 6 || f[1] != "→" || f[len(f)-1] != ";" || f[len(f)-2] != ")*" {
			continue
		}
		r := rule{name: f[0], operand: f[2]}
		for _, w := range f[3 : len(f)-2] {
			if strings.HasPrefix(w, "\"") && strings.HasSuffix(w, "\"") && len(w) > 2 {
				r.ops = append(r.ops, w[1:len(w)-1])
			}
		}
		last := f[len(f)-3]
		if last != r.operand || len(r.ops) == 0 {
			continue
		}
		rules = append(rules, r)
	}
	// keep the chain that starts at the rule "assignment" falls through to ("logic_or") and follows operands
	byName := map[string]rule{}
	for _, r := range rules {
		byName[r.name] = r
	}
	emit("Definition gen_doc_ladder : list (string * list string * string) := [")
	cur := "logic_or"
	first := true
	for steps := 0; steps < 40; steps++ {
		r, ok := byName[cur]
		if !ok {
			break
		}
		if !first {
			emit("; ")
		}
		first = false
		emit("(%s, %s, %s)", coqStr(r.name), coqStrList(r.ops), coqStr(r.operand))
		cur = r.operand
	}
	emit("].\n")
	// the unary rule:  unary → ( "!" | "-" | "~" ) unary | call ;
	var uops []string
	lines := strings.Split(text, "\n")
	for i, ln := range lines {
		f := strings.Fields(ln)
		if len(f) > 2 && f[0] == "unary" && f[1] == "→" {
			for _, w := range f[2:] {
				if strings.HasPrefix(w, "\"") && strings.HasSuffix(w, "\"") && len(w) > 2 {
					uops = append(uops, w[1:len(w)-1])
				}
			}
			if i+1 < len(lines) && strings.Contains(lines[i+1], "| call") {
				uops = append(uops, "->call")
			}
		}
	}
	emit("Definition gen_doc_unary : list string := %s.\n\n", coqStrList(uops))
	// README.md keyword table: rows  | `spelling` | description |  under the header  | Keyword | ... |
	var dk [][]rune
	if rb, err := os.ReadFile(filepath.Join(root, "README.md")); err == nil {
		in := false
		for _, ln := range strings.Split(string(rb), "\n") {
			t := strings.TrimSpace(ln)
			if strings.HasPrefix(t, "| Keyword") {
				in = true
				continue
			}
			if in {
				if !strings.HasPrefix(t, "|") {
					in = false
					continue
				}
				a := strings.Index(t, "`")
				if a < 0 {
					continue
				}
				b := strings.Index(t[a+1:], "`")
				if b < 0 {
					continue
				}
				dk = append(dk, []rune(t[a+1:a+1+b]))
			}
		}
	}
	sort.Slice(dk, func(i, j int) bool { return lessRunes(dk[i], dk[j]) })
	emit("Definition gen_doc_keywords : list (list N) := [")
	for i, k := range dk {
		if i > 0 {
			emit("; ")
		}
		emit("%s", coqCps(k))
	}
	emit("].\n\n")
}

func main() {
	if len(os.Args) < 2 {
		fmt.Fprintln(os.Stderr, "usage: gotrans <repo root>")
		os.Exit(2)
	}
	root = os.Args[1]
	emit("(* generated by gotrans from the Go sources under %s; do not edit *)\n", root)
	emit("From Coq Require Import NArith ZArith List String.\nImport ListNotations.\nOpen Scope N_scope.\nOpen Scope string_scope.\n\n")
	tokenKinds()
	lexerTables()
	utilsTables()
	parserTables()
	interpreterTables()
	mainTables()
	docTables()
	fmt.Print(out.String())
}
