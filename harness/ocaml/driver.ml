(* driver for the extracted Borno model: reads one case per line (tab-separated
   fields) and prints one tab-separated result line per case.  Code point lists
   are space-separated decimals.  The only logic here is I/O and number
   conversion; everything else is the extracted Coq code. *)
open Bornomodel
type string = Stdlib.String.t

(* ---- conversions between OCaml ints / decimal strings and Coq numbers ---- *)
let rec pos_of_int (i : int) : positive =
  if i = 1 then XH else if i land 1 = 0 then XO (pos_of_int (i lsr 1)) else XI (pos_of_int (i lsr 1))
let n_of_int (i : int) : n = if i = 0 then N0 else Npos (pos_of_int i)
let rec int_of_pos (p : positive) : int =
  match p with XH -> 1 | XO q -> 2 * int_of_pos q | XI q -> 2 * int_of_pos q + 1
let int_of_n (x : n) : int = match x with N0 -> 0 | Npos p -> int_of_pos p
let rec nat_of_int (i : int) : nat = if i <= 0 then O else S (nat_of_int (i - 1))
let nat_of_int i = let r = ref O in for _ = 1 to i do r := S !r done; !r
let rec int_of_nat (x : nat) : int = match x with O -> 0 | S y -> 1 + int_of_nat y
let int_of_nat x = let rec go acc = function O -> acc | S y -> go (acc + 1) y in go 0 x

(* decimal string -> Z through the model's own digits_val (unbounded) *)
let z_of_string (s : string) : z =
  let neg = String.length s > 0 && s.[0] = '-' in
  let body = if neg then String.sub s 1 (String.length s - 1) else s in
  let ds = List.init (String.length body) (fun i -> n_of_int (Char.code body.[i])) in
  let v = digits_val ds in
  if neg then Z.opp v else v
let string_of_z (v : z) : string =
  String.concat "" (List.map (fun c -> String.make 1 (Char.chr (int_of_n c))) (decimal_of_Z v))

let cps_of_field (s : string) : n list =
  if s = "" then [] else List.map (fun x -> n_of_int (int_of_string x)) (String.split_on_char ' ' s)
let buf_cps ?(sep=",") (l : n list) : string = String.concat sep (List.map (fun c -> string_of_int (int_of_n c)) l)

(* all rendering of observables is done by the extracted Coq functions of Model/Render.v *)
let str_of_cps (l : n list) : string =
  let b = Buffer.create 256 in
  List.iter (fun c -> Buffer.add_char b (Char.chr (int_of_n c land 255))) l; Buffer.contents b

(* ---- oracles ---- *)
let goref_path = ref ""
let goref_chan : (in_channel * out_channel) option ref = ref None
let oracle_calls = ref 0
let libm (fn : n) (x : f64) (y : f64) : f64 =
  let (ic, oc) =
    match !goref_chan with
    | Some c -> c
    | None ->
        if !goref_path = "" then failwith "libm oracle needed but --goref not given";
        let c = Unix.open_process (!goref_path ^ " oracle") in
        goref_chan := Some c; c in
  incr oracle_calls;
  let name = match int_of_n fn with 0 -> "pow" | 1 -> "sin" | 2 -> "cos" | _ -> "tan" in
  output_string oc (Printf.sprintf "%s %s %s\n" name (string_of_z (f_to_bits x)) (string_of_z (f_to_bits y)));
  flush oc;
  let line = input_line ic in
  f_of_bits (z_of_string (String.trim line))

exception Case_timeout
let case_timeout = ref 10
let fuel = ref 200000
let seed = ref 0
let clock_bits = ref "4745084416362086400" (* some fixed double *)

let outcome_s (o : outcome) : string = str_of_cps (outcome_str o)

let () =
  let args = Array.to_list Sys.argv in
  let rec parse_args = function
    | "--goref" :: p :: r -> goref_path := p; parse_args r
    | "--fuel" :: p :: r -> fuel := int_of_string p; parse_args r
    | "--seed" :: p :: r -> seed := int_of_string p; parse_args r
    | "--clock" :: p :: r -> clock_bits := p; parse_args r
    | "--case-timeout" :: p :: r -> case_timeout := int_of_string p; parse_args r
    | _ :: r -> parse_args r
    | [] -> () in
  parse_args (List.tl args);
  let clock = f_of_bits (z_of_string !clock_bits) in
  let sched = rotate_sched (n_of_int !seed) in
  let nfuel = nat_of_int !fuel in
  let out = Buffer.create 65536 in
  let flush_out () = print_string (Buffer.contents out); Buffer.clear out; flush stdout in
  (try
    while true do
      let line = input_line stdin in
      let fs = Array.of_list (String.split_on_char '\t' line) in
      let fld i = if i < Array.length fs then fs.(i) else "" in
      let id = fld 1 in
      let mark = Buffer.length out in
      Sys.set_signal Sys.sigalrm (Sys.Signal_handle (fun _ -> raise Case_timeout));
      ignore (Unix.alarm !case_timeout);
      (try
      (match fld 0 with
       | "tokens" ->
           Buffer.add_string out (Printf.sprintf "%s\t%s\n" id (str_of_cps (tokens_str (cps_of_field (fld 2)))))
       | "parse" ->
           Buffer.add_string out (Printf.sprintf "%s\t%s\n" id (str_of_cps (parse_str (cps_of_field (fld 2)))))
       | "file" ->
           let o = run_file libm clock sched nfuel (cps_of_field (fld 2)) (cps_of_field (fld 3)) in
           Buffer.add_string out (Printf.sprintf "%s\t%s\n" id (outcome_s o))
       | "repl" ->
           let o = repl libm clock sched nfuel (cps_of_field (fld 2)) in
           Buffer.add_string out (Printf.sprintf "%s\t%s\n" id (outcome_s o))
       (* the flag-level evaluator (Model/FlagEval.v): every diagnostic, not only the first *)
       | "ffile" ->
           let o = frun_file libm clock sched nfuel (cps_of_field (fld 2)) (cps_of_field (fld 3)) in
           Buffer.add_string out (Printf.sprintf "%s\t%s\n" id (outcome_s o))
       | "frepl" ->
           let o = frepl libm clock sched nfuel (cps_of_field (fld 2)) in
           Buffer.add_string out (Printf.sprintf "%s\t%s\n" id (outcome_s o))
       | "cli" ->
           (* fields: args (each separated by '|'), filespec ("err" or "ok:<cps>"), stdin *)
           let argv = if fld 2 = "-" then [] else List.map cps_of_field (String.split_on_char '|' (fld 2)) in
           let spec = fld 3 in
           let fsys _ =
             if String.length spec >= 3 && String.sub spec 0 3 = "ok:" then
               FileOk (cps_of_field (String.sub spec 3 (String.length spec - 3)))
             else FileErr in
           let o = main libm clock sched nfuel argv fsys (cps_of_field (fld 4)) in
           Buffer.add_string out (Printf.sprintf "%s\t%s\n" id (outcome_s o))
       | "nfc" ->
           Buffer.add_string out (Printf.sprintf "%s\t%s\n" id (buf_cps (nfc (cps_of_field (fld 2)))))
       | "textnum" ->
           let f = f_of_bits (z_of_string (fld 2)) in
           Buffer.add_string out (Printf.sprintf "%s\t%s\n" id
             (match text_num f with Some t -> buf_cps t | None -> "none"))
       | "parsefloat" ->
           Buffer.add_string out (Printf.sprintf "%s\t%s\n" id
             (match parse_float (cps_of_field (fld 2)) with Some f -> "ok " ^ string_of_z (f_to_bits f) | None -> "err"))
       | "arith" ->
           let a = f_of_bits (z_of_string (fld 3)) in
           let b = if fld 4 = "" then a else f_of_bits (z_of_string (fld 4)) in
           let bits f = string_of_z (f_to_bits f) in
           let r = match fld 2 with
             | "add" -> bits (f_add a b) | "sub" -> bits (f_sub a b) | "mul" -> bits (f_mul a b)
             | "div" -> bits (f_div a b) | "mod" -> bits (f_mod a b) | "sqrt" -> bits (f_sqrt a)
             | "round" -> bits (f_round a) | "abs" -> bits (f_abs a) | "neg" -> bits (f_neg a)
             | "toint" -> (match to_int64 a with Some z -> "ok " ^ string_of_z z | None -> "err")
             | "ofint" -> bits (f_of_Z (z_of_string (fld 3)))
             | _ -> "?" in
           Buffer.add_string out (Printf.sprintf "%s\t%s\n" id r)
       | "cpsweep" ->
           (* every code point on its own, run-length compressed like godump's cpsweep *)
           let prev = ref "" and start = ref 0 in
           let flush_range e = if !prev <> "" then Buffer.add_string out (Printf.sprintf "%d %d %s\n" !start e !prev) in
           for cp = 0 to 0x10FFFF do
             if cp < 0xD800 || cp > 0xDFFF then begin
               let c = n_of_int cp in
               let lx = lex [c] in
               let ty = match lx.lx_tokens with [t] -> int_of_n (tkind_code t.tk) | [] -> -1 | _ -> -2 in
               let had = lx.lx_diags <> [] in
               let delta = int_of_n (translit c) - cp in
               let cur = Printf.sprintf "%d %s %d %d" ty (if had then "true" else "false") (int_of_n lx.lx_eof_line) delta in
               if cur <> !prev then begin flush_range (cp - 1); prev := cur; start := cp end
             end
           done;
           flush_range 0x10FFFF
       | "" -> ()
       | m -> Buffer.add_string out (Printf.sprintf "%s\tunknown-mode:%s\n" id m))
      with
      | Case_timeout -> Buffer.truncate out mark; Buffer.add_string out (Printf.sprintf "%s\tnoresult:timeout\t\t\n" id)
      | Out_of_memory -> Buffer.truncate out mark; Buffer.add_string out (Printf.sprintf "%s\tnoresult:memory\t\t\n" id)
      | Stack_overflow -> Buffer.truncate out mark; Buffer.add_string out (Printf.sprintf "%s\tnoresult:stack\t\t\n" id));
      ignore (Unix.alarm 0);
      if Buffer.length out > 60000 then flush_out ()
    done
  with End_of_file -> ());
  flush_out ();
  (match !goref_chan with Some (ic, oc) -> close_out oc; ignore ic | None -> ())
