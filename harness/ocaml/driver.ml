(* driver for the extracted Borno model: reads one case per line (tab-separated
   fields) and prints one tab-separated result line per case.  Code point lists
   are space-separated decimals.  The only logic here is I/O and number
   conversion; everything else is the extracted Coq code. *)
open Bornomodel

(* ---- conversions between OCaml ints / decimal strings and Coq numbers ---- *)
let rec pos_of_int (i : int) : positive =
  if i = 1 then XH else if i land 1 = 0 then XO (pos_of_int (i lsr 1)) else XI (pos_of_int (i lsr 1))
let n_of_int (i : int) : n = if i = 0 then N0 else Npos (pos_of_int i)
let rec int_of_pos (p : positive) : int =
  match p with XH -> 1 | XO q -> 2 * int_of_pos q | XI q -> 2 * int_of_pos q + 1
let int_of_n (x : n) : int = match x with N0 -> 0 | Npos p -> int_of_pos p
let rec nat_of_int (i : int) : nat = if i <= 0 then O else S (nat_of_int (i - 1))
let nat_of_int i = let r = ref O in for _ = 1 to i do r := S !r done; !r
let rec int_of_nat (x : nat) : int = match x with O -> 0 | S y -> 1 + int_of_nat y
let int_of_nat x = let rec go acc = function O -> acc | S y -> go (acc + 1) y in go 0 x

(* decimal string -> Z through the model's own digits_val (unbounded) *)
let z_of_string (s : string) : z =
  let neg = String.length s > 0 && s.[0] = '-' in
  let body = if neg then String.sub s 1 (String.length s - 1) else s in
  let ds = List.init (String.length body) (fun i -> n_of_int (Char.code body.[i])) in
  let v = digits_val ds in
  if neg then Z.opp v else v
let string_of_z (v : z) : string =
  String.concat "" (List.map (fun c -> String.make 1 (Char.chr (int_of_n c))) (decimal_of_Z v))

let cps_of_field (s : string) : n list =
  if s = "" then [] else List.map (fun x -> n_of_int (int_of_string x)) (String.split_on_char ' ' s)
let buf_cps ?(sep=",") (l : n list) : string = String.concat sep (List.map (fun c -> string_of_int (int_of_n c)) l)

(* ---- names of constructors ---- *)
let lexdiag_name = function
  | LexUnexpectedChar -> "LexUnexpectedChar" | LexBadNumber -> "LexBadNumber"
  | LexUnterminatedString -> "LexUnterminatedString" | LexUnterminatedComment -> "LexUnterminatedComment"
let pkind_name = function
  | PExpectVarName -> "PExpectVarName" | PReservedVar -> "PReservedVar" | PSemiBeforeNewline -> "PSemiBeforeNewline"
  | PSemiAfterVar -> "PSemiAfterVar" | PSemiAfterBreak -> "PSemiAfterBreak" | PSemiAfterContinue -> "PSemiAfterContinue"
  | PLParenAfterFor -> "PLParenAfterFor" | PSemiAfterLoopCond -> "PSemiAfterLoopCond" | PRParenAfterFor -> "PRParenAfterFor"
  | PLParenAfterWhile -> "PLParenAfterWhile" | PRParenAfterCond -> "PRParenAfterCond" | PLParenAfterIf -> "PLParenAfterIf"
  | PRParenAfterIfCond -> "PRParenAfterIfCond" | PSemiAfterValue -> "PSemiAfterValue" | PSemiAfterReturn -> "PSemiAfterReturn"
  | PExpectFunName -> "PExpectFunName" | PReservedFun -> "PReservedFun" | PLParenAfterFunName -> "PLParenAfterFunName"
  | PTooManyParams -> "PTooManyParams" | PExpectParam -> "PExpectParam" | PRParenAfterParams -> "PRParenAfterParams"
  | PLBraceBeforeBody -> "PLBraceBeforeBody" | PRBraceAfterBlock -> "PRBraceAfterBlock" | PInvalidAssign -> "PInvalidAssign"
  | PRBracketAfterIndex -> "PRBracketAfterIndex" | PPropAfterDot -> "PPropAfterDot" | PRParenAfterArgs -> "PRParenAfterArgs"
  | PRParenAfterExpr -> "PRParenAfterExpr" | PExpectExpr -> "PExpectExpr" | PPropName -> "PPropName"
  | PColonAfterProp -> "PColonAfterProp" | PRBraceAfterObject -> "PRBraceAfterObject" | PRBracketAfterElems -> "PRBracketAfterElems"
let nfail_name = function
  | NfArgCount -> "NfArgCount" | NfNotArray -> "NfNotArray" | NfNotObject -> "NfNotObject" | NfIndexInt -> "NfIndexInt"
  | NfIndexBounds -> "NfIndexBounds" | NfKeyType -> "NfKeyType" | NfKeyMissing -> "NfKeyMissing" | NfNotNumber -> "NfNotNumber"
  | NfEmpty -> "NfEmpty" | NfInputArgs -> "NfInputArgs" | NfInputType -> "NfInputType" | NfInputEOF -> "NfInputEOF"
let rterr_name = function
  | RLeftNumber -> "RLeftNumber" | RRightNumber -> "RRightNumber" | RLeftInteger -> "RLeftInteger"
  | RRightInteger -> "RRightInteger" | RDivZero -> "RDivZero" | ROperandsNumStr -> "ROperandsNumStr"
  | RRightStrNum -> "RRightStrNum" | RNegShift -> "RNegShift" | RUnaryNumber -> "RUnaryNumber"
  | RUnaryInteger -> "RUnaryInteger" | RUndefinedVar -> "RUndefinedVar" | RUndefinedAssign -> "RUndefinedAssign"
  | RRedeclare -> "RRedeclare" | RNotObjectAssign -> "RNotObjectAssign" | RNotObjectAccess -> "RNotObjectAccess"
  | RNoProperty -> "RNoProperty" | RNotArrayAccess -> "RNotArrayAccess" | RNotArrayAssign -> "RNotArrayAssign"
  | RIndexInteger -> "RIndexInteger" | RIndexBounds -> "RIndexBounds" | RNotCallable -> "RNotCallable"
  | RArity -> "RArity" | RCallFailed w -> "RCallFailed." ^ nfail_name w
  | RStrayBreak -> "RStrayBreak" | RStrayContinue -> "RStrayContinue" | RStrayReturn -> "RStrayReturn"

(* ---- rendering in godump's formats ---- *)
let cps_angle (l : n list) : string = "<" ^ buf_cps ~sep:"." l ^ ">"
let lit_tok = function
  | LNone -> "nil"
  | LNum f -> "num:" ^ string_of_z (f_to_bits f)
  | LStr s -> "str:" ^ cps_angle s
let tok_str (t : token) : string =
  Printf.sprintf "%d %s %s %d" (int_of_n (tkind_code t.tk)) (cps_angle t.tlex) (lit_tok t.tlit) (int_of_n t.tline)
let lit_ast = function
  | LitNil -> "nil" | LitBool true -> "true" | LitBool false -> "false"
  | LitNum f -> "num:" ^ string_of_z (f_to_bits f)
  | LitStr s -> "str:" ^ cps_angle s
let ln x = string_of_int (int_of_n x)
let code k = string_of_int (int_of_n (tkind_code k))
let rec sx (e : expr) : string =
  match e with
  | ELit (v, l) -> Printf.sprintf "(lit %s %s)" (lit_ast v) (ln l)
  | EId (x, l) -> Printf.sprintf "(id %s %s)" (cps_angle x) (ln l)
  | EGroup (e, l) -> Printf.sprintf "(group %s %s)" (sx e) (ln l)
  | EUnary (op, e, l) -> Printf.sprintf "(unary %s %s %s)" (code op) (sx e) (ln l)
  | EBinary (op, a, b, l) -> Printf.sprintf "(binary %s %s %s %s)" (code op) (sx a) (sx b) (ln l)
  | ELogical (op, a, b) -> Printf.sprintf "(logical %s %s %s)" (code op) (sx a) (sx b)
  | EAssign (x, _, v, l) -> Printf.sprintf "(assign %s %s %s)" (cps_angle x) (sx v) (ln l)
  | EArrAssign (a, i, v, l) -> Printf.sprintf "(aassign %s %s %s %s)" (sx a) (sx i) (sx v) (ln l)
  | EPropAssign (o, p, v, l) -> Printf.sprintf "(passign %s %s %s %s)" (sx o) (cps_angle p) (sx v) (ln l)
  | ECall (c, pl, args) -> Printf.sprintf "(call %s %s %s)" (sx c) (ln pl) (sxlist args)
  | EIndex (a, i, l) -> Printf.sprintf "(index %s %s %s)" (sx a) (sx i) (ln l)
  | EProp (o, p, l) -> Printf.sprintf "(prop %s %s %s)" (sx o) (cps_angle p) (ln l)
  | EArray es -> Printf.sprintf "(array %s)" (sxlist es)
  | EObject ps ->
      Printf.sprintf "(object [%s])"
        (String.concat " " (List.map (fun (k, v) -> Printf.sprintf "(%s %s)" (cps_angle k) (sx v)) ps))
and sxlist es = "[" ^ String.concat " " (List.map sx es) ^ "]"
let opt f = function None -> "none" | Some x -> f x
let vdecl_sx (((x, init), l) : vdecl) = Printf.sprintf "(var %s %s %s)" (cps_angle x) (opt sx init) (ln l)
let rec ssx (s : stmt) : string =
  match s with
  | SExpr e -> Printf.sprintf "(expr %s)" (sx e)
  | SPrint e -> Printf.sprintf "(print %s)" (sx e)
  | SVar d -> vdecl_sx d
  | SVarList ds -> "(varlist [" ^ String.concat " " (List.map vdecl_sx ds) ^ "])"
  | SBlock ss -> "(block " ^ ssxlist ss ^ ")"
  | SIf (c, t, e) -> Printf.sprintf "(if %s %s %s)" (sx c) (ssx t) (opt ssx e)
  | SWhile (c, b) -> Printf.sprintf "(while %s %s)" (sx c) (ssx b)
  | SFor (i, c, inc, b) -> Printf.sprintf "(for %s %s %s %s)" (opt ssx i) (sx c) (opt sx inc) (ssx b)
  | SBreak l -> Printf.sprintf "(break %s)" (ln l)
  | SContinue l -> Printf.sprintf "(continue %s)" (ln l)
  | SReturn (l, v) -> Printf.sprintf "(return %s %s)" (ln l) (opt sx v)
  | SFun (x, ps, body) ->
      Printf.sprintf "(fun %s [%s] %s)" (cps_angle x) (String.concat " " (List.map cps_angle ps)) (ssxlist body)
and ssxlist ss = "[" ^ String.concat " " (List.map ssx ss) ^ "]"

let event_str = function
  | EvPrint t -> "P:" ^ buf_cps t
  | EvEcho t -> "E:" ^ buf_cps t
  | EvPrompt t -> "Q:" ^ buf_cps t
  | EvText t -> "T:" ^ buf_cps t
let where_str = function None -> "end" | Some l -> "at=" ^ buf_cps l
let item_str = function
  | DLex (l, d) -> Printf.sprintf "L:%s:%s" (ln l) (lexdiag_name d)
  | DParse d -> Printf.sprintf "S:%s:%s:%s" (ln d.pd_line) (pkind_name d.pd_kind) (where_str d.pd_where)
  | DRuntime (e, l) -> Printf.sprintf "R:%s:%s" (ln l) (rterr_name e)
  | DFileError -> "F"
  | DGoCrash -> "C"

(* ---- oracles ---- *)
let goref_path = ref ""
let goref_chan : (in_channel * out_channel) option ref = ref None
let oracle_calls = ref 0
let libm (fn : n) (x : f64) (y : f64) : f64 =
  let (ic, oc) =
    match !goref_chan with
    | Some c -> c
    | None ->
        if !goref_path = "" then failwith "libm oracle needed but --goref not given";
        let c = Unix.open_process (!goref_path ^ " oracle") in
        goref_chan := Some c; c in
  incr oracle_calls;
  let name = match int_of_n fn with 0 -> "pow" | 1 -> "sin" | 2 -> "cos" | _ -> "tan" in
  output_string oc (Printf.sprintf "%s %s %s\n" name (string_of_z (f_to_bits x)) (string_of_z (f_to_bits y)));
  flush oc;
  let line = input_line ic in
  f_of_bits (z_of_string (String.trim line))

exception Case_timeout
let case_timeout = ref 10
let fuel = ref 200000
let seed = ref 0
let clock_bits = ref "4745084416362086400" (* some fixed double *)

let outcome_str (o : outcome) : string =
  match o with
  | PExit r ->
      Printf.sprintf "%d\t%s\t%s" (int_of_n r.p_status)
        (String.concat " " (List.map event_str r.p_stdout))
        (String.concat " " (List.map item_str r.p_stderr))
  | PNoResult why ->
      let w = match why with RFuel -> "fuel" | RStuck -> "stuck" | RParseFuel -> "parsefuel" | _ -> "other" in
      Printf.sprintf "noresult:%s\t\t" w

let () =
  let args = Array.to_list Sys.argv in
  let rec parse_args = function
    | "--goref" :: p :: r -> goref_path := p; parse_args r
    | "--fuel" :: p :: r -> fuel := int_of_string p; parse_args r
    | "--seed" :: p :: r -> seed := int_of_string p; parse_args r
    | "--clock" :: p :: r -> clock_bits := p; parse_args r
    | "--case-timeout" :: p :: r -> case_timeout := int_of_string p; parse_args r
    | _ :: r -> parse_args r
    | [] -> () in
  parse_args (List.tl args);
  let clock = f_of_bits (z_of_string !clock_bits) in
  let sched = rotate_sched (n_of_int !seed) in
  let nfuel = nat_of_int !fuel in
  let out = Buffer.create 65536 in
  let flush_out () = print_string (Buffer.contents out); Buffer.clear out; flush stdout in
  (try
    while true do
      let line = input_line stdin in
      let fs = Array.of_list (String.split_on_char '\t' line) in
      let fld i = if i < Array.length fs then fs.(i) else "" in
      let id = fld 1 in
      let mark = Buffer.length out in
      Sys.set_signal Sys.sigalrm (Sys.Signal_handle (fun _ -> raise Case_timeout));
      ignore (Unix.alarm !case_timeout);
      (try
      (match fld 0 with
       | "tokens" ->
           let lx = lex (cps_of_field (fld 2)) in
           Buffer.add_string out (Printf.sprintf "%s\t%s\t%s\t%s\n" id
             (String.concat "\x1f" (List.map tok_str lx.lx_tokens)) (ln lx.lx_eof_line)
             (String.concat " " (List.map (fun (l, d) -> Printf.sprintf "L:%s:%s" (ln l) (lexdiag_name d)) lx.lx_diags)))
       | "parse" ->
           let lx = lex (cps_of_field (fld 2)) in
           let pr = parse lx.lx_tokens lx.lx_eof_line in
           let items = List.map (fun (l, d) -> DLex (l, d)) lx.lx_diags @ List.map (fun d -> DParse d) pr.pr_diags in
           Buffer.add_string out (Printf.sprintf "%s\t%s\t%s\t%s\n" id
             (match pr.pr_prog with Some ss -> ssxlist ss | None -> "-")
             (String.concat " " (List.map item_str items))
             (if pr.pr_fuel_out then "parsefuel" else ""))
       | "file" ->
           let o = run_file libm clock sched nfuel (cps_of_field (fld 2)) (cps_of_field (fld 3)) in
           Buffer.add_string out (Printf.sprintf "%s\t%s\n" id (outcome_str o))
       | "repl" ->
           let o = repl libm clock sched nfuel (cps_of_field (fld 2)) in
           Buffer.add_string out (Printf.sprintf "%s\t%s\n" id (outcome_str o))
       | "cli" ->
           (* fields: args (each separated by '|'), filespec ("err" or "ok:<cps>"), stdin *)
           let argv = if fld 2 = "-" then [] else List.map cps_of_field (String.split_on_char '|' (fld 2)) in
           let spec = fld 3 in
           let fsys _ =
             if String.length spec >= 3 && String.sub spec 0 3 = "ok:" then
               FileOk (cps_of_field (String.sub spec 3 (String.length spec - 3)))
             else FileErr in
           let o = main libm clock sched nfuel argv fsys (cps_of_field (fld 4)) in
           Buffer.add_string out (Printf.sprintf "%s\t%s\n" id (outcome_str o))
       | "textnum" ->
           let f = f_of_bits (z_of_string (fld 2)) in
           Buffer.add_string out (Printf.sprintf "%s\t%s\n" id
             (match text_num f with Some t -> buf_cps t | None -> "none"))
       | "parsefloat" ->
           Buffer.add_string out (Printf.sprintf "%s\t%s\n" id
             (match parse_float (cps_of_field (fld 2)) with Some f -> "ok " ^ string_of_z (f_to_bits f) | None -> "err"))
       | "arith" ->
           let a = f_of_bits (z_of_string (fld 3)) in
           let b = if fld 4 = "" then a else f_of_bits (z_of_string (fld 4)) in
           let bits f = string_of_z (f_to_bits f) in
           let r = match fld 2 with
             | "add" -> bits (f_add a b) | "sub" -> bits (f_sub a b) | "mul" -> bits (f_mul a b)
             | "div" -> bits (f_div a b) | "mod" -> bits (f_mod a b) | "sqrt" -> bits (f_sqrt a)
             | "round" -> bits (f_round a) | "abs" -> bits (f_abs a) | "neg" -> bits (f_neg a)
             | "toint" -> (match to_int64 a with Some z -> "ok " ^ string_of_z z | None -> "err")
             | "ofint" -> bits (f_of_Z (z_of_string (fld 3)))
             | _ -> "?" in
           Buffer.add_string out (Printf.sprintf "%s\t%s\n" id r)
       | "cpsweep" ->
           (* every code point on its own, run-length compressed like godump's cpsweep *)
           let prev = ref "" and start = ref 0 in
           let flush_range e = if !prev <> "" then Buffer.add_string out (Printf.sprintf "%d %d %s\n" !start e !prev) in
           for cp = 0 to 0x10FFFF do
             if cp < 0xD800 || cp > 0xDFFF then begin
               let c = n_of_int cp in
               let lx = lex [c] in
               let ty = match lx.lx_tokens with [t] -> int_of_n (tkind_code t.tk) | [] -> -1 | _ -> -2 in
               let had = lx.lx_diags <> [] in
               let delta = int_of_n (translit c) - cp in
               let cur = Printf.sprintf "%d %s %d %d" ty (if had then "true" else "false") (int_of_n lx.lx_eof_line) delta in
               if cur <> !prev then begin flush_range (cp - 1); prev := cur; start := cp end
             end
           done;
           flush_range 0x10FFFF
       | "" -> ()
       | m -> Buffer.add_string out (Printf.sprintf "%s\tunknown-mode:%s\n" id m))
      with
      | Case_timeout -> Buffer.truncate out mark; Buffer.add_string out (Printf.sprintf "%s\tnoresult:timeout\t\t\n" id)
      | Out_of_memory -> Buffer.truncate out mark; Buffer.add_string out (Printf.sprintf "%s\tnoresult:memory\t\t\n" id)
      | Stack_overflow -> Buffer.truncate out mark; Buffer.add_string out (Printf.sprintf "%s\tnoresult:stack\t\t\n" id));
      ignore (Unix.alarm 0);
      if Buffer.length out > 60000 then flush_out ()
    done
  with End_of_file -> ());
  flush_out ();
  (match !goref_chan with Some (ic, oc) -> close_out oc; ignore ic | None -> ())
