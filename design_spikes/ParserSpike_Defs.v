(* SPIKE (throwaway): generic ladder parser, soundness + completeness *)
From Coq Require Import List Arith Lia Bool.
Import ListNotations.

(* token kinds: abstract nat codes; ladder is data *)
Inductive tok := TNum (n:nat) | TId (x:nat) | TLP | TRP | TLB | TRB | TComma | TEq | TOp (o:nat).

Definition tok_eq_dec : forall a b : tok, {a=b}+{a<>b}.
Proof. decide equality; apply Nat.eq_dec. Defined.

Section Ladder.
(* binary levels 0..L-1 ; oplevel o = Some k  iff binary operator o sits on level k ; unary o *)
Variable L : nat.
Variable oplevel : nat -> option nat.
Variable isun : nat -> bool.
Hypothesis oplevel_lt : forall o k, oplevel o = Some k -> k < L.

Inductive expr :=
 | ENum (n:nat) | EId (x:nat) | EGroup (e:expr)
 | EUn (o:nat) (e:expr) | EBin (o:nat) (l r:expr)
 | ECall (f:expr) (args:list expr) | EIdx (a i:expr)
 | EAssign (t v:expr).

Inductive res (A:Type) := Ok (a:A) | Err | Fuel.
Arguments Ok {A}. Arguments Err {A}. Arguments Fuel {A}.
Definition bind {A B} (r:res A) (f:A -> res B) : res B :=
  match r with Ok a => f a | Err => Err | Fuel => Fuel end.
Notation "x <- e ;; k" := (bind e (fun x => k)) (at level 60, e at next level, right associativity).

Definition is_target (e:expr) : bool := match e with EId _ | EIdx _ _ => true | _ => false end.
Definition inlevel (k:nat) (t:tok) : option nat :=
  match t with TOp o => match oplevel o with Some k' => if Nat.eqb k k' then Some o else None | None => None end | _ => None end.

(* level numbering: 0..L-1 binary, L = unary, (postfix/primary inside) *)
Fixpoint pexpr (f:nat) (ts:list tok) {struct f} : res (expr * list tok) :=
  match f with 0 => Fuel | S f =>
    p <- plevel f 0 ts ;;
    let '(e, r) := p in
    match r with
    | TEq :: r' => q <- pexpr f r' ;; let '(v, r'') := q in
                   if is_target e then Ok (EAssign e v, r'') else Err
    | _ => Ok (e, r)
    end
  end
with plevel (f:nat) (k:nat) (ts:list tok) {struct f} : res (expr * list tok) :=
  match f with 0 => Fuel | S f =>
    if Nat.ltb k L then
      p <- plevel f (S k) ts ;; let '(l, r) := p in ploop f k l r
    else punary f ts
  end
with ploop (f:nat) (k:nat) (acc:expr) (ts:list tok) {struct f} : res (expr * list tok) :=
  match f with 0 => Fuel | S f =>
    match ts with
    | t :: r => match inlevel k t with
                | Some o => p <- plevel f (S k) r ;; let '(rt, r') := p in ploop f k (EBin o acc rt) r'
                | None => Ok (acc, ts)
                end
    | [] => Ok (acc, ts)
    end
  end
with punary (f:nat) (ts:list tok) {struct f} : res (expr * list tok) :=
  match f with 0 => Fuel | S f =>
    match ts with
    | TOp o :: r => if isun o then p <- punary f r ;; let '(e, r') := p in Ok (EUn o e, r')
                    else ppost f ts
    | _ => ppost f ts
    end
  end
with ppost (f:nat) (ts:list tok) {struct f} : res (expr * list tok) :=
  match f with 0 => Fuel | S f =>
    p <- pprim f ts ;; let '(e, r) := p in psuffix f e r
  end
with psuffix (f:nat) (acc:expr) (ts:list tok) {struct f} : res (expr * list tok) :=
  match f with 0 => Fuel | S f =>
    match ts with
    | TLP :: TRP :: r => psuffix f (ECall acc []) r
    | TLP :: r => p <- pargs f r ;; let '(args, r') := p in
                  match r' with TRP :: r'' => psuffix f (ECall acc args) r'' | _ => Err end
    | TLB :: r => p <- pexpr f r ;; let '(i, r') := p in
                  match r' with TRB :: r'' => psuffix f (EIdx acc i) r'' | _ => Err end
    | _ => Ok (acc, ts)
    end
  end
with pargs (f:nat) (ts:list tok) {struct f} : res (list expr * list tok) :=
  match f with 0 => Fuel | S f =>
    p <- pexpr f ts ;; let '(e, r) := p in
    match r with
    | TComma :: r' => q <- pargs f r' ;; let '(es, r'') := q in Ok (e :: es, r'')
    | _ => Ok ([e], r)
    end
  end
with pprim (f:nat) (ts:list tok) {struct f} : res (expr * list tok) :=
  match f with 0 => Fuel | S f =>
    match ts with
    | TNum n :: r => Ok (ENum n, r)
    | TId x :: r => Ok (EId x, r)
    | TLP :: r => p <- pexpr f r ;; let '(e, r') := p in
                  match r' with TRP :: r'' => Ok (EGroup e, r'') | _ => Err end
    | _ => Err
    end
  end.

(* ---- the grammar as well-shaped trees + yield ---- *)
(* level of the root: 0..L-1 binary; L unary; S L postfix/primary; assignment is "below 0": encoded separately *)
Definition lvl (e:expr) : nat :=
  match e with
  | EBin o _ _ => match oplevel o with Some k => k | None => 0 end
  | EUn _ _ => L
  | EAssign _ _ => 0
  | _ => S L
  end.
Definition is_assign e := match e with EAssign _ _ => true | _ => false end.

Fixpoint flat (e:expr) : list tok :=
  match e with
  | ENum n => [TNum n] | EId x => [TId x]
  | EGroup e => TLP :: flat e ++ [TRP]
  | EUn o e => TOp o :: flat e
  | EBin o l r => flat l ++ TOp o :: flat r
  | ECall f args => flat f ++ TLP :: (fix fl (es:list expr) := match es with [] => [] | [e] => flat e | e :: es' => flat e ++ TComma :: fl es' end) args ++ [TRP]
  | EIdx a i => flat a ++ TLB :: flat i ++ [TRB]
  | EAssign t v => flat t ++ TEq :: flat v
  end.
Fixpoint flatargs (es:list expr) : list tok :=
  match es with [] => [] | [e] => flat e | e :: es' => flat e ++ TComma :: flatargs es' end.
Lemma flat_call f args : flat (ECall f args) = flat f ++ TLP :: flatargs args ++ [TRP].
Proof. reflexivity. Qed.

(* WFk k e : e may appear where the grammar asks for nonterminal of level k (no assignment)   *)
Inductive WFe : expr -> Prop :=   (* "expression" nonterminal: assignment or level-0 *)
 | WFe_assign t v : is_target t = true -> WFk 0 t -> WFe v -> WFe (EAssign t v)
 | WFe_lvl e : WFk 0 e -> WFe e
with WFk : nat -> expr -> Prop :=
 | WF_num k n : WFk k (ENum n)
 | WF_id k x : WFk k (EId x)
 | WF_group k e : WFe e -> WFk k (EGroup e)
 | WF_un k o e : isun o = true -> k <= L -> WFk L e -> WFk k (EUn o e)
 | WF_bin k o kk l r : oplevel o = Some kk -> k <= kk -> WFk kk l -> WFk (S kk) r -> WFk k (EBin o l r)
 | WF_call k f args : WFk (S L) f -> Forall WFe args -> WFk k (ECall f args)
 | WF_idx k a i : WFk (S L) a -> WFe i -> WFk k (EIdx a i).

End Ladder.
