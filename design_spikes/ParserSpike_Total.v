(* SPIKE (throwaway): the ladder parser never runs out of fuel when given H * (length ts + 1) *)
From Coq Require Import List Arith Lia Bool.
Import ListNotations.
Require Import ParserSpike_Defs ParserSpike_Mono.
Arguments Ok {A}. Arguments Err {A}. Arguments Fuel {A}.

Section S.
Variable L : nat.
Variable oplevel : nat -> option nat.
Variable isun : nat -> bool.

Notation pexpr := (pexpr L oplevel isun).
Notation plevel := (plevel L oplevel isun).
Notation ploop := (ploop L oplevel isun).
Notation punary := (punary L oplevel isun).
Notation ppost := (ppost L oplevel isun).
Notation psuffix := (psuffix L oplevel isun).
Notation pargs := (pargs L oplevel isun).
Notation pprim := (pprim L oplevel isun).

Definition H := L + 8.
(* rank = number of calls that may happen before a token is consumed *)
Definition r_prim := 1. Definition r_suffix := 1. Definition r_loop := 1.
Definition r_post := 2. Definition r_unary := 3.
Definition r_level (k:nat) := 4 + (L - k).
Definition r_expr := 5 + L. Definition r_args := 6 + L.

(* outcome predicate: not Fuel; on success the rest is shorter (strict) or not longer (loops) *)
Definition okS {A} (ts:list tok) (r:res (A * list tok)) : Prop :=
  match r with Fuel => False | Err => True | Ok (_, rest) => length rest < length ts end.
Definition okL {A} (ts:list tok) (r:res (A * list tok)) : Prop :=
  match r with Fuel => False | Err => True | Ok (_, rest) => length rest <= length ts end.

Definition TotalAt (f:nat) : Prop :=
  (forall ts, r_expr + H * length ts <= f -> okS ts (pexpr f ts)) /\
  (forall k ts, r_level k + H * length ts <= f -> okS ts (plevel f k ts)) /\
  (forall k a ts, r_loop + H * length ts <= f -> okL ts (ploop f k a ts)) /\
  (forall ts, r_unary + H * length ts <= f -> okS ts (punary f ts)) /\
  (forall ts, r_post + H * length ts <= f -> okS ts (ppost f ts)) /\
  (forall a ts, r_suffix + H * length ts <= f -> okL ts (psuffix f a ts)) /\
  (forall ts, r_args + H * length ts <= f -> okS ts (pargs f ts)) /\
  (forall ts, r_prim + H * length ts <= f -> okS ts (pprim f ts)).

(* sequencing: first parser strict on ts, continuation (strict or loose) on the shorter rest *)
Lemma bind_okS {A B} ts (r:res (A * list tok)) (k:A * list tok -> res (B * list tok)) :
  okS ts r -> (forall a rest, length rest < length ts -> okL rest (k (a, rest))) -> okS ts (bind r k).
Proof.
  destruct r as [[a rest]| |]; simpl; auto. intros Hlt Hk. specialize (Hk a rest Hlt).
  destruct (k (a, rest)) as [[b rest']| |]; simpl in *; auto. lia.
Qed.
Lemma okS_okL {A} ts (r:res (A * list tok)) : okS ts r -> okL ts r.
Proof. destruct r as [[a rest]| |]; simpl; auto. lia. Qed.
Lemma okL_shorter {A} ts ts' (r:res (A * list tok)) : okL ts' r -> length ts' <= length ts -> okL ts r.
Proof. destruct r as [[a rest]| |]; simpl; auto. lia. Qed.
Lemma okL_cons {A} t ts (r:res (A * list tok)) : okL ts r -> okS (t :: ts) r.
Proof. destruct r as [[a rest]| |]; simpl; auto. lia. Qed.

Lemma total : forall f, TotalAt f.
Proof.
  induction f as [|f (Ie & Il & Ilo & Iu & Ip & Is & Ia & Ipr)]; unfold TotalAt.
  { unfold r_expr, r_level, r_loop, r_unary, r_post, r_suffix, r_args, r_prim.
    split; [|split; [|split; [|split; [|split; [|split; [|split]]]]]]; intros; lia. }
  unfold r_expr, r_level, r_loop, r_unary, r_post, r_suffix, r_args, r_prim, H in *.
  split; [|split; [|split; [|split; [|split; [|split; [|split]]]]]].
  - (* pexpr *) intros ts Hf. rewrite pexpr_S.
    apply bind_okS; [apply Il; simpl; lia|]. intros e rest Hlt.
    destruct rest as [|[] r']; simpl; try lia.
    assert (K: okS r' (pexpr f r')) by (apply Ie; simpl in *; nia).
    destruct (pexpr f r') as [[v r'']| |]; simpl in *; auto. destruct (is_target e); simpl; auto; try lia.
  - (* plevel *) intros k ts Hf. rewrite plevel_S. destruct (k <? L) eqn:Ek.
    + apply Nat.ltb_lt in Ek. apply bind_okS; [apply Il; lia|]. intros l r Hlt.
      apply Ilo. nia.
    + apply Iu. lia.
  - (* ploop *) intros k a ts Hf. rewrite ploop_S. destruct ts as [|t r]; simpl; auto.
    destruct (inlevel oplevel k t); simpl; auto.
    assert (K: okS r (plevel f (S k) r)) by (apply Il; simpl in *; nia).
    destruct (plevel f (S k) r) as [[rt r']| |]; simpl in *; auto.
    assert (K2: okL r' (ploop f k (EBin n a rt) r')) by (apply Ilo; nia).
    destruct (ploop f k (EBin n a rt) r') as [[x r'']| |]; simpl in *; auto; try lia.
  - (* punary *) intros ts Hf. rewrite punary_S.
    destruct ts as [|t r]; [apply Ip; simpl in *; lia|].
    destruct t; try (apply Ip; simpl in *; lia).
    destruct (isun o); [|apply Ip; simpl in *; lia].
    assert (K: okS r (punary f r)) by (apply Iu; simpl in *; nia).
    destruct (punary f r) as [[e r']| |]; simpl in *; auto; try lia.
  - (* ppost *) intros ts Hf. rewrite ppost_S.
    apply bind_okS; [apply Ipr; lia|]. intros e r Hlt. apply Is. nia.
  - (* psuffix *) intros a ts Hf. rewrite psuffix_S.
    destruct ts as [|t r]; simpl; auto.
    destruct t; simpl; auto.
    + (* TLP *)
      assert (AB: okL r (bind (pargs f r) (fun p => let '(args, r') := p in
                    match r' with TRP :: r'' => psuffix f (ECall a args) r'' | _ => Err end))).
      { apply okS_okL. apply bind_okS; [apply Ia; simpl in *; nia|]. intros args r' Hlt.
        destruct r' as [|[] r'']; simpl; auto.
        assert (K3: okL r'' (psuffix f (ECall a args) r'')) by (apply Is; simpl in *; nia).
        destruct (psuffix f (ECall a args) r'') as [[y rr]| |]; simpl in *; auto; lia. }
      destruct r as [|t2 r2]; [eapply okL_shorter; [exact AB|simpl; lia]|].
      destruct t2; try (eapply okL_shorter; [exact AB|simpl; lia]).
      (* TLP :: TRP :: r2 *)
      assert (K3: okL r2 (psuffix f (ECall a []) r2)) by (apply Is; simpl in *; nia).
      destruct (psuffix f (ECall a []) r2) as [[y rr]| |]; simpl in *; auto; lia.
    + (* TLB *)
      assert (K: okS r (pexpr f r)) by (apply Ie; simpl in *; nia).
      destruct (pexpr f r) as [[i r']| |]; simpl in *; auto.
      destruct r' as [|[] r'']; simpl; auto.
      assert (K3: okL r'' (psuffix f (EIdx a i) r'')) by (apply Is; simpl in *; nia).
      destruct (psuffix f (EIdx a i) r'') as [[x rr]| |]; simpl in *; auto; lia.
  - (* pargs *) intros ts Hf. rewrite pargs_S.
    apply bind_okS; [apply Ie; lia|]. intros e r Hlt.
    destruct r as [|[] r']; simpl; try lia.
    assert (K: okS r' (pargs f r')) by (apply Ia; simpl in *; nia).
    destruct (pargs f r') as [[es r'']| |]; simpl in *; auto; try lia.
  - (* pprim *) intros ts Hf. rewrite pprim_S.
    destruct ts as [|t r]; simpl; auto. destruct t; simpl; auto.
    assert (K: okS r (pexpr f r)) by (apply Ie; simpl in *; nia).
    destruct (pexpr f r) as [[e r']| |]; simpl in *; auto.
    destruct r' as [|[] r'']; simpl; auto; simpl in K; try lia.
Qed.

Theorem parse_total ts : pexpr (H * (length ts + 1)) ts <> Fuel.
Proof.
  destruct (total (H * (length ts + 1))) as (T & _). specialize (T ts).
  assert (K: r_expr + H * length ts <= H * (length ts + 1)) by (unfold r_expr, H; nia).
  specialize (T K). destruct (pexpr _ ts); simpl in T; congruence.
Qed.
End S.
Print Assumptions parse_total.
