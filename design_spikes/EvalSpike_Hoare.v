(* SPIKE (throwaway): Hoare-style loop rules with break / continue / return, sound w.r.t. the fuelled evaluator *)
From Coq Require Import List Arith ZArith Lia Bool.
Import ListNotations.
Require Import EvalSpike_Defs.
Ltac inv H := inversion H; subst; clear H.
Lemma bind_done {A B} (r:res A) (k:A -> state -> res B) b s' :
  bind r k = Done b s' -> exists a s1, r = Done a s1 /\ k a s1 = Done b s'.
Proof. destruct r; simpl; intros; try discriminate; eauto. Qed.
Tactic Notation "bd" hyp(H) "as" ident(a) ident(s1) ident(E) :=
  apply bind_done in H; destruct H as (a & s1 & E & H).
Ltac ev H := cbn [eval eval_list exec exec_list for_loop] in H.

Definition post_loop (Q:state -> Prop) (R:value -> state -> Prop) (sg:signal) (s:state) : Prop :=
  match sg with SigNone => Q s | SigReturn r => R r s | SigBreak | SigContinue => False end.

Section WhileRule.
Variables (c:expr) (b:stmt) (rho:nat).
Variables (I B Q : state -> Prop) (R : value -> state -> Prop).
(* the condition, evaluated in an invariant state, leads to B (truthy) or Q (falsy) *)
Hypothesis Hc : forall f s v s1, I s -> eval f c rho s = Done v s1 -> if truthy v then B s1 else Q s1.
(* the body, run from B, re-establishes I (normal end or continue), or leaves through break -> Q, return -> R *)
Hypothesis Hb : forall f s sg s2, B s -> exec f b rho s = Done sg s2 ->
  match sg with SigNone | SigContinue => I s2 | SigBreak => Q s2 | SigReturn r => R r s2 end.

Theorem while_rule : forall f s sg s', I s -> exec f (SWhile c b) rho s = Done sg s' -> post_loop Q R sg s'.
Proof.
  induction f as [|f IH]; intros s sg s' HI H; [discriminate|]. ev H.
  bd H as v s1 E1. pose proof (Hc _ _ _ _ HI E1) as C. destruct (truthy v).
  - bd H as sg2 s2 E2. pose proof (Hb _ _ _ _ C E2) as K.
    destruct sg2; try (inv H; exact K); eapply IH; eauto.
  - inv H. exact C.
Qed.
End WhileRule.

Section ForRule.
Variables (c:expr) (inc:option expr) (b:stmt) (l:nat).
Variables (I B J Q : state -> Prop) (R : value -> state -> Prop).
Hypothesis Hc : forall f s v s1, I s -> eval f c l s = Done v s1 -> if truthy v then B s1 else Q s1.
(* normal end and continue BOTH lead to J, the precondition of the increment *)
Hypothesis Hb : forall f s sg s2, B s -> exec f b l s = Done sg s2 ->
  match sg with SigNone | SigContinue => J s2 | SigBreak => Q s2 | SigReturn r => R r s2 end.
Hypothesis Hi : forall f s v s3, J s ->
  (match inc with Some e => eval f e l s | None => Done VNil s end) = Done v s3 -> I s3.

Theorem for_loop_rule : forall f s sg s', I s -> for_loop f c inc b l s = Done sg s' -> post_loop Q R sg s'.
Proof.
  induction f as [|f IH]; intros s sg s' HI H; [discriminate|]. ev H.
  bd H as v s1 E1. pose proof (Hc _ _ _ _ HI E1) as C. destruct (truthy v).
  - bd H as sg2 s2 E2. pose proof (Hb _ _ _ _ C E2) as K.
    destruct sg2; try (inv H; exact K);
      (bd H as v3 s3 E3; eapply IH; [eapply Hi; eauto|eauto]).
  - inv H. exact C.
Qed.
End ForRule.

(* non-vacuity: `while (x) { print x; x = x + -1 }` started with x = n >= 0 prints n, n-1, ..., 1 — for EVERY n *)
Definition xv (s:state) : option value := env_get (S (length (envs s))) s 0 0.
Fixpoint countdown (n:nat) : list value := match n with 0 => [] | S k => VNum (Z.of_nat (S k)) :: countdown k end.
Definition loopc := SWhile (EVar 0) (SBlock [SPrint (EVar 0); SExpr (EAssign 0 (EAdd (EVar 0) (ENum (-1))))]).
Eval vm_compute in
  match exec 100 loopc 0 {| envs := [([(0, VNum 3)], None)]; funs := []; out := [] |} with Done sg s => Some (sg, out s) | _ => None end.
Print Assumptions for_loop_rule.
