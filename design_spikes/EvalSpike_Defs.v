(* SPIKE (throwaway): fuel-based evaluator with scope chain + closures; frame invariant *)
From Coq Require Import List Arith ZArith Lia Bool.
Import ListNotations.

Definition name := nat.
Inductive expr :=
 | ENum (n:Z) | ENil | EVar (x:name) | EAssign (x:name) (e:expr)
 | EAdd (a b:expr) | ECall (f:expr) (args:list expr).
Inductive stmt :=
 | SExpr (e:expr) | SPrint (e:expr) | SVar (x:name) (i:option expr)
 | SBlock (ss:list stmt) | SIf (c:expr) (t:stmt) (e:option stmt)
 | SWhile (c:expr) (b:stmt) | SFor (i:option stmt) (c:expr) (inc:option expr) (b:stmt)
 | SBreak | SContinue | SReturn (e:option expr)
 | SFun (f:name) (ps:list name) (body:list stmt).

Inductive value := VNil | VNum (n:Z) | VFun (id:nat).
Definition scope := list (name * value).
Record clos := { c_name : name; c_params : list name; c_body : list stmt; c_env : nat }.
Record state := { envs : list (scope * option nat); funs : list clos; out : list value }.

Inductive signal := SigNone | SigBreak | SigContinue | SigReturn (v:value).
Inductive err := EUndef | ERedecl | EType | EArity | ENotCallable.
Inductive res (A:Type) := Done (a:A) (s:state) | Fail (e:err) (s:state) | Fuel | Stuck.
Arguments Done {A}. Arguments Fail {A}. Arguments Fuel {A}. Arguments Stuck {A}.
Definition bind {A B} (r:res A) (k:A -> state -> res B) : res B :=
  match r with Done a s => k a s | Fail e s => Fail e s | Fuel => Fuel | Stuck => Stuck end.
Notation "'do' x , s <- e ;; k" := (bind e (fun x s => k)) (at level 60, x name, s name, e at next level, right associativity).

(* --- scope chain operations --- *)
Fixpoint lookup (x:name) (sc:scope) : option value :=
  match sc with [] => None | (y,v)::r => if Nat.eqb x y then Some v else lookup x r end.
Fixpoint update (x:name) (v:value) (sc:scope) : scope :=
  match sc with [] => [] | (y,w)::r => if Nat.eqb x y then (y,v)::r else (y,w)::update x v r end.
Definition dom (sc:scope) : list name := map fst sc.

Definition set_env (s:state) (id:nat) (e:scope * option nat) : state :=
  {| envs := firstn id (envs s) ++ e :: skipn (S id) (envs s); funs := funs s; out := out s |}.
Definition alloc_env (s:state) (parent:option nat) : nat * state :=
  (length (envs s), {| envs := envs s ++ [([], parent)]; funs := funs s; out := out s |}).

Fixpoint env_get (fuel:nat) (s:state) (id:nat) (x:name) : option value :=
  match fuel with 0 => None | S f =>
    match nth_error (envs s) id with
    | None => None
    | Some (sc, par) => match lookup x sc with Some v => Some v
                        | None => match par with Some p => env_get f s p x | None => None end end
    end end.
Fixpoint env_assign (fuel:nat) (s:state) (id:nat) (x:name) (v:value) : option state :=
  match fuel with 0 => None | S f =>
    match nth_error (envs s) id with
    | None => None
    | Some (sc, par) => match lookup x sc with
                        | Some _ => Some (set_env s id (update x v sc, par))
                        | None => match par with Some p => env_assign f s p x v | None => None end end
    end end.
Definition env_define (s:state) (id:nat) (x:name) (v:value) : option state :=
  match nth_error (envs s) id with
  | None => None
  | Some (sc, par) => Some (set_env s id ((x,v)::sc, par))
  end.
Definition bound_here (s:state) (id:nat) (x:name) : bool :=
  match nth_error (envs s) id with Some (sc,_) => match lookup x sc with Some _ => true | None => false end | None => false end.

Definition emit (v:value) (s:state) : state := {| envs := envs s; funs := funs s; out := out s ++ [v] |}.
Definition truthy (v:value) : bool := match v with VNil => false | VNum 0 => false | _ => true end.

Fixpoint bind_params (s:state) (id:nat) (ps:list name) (vs:list value) : option state :=
  match ps, vs with
  | [], [] => Some s
  | p::ps', v::vs' => match env_define s id p v with Some s' => bind_params s' id ps' vs' | None => None end
  | _, _ => None
  end.

Fixpoint eval (fuel:nat) (e:expr) (rho:nat) (s:state) {struct fuel} : res value :=
  match fuel with 0 => Fuel | S f =>
  match e with
  | ENum n => Done (VNum n) s
  | ENil => Done VNil s
  | EVar x => match env_get (S (length (envs s))) s rho x with Some v => Done v s | None => Fail EUndef s end
  | EAssign x e1 =>
      do v, s1 <- eval f e1 rho s ;;
      match env_assign (S (length (envs s1))) s1 rho x v with Some s2 => Done v s2 | None => Fail EUndef s1 end
  | EAdd a b =>
      do va, s1 <- eval f a rho s ;;
      do vb, s2 <- eval f b rho s1 ;;
      match va, vb with VNum x, VNum y => Done (VNum (x+y)) s2 | _, _ => Fail EType s2 end
  | ECall fe args =>
      do fv, s1 <- eval f fe rho s ;;
      match fv with
      | VFun id =>
          match nth_error (funs s1) id with
          | None => Stuck
          | Some c =>
              if negb (Nat.eqb (length args) (length (c_params c))) then Fail EArity s1 else
              do vs, s2 <- eval_list f args rho s1 ;;
              let '(act, s3) := alloc_env s2 (Some (c_env c)) in
              match env_define s3 act (c_name c) fv with
              | None => Stuck
              | Some s4 => match bind_params s4 act (c_params c) vs with
                           | None => Stuck
                           | Some s5 => do sg, s6 <- exec_list f (c_body c) act s5 ;;
                                        match sg with SigReturn v => Done v s6 | _ => Done VNil s6 end
                           end
              end
          end
      | _ => Fail ENotCallable s1
      end
  end end
with eval_list (fuel:nat) (es:list expr) (rho:nat) (s:state) {struct fuel} : res (list value) :=
  match fuel with 0 => Fuel | S f =>
  match es with
  | [] => Done [] s
  | e::es' => do v, s1 <- eval f e rho s ;; do vs, s2 <- eval_list f es' rho s1 ;; Done (v::vs) s2
  end end
with exec (fuel:nat) (st:stmt) (rho:nat) (s:state) {struct fuel} : res signal :=
  match fuel with 0 => Fuel | S f =>
  match st with
  | SExpr e => do _v, s1 <- eval f e rho s ;; Done SigNone s1
  | SPrint e => do v, s1 <- eval f e rho s ;; Done SigNone (emit v s1)
  | SVar x i =>
      do v, s1 <- (match i with Some e => eval f e rho s | None => Done VNil s end) ;;
      if bound_here s1 rho x then Fail ERedecl s1 else
      match env_define s1 rho x v with Some s2 => Done SigNone s2 | None => Stuck end
  | SBlock ss => let '(b, s1) := alloc_env s (Some rho) in exec_list f ss b s1
  | SIf c t e =>
      do v, s1 <- eval f c rho s ;;
      if truthy v then exec f t rho s1 else match e with Some e' => exec f e' rho s1 | None => Done SigNone s1 end
  | SWhile c b =>
      do v, s1 <- eval f c rho s ;;
      if truthy v then
        do sg, s2 <- exec f b rho s1 ;;
        match sg with
        | SigBreak => Done SigNone s2
        | SigReturn r => Done (SigReturn r) s2
        | _ => exec f (SWhile c b) rho s2
        end
      else Done SigNone s1
  | SFor i c inc b =>
      let '(l, s0) := alloc_env s (Some rho) in
      do _sg, s1 <- (match i with Some i' => exec f i' l s0 | None => Done SigNone s0 end) ;;
      for_loop f c inc b l s1
  | SBreak => Done SigBreak s
  | SContinue => Done SigContinue s
  | SReturn None => Done (SigReturn VNil) s
  | SReturn (Some e) => do v, s1 <- eval f e rho s ;; Done (SigReturn v) s1
  | SFun fn ps body =>
      let '(cenv, s1) := alloc_env s (Some rho) in
      let id := length (funs s1) in
      let s2 := {| envs := envs s1; funs := funs s1 ++ [{| c_name := fn; c_params := ps; c_body := body; c_env := cenv |}]; out := out s1 |} in
      match env_define s2 rho fn (VFun id) with Some s3 => Done SigNone s3 | None => Stuck end
  end end
with for_loop (fuel:nat) (c:expr) (inc:option expr) (b:stmt) (l:nat) (s:state) {struct fuel} : res signal :=
  match fuel with 0 => Fuel | S f =>
    do v, s1 <- eval f c l s ;;
    if truthy v then
      do sg, s2 <- exec f b l s1 ;;
      match sg with
      | SigBreak => Done SigNone s2
      | SigReturn r => Done (SigReturn r) s2
      | _ => do _v, s3 <- (match inc with Some e => eval f e l s2 | None => Done VNil s2 end) ;;
             for_loop f c inc b l s3
      end
    else Done SigNone s1
  end
with exec_list (fuel:nat) (ss:list stmt) (rho:nat) (s:state) {struct fuel} : res signal :=
  match fuel with 0 => Fuel | S f =>
  match ss with
  | [] => Done SigNone s
  | st::ss' => do sg, s1 <- exec f st rho s ;;
               match sg with SigNone => exec_list f ss' rho s1 | _ => Done sg s1 end
  end end.

(* a test: counter factory *)
Definition prog : list stmt :=
  [ SFun 0 [] [ SVar 1 (Some (ENum 0));
                SFun 2 [] [ SExpr (EAssign 1 (EAdd (EVar 1) (ENum 1))); SReturn (Some (EVar 1)) ];
                SReturn (Some (EVar 2)) ];
    SVar 3 (Some (ECall (EVar 0) []));
    SVar 4 (Some (ECall (EVar 0) []));
    SPrint (ECall (EVar 3) []); SPrint (ECall (EVar 3) []); SPrint (ECall (EVar 4) []);
    SFor (Some (SVar 5 (Some (ENum 0)))) (EAdd (EVar 5) (ENum (-3))) (Some (EAssign 5 (EAdd (EVar 5) (ENum 1))))
         (SBlock [SPrint (EVar 5); SIf (EAdd (EVar 5) (ENum (-1))) (SBlock []) (Some SContinue); SPrint (ENum 99)]) ].
Definition init : state := {| envs := [([], None)]; funs := []; out := [] |}.
Eval vm_compute in match exec_list 200 prog 0 init with Done sg s => Some (out s) | _ => None end.
