From Coq Require Import List Arith ZArith Lia Bool.
Import ListNotations.
Require Import EvalSpike_Defs.

Ltac inv H := inversion H; subst; clear H.

(* ---------- the frame relation ---------- *)
Definition edom (s:state) (id:nat) : list name := match nth_error (envs s) id with Some (sc,_) => dom sc | None => [] end.
Definition epar (s:state) (id:nat) : option (option nat) := option_map snd (nth_error (envs s) id).
Definition suffix {A} (l l':list A) : Prop := exists p, l' = p ++ l.

(* all scopes with id < n keep their parent; their domain is unchanged unless P id, in which case it may only grow at the front *)
Definition frameB (n:nat) (P:nat -> Prop) (s s':state) : Prop :=
  n <= length (envs s) /\ length (envs s) <= length (envs s') /\
  forall id, id < n -> epar s' id = epar s id /\ suffix (edom s id) (edom s' id) /\ (~ P id -> edom s' id = edom s id).

Lemma suffix_refl {A} (l:list A) : suffix l l. Proof. exists []; reflexivity. Qed.
Lemma suffix_trans {A} (a b c:list A) : suffix a b -> suffix b c -> suffix a c.
Proof. intros [p ->] [q ->]. exists (q ++ p). now rewrite app_assoc. Qed.

Lemma frameB_refl n P s : n <= length (envs s) -> frameB n P s s.
Proof. intros; split; [|split]; auto. intros; split; [|split]; auto using suffix_refl. Qed.
Lemma frameB_trans n P s s1 s2 : frameB n P s s1 -> frameB n P s1 s2 -> frameB n P s s2.
Proof.
  intros (A1 & A2 & A3) (B1 & B2 & B3). split; [lia|split; [lia|]]. intros id H.
  destruct (A3 id H) as (a1 & a2 & a3), (B3 id H) as (b1 & b2 & b3).
  split; [congruence|split].
  - eapply suffix_trans; eauto.
  - intros np. rewrite b3, a3; auto.
Qed.
Lemma frameB_shrink m n (P Q:nat -> Prop) s s' :
  frameB m P s s' -> n <= m -> (forall id, id < n -> P id -> Q id) -> frameB n Q s s'.
Proof.
  intros (A1 & A2 & A3) Hn HPQ. split; [lia|split; [lia|]]. intros id H.
  destruct (A3 id ltac:(lia)) as (a & b & c). split; [exact a|split; [exact b|]].
  intros nq. apply c. intro p. apply nq. apply HPQ; auto.
Qed.

(* ---------- effect of the primitive operations ---------- *)
Lemma nth_skipn {A} : forall n (l:list A) i, nth_error (skipn n l) i = nth_error l (n + i).
Proof. induction n; intros l i; simpl; auto. destruct l; simpl; auto. destruct i; reflexivity. Qed.
Lemma nth_firstn {A} : forall n (l:list A) i, i < n -> nth_error (firstn n l) i = nth_error l i.
Proof. induction n; intros l i H; [lia|]. destruct l; simpl; [destruct i; reflexivity|]. destruct i; simpl; auto. apply IHn; lia. Qed.
Lemma nth_error_set_env_same s id e : id < length (envs s) -> nth_error (envs (set_env s id e)) id = Some e.
Proof.
  intros H. unfold set_env; simpl. rewrite nth_error_app2; rewrite firstn_length_le by lia; [|lia].
  now rewrite Nat.sub_diag.
Qed.
Lemma nth_error_set_env_other s id e j : j <> id -> id < length (envs s) -> nth_error (envs (set_env s id e)) j = nth_error (envs s) j.
Proof.
  intros Hj H. unfold set_env; cbn [envs].
  destruct (Nat.lt_ge_cases j id).
  - rewrite nth_error_app1 by (rewrite firstn_length_le; lia). apply nth_firstn; lia.
  - rewrite nth_error_app2 by (rewrite firstn_length_le; lia). rewrite firstn_length_le by lia.
    replace (j - id) with (S (j - id - 1)) by lia. cbn [nth_error]. rewrite nth_skipn. f_equal. lia.
Qed.
Lemma length_set_env s id e : id < length (envs s) -> length (envs (set_env s id e)) = length (envs s).
Proof.
  intros H. unfold set_env; cbn [envs]. rewrite app_length. cbn [length]. rewrite firstn_length_le by lia. rewrite skipn_length. lia.
Qed.
Lemma dom_update x v sc : dom (update x v sc) = dom sc.
Proof. induction sc as [|[y w] r IH]; simpl; auto. destruct (Nat.eqb x y); simpl; congruence. Qed.

Lemma nth_lt {A} (l:list A) i a : nth_error l i = Some a -> i < length l.
Proof. intros H. apply nth_error_Some. congruence. Qed.

Lemma set_env_frame n P s id sc sc' par :
  nth_error (envs s) id = Some (sc, par) -> n <= length (envs s) ->
  suffix (dom sc) (dom sc') -> (~ P id -> dom sc' = dom sc) ->
  frameB n P s (set_env s id (sc', par)).
Proof.
  intros Hn Hle Hsuf Hdom. pose proof (nth_lt _ _ _ Hn) as Hlt.
  split; [auto|split; [rewrite length_set_env; lia|]]. intros id0 Hid0. split; [|split].
  - unfold epar. destruct (Nat.eq_dec id0 id) as [->|ne].
    + rewrite nth_error_set_env_same, Hn by auto. reflexivity.
    + rewrite nth_error_set_env_other by auto. reflexivity.
  - unfold edom. destruct (Nat.eq_dec id0 id) as [->|ne].
    + rewrite nth_error_set_env_same, Hn by auto. auto.
    + rewrite nth_error_set_env_other by auto. apply suffix_refl.
  - intros np. unfold edom. destruct (Nat.eq_dec id0 id) as [->|ne].
    + rewrite nth_error_set_env_same, Hn by auto. auto.
    + rewrite nth_error_set_env_other by auto. reflexivity.
Qed.

Lemma define_frame n s id x v s' : env_define s id x v = Some s' -> n <= length (envs s) -> frameB n (fun i => i = id) s s'.
Proof.
  unfold env_define. destruct (nth_error (envs s) id) as [[sc par]|] eqn:E; [|discriminate].
  intros H Hn; inv H. eapply set_env_frame; eauto.
  - exists [x]. reflexivity.
  - intros np. exfalso; apply np; reflexivity.
Qed.
Lemma assign_frame fuel : forall n P s id x v s', env_assign fuel s id x v = Some s' -> n <= length (envs s) -> frameB n P s s'.
Proof.
  induction fuel as [|f IH]; simpl; intros n P s id x v s' H Hn; [discriminate|].
  destruct (nth_error (envs s) id) as [[sc par]|] eqn:E; [|discriminate].
  destruct (lookup x sc).
  - inv H. eapply set_env_frame; eauto; rewrite dom_update; auto using suffix_refl.
  - destruct par; [eauto|discriminate].
Qed.
Lemma alloc_frame n P s par id s' : alloc_env s par = (id, s') -> n <= length (envs s) ->
  frameB n P s s' /\ id = length (envs s) /\ length (envs s') = S (length (envs s)) /\ funs s' = funs s.
Proof.
  unfold alloc_env. intros H Hn; inv H. simpl. split; [|split; [reflexivity|split; [rewrite app_length; simpl; lia|reflexivity]]].
  split; [auto|split; [simpl; rewrite app_length; simpl; lia|]]. intros id Hid. split; [|split].
  - unfold epar; simpl. rewrite nth_error_app1 by lia. reflexivity.
  - unfold edom; simpl. rewrite nth_error_app1 by lia. apply suffix_refl.
  - intros _. unfold edom; simpl. rewrite nth_error_app1 by lia. reflexivity.
Qed.
Lemma bind_params_frame : forall ps vs n s id s', bind_params s id ps vs = Some s' -> n <= length (envs s) -> frameB n (fun i => i = id) s s'.
Proof.
  induction ps as [|p ps IH]; intros [|v vs] n s id s' H Hn; simpl in H; try discriminate.
  - inv H. apply frameB_refl; auto.
  - destruct (env_define s id p v) as [s1|] eqn:E; [|discriminate].
    pose proof (define_frame n _ _ _ _ _ E Hn) as F1.
    eapply frameB_trans; [exact F1|]. eapply IH; eauto. destruct F1 as (_ & ? & _). lia.
Qed.
Lemma same_envs_frame n P s s' : envs s' = envs s -> n <= length (envs s) -> frameB n P s s'.
Proof. intros E Hn. unfold frameB, epar, edom. rewrite E. split; [auto|split; [auto|]]. intros; split; [|split]; auto using suffix_refl. Qed.

(* ---------- the theorem ---------- *)
Definition here (rho:nat) := fun i:nat => i = rho.

Definition FrameAt (f:nat) : Prop :=
  (forall e rho s v s', eval f e rho s = Done v s' -> rho < length (envs s) -> frameB (length (envs s)) (fun _ => False) s s') /\
  (forall es rho s vs s', eval_list f es rho s = Done vs s' -> rho < length (envs s) -> frameB (length (envs s)) (fun _ => False) s s') /\
  (forall st rho s sg s', exec f st rho s = Done sg s' -> rho < length (envs s) -> frameB (length (envs s)) (here rho) s s') /\
  (forall c inc b rho s sg s', for_loop f c inc b rho s = Done sg s' -> rho < length (envs s) -> frameB (length (envs s)) (here rho) s s') /\
  (forall ss rho s sg s', exec_list f ss rho s = Done sg s' -> rho < length (envs s) -> frameB (length (envs s)) (here rho) s s').

Lemma bind_done {A B} (r:res A) (k:A -> state -> res B) b s' :
  bind r k = Done b s' -> exists a s1, r = Done a s1 /\ k a s1 = Done b s'.
Proof. destruct r; simpl; intros; try discriminate; eauto. Qed.

Tactic Notation "bd" hyp(H) "as" ident(a) ident(s1) ident(E) :=
  apply bind_done in H; destruct H as (a & s1 & E & H).
Ltac len F := let L := fresh "L" in pose proof F as L; destruct L as (_ & L & _).
Ltac ev H := cbn [eval eval_list exec exec_list for_loop] in H.

(* weaken "nothing grows" to "only rho grows" *)
Lemma frame_F_here n rho s s' : frameB n (fun _ => False) s s' -> frameB n (here rho) s s'.
Proof. intros; eapply frameB_shrink; eauto. intros; contradiction. Qed.
(* a sub-execution in a scope that did not exist in s cannot touch s's scopes *)
Lemma frame_fresh m n l P s s' : frameB m (here l) s s' -> n <= m -> n <= l -> frameB n P s s'.
Proof. intros; eapply frameB_shrink; eauto. unfold here; intros; lia. Qed.
Lemma frame_down m n P s s' : frameB m P s s' -> n <= m -> frameB n P s s'.
Proof. intros; eapply frameB_shrink; eauto. Qed.

Lemma opt_eval_frame f (IHe : forall e rho s v s', eval f e rho s = Done v s' -> rho < length (envs s) -> frameB (length (envs s)) (fun _ => False) s s')
  (o:option expr) rho s v s' :
  (match o with Some e => eval f e rho s | None => Done VNil s end) = Done v s' -> rho < length (envs s) ->
  frameB (length (envs s)) (fun _ => False) s s'.
Proof. destruct o; intros H Hr; [eauto|]. inv H. apply frameB_refl; auto. Qed.

Lemma frame_all : forall f, FrameAt f.
Proof.
  induction f as [|f (IHe & IHl & IHs & IHf & IHss)]; unfold FrameAt.
  { split; [|split; [|split; [|split]]]; intros; simpl in *; discriminate. }
  split; [|split; [|split; [|split]]].
  - (* eval *)
    intros e rho s v s' H Hr. destruct e; ev H.
    + inv H. apply frameB_refl; auto.
    + inv H. apply frameB_refl; auto.
    + destruct (env_get _ s rho x); inv H. apply frameB_refl; auto.
    + bd H as v1 s1 E1. pose proof (IHe _ _ _ _ _ E1 Hr) as F1. len F1.
      destruct (env_assign _ s1 rho x v1) eqn:EA; inv H.
      eapply frameB_trans; [exact F1|]. eapply assign_frame; eauto.
    + bd H as v1 s1 E1. bd H as v2 s2 E2. pose proof (IHe _ _ _ _ _ E1 Hr) as F1. len F1.
      pose proof (IHe _ _ _ _ _ E2 ltac:(lia)) as F2.
      assert (s' = s2) by (destruct v1, v2; inv H; auto). subst.
      eapply frameB_trans; [exact F1|]. eapply frame_down; eauto.
    + (* call *)
      bd H as fv s1 E1. pose proof (IHe _ _ _ _ _ E1 Hr) as F1. len F1.
      destruct fv as [| |id]; try discriminate.
      destruct (nth_error (funs s1) id) as [c|] eqn:EC; [|discriminate].
      destruct (negb _); [discriminate|].
      bd H as vs s2 E2. pose proof (IHl _ _ _ _ _ E2 ltac:(lia)) as F2. len F2.
      destruct (alloc_env s2 (Some (c_env c))) as [act s3] eqn:EA.
      destruct (alloc_frame (length (envs s)) (fun _ => False) _ _ _ _ EA ltac:(lia)) as (F3 & -> & L3 & _).
      destruct (env_define s3 _ (c_name c) (VFun id)) as [s4|] eqn:ED; [|discriminate].
      pose proof (define_frame (length (envs s)) _ _ _ _ _ ED ltac:(lia)) as F4. len F4.
      destruct (bind_params s4 _ (c_params c) vs) as [s5|] eqn:EB; [|discriminate].
      pose proof (bind_params_frame _ _ (length (envs s)) _ _ _ EB ltac:(lia)) as F5. len F5.
      bd H as sg s6 E6. pose proof (IHss _ _ _ _ _ E6 ltac:(lia)) as F6.
      assert (s' = s6) by (destruct sg; inv H; auto). subst.
      eapply frameB_trans; [exact F1|].
      eapply frameB_trans; [eapply frame_down; [exact F2|lia]|].
      eapply frameB_trans; [exact F3|].
      eapply frameB_trans; [eapply frame_fresh; [exact F4|lia|lia]|].
      eapply frameB_trans; [eapply frame_fresh; [exact F5|lia|lia]|].
      eapply frame_fresh; [exact F6|lia|lia].
  - (* eval_list *)
    intros es rho s vs s' H Hr. destruct es; ev H.
    + inv H. apply frameB_refl; auto.
    + bd H as v1 s1 E1. bd H as vs2 s2 E2. inv H. pose proof (IHe _ _ _ _ _ E1 Hr) as F1. len F1.
      pose proof (IHl _ _ _ _ _ E2 ltac:(lia)) as F2.
      eapply frameB_trans; [exact F1|]. eapply frame_down; eauto.
  - (* exec *)
    intros st rho s sg s' H Hr. destruct st; ev H.
    + bd H as v1 s1 E1. inv H. apply frame_F_here. eauto.
    + bd H as v1 s1 E1. inv H. apply frame_F_here. pose proof (IHe _ _ _ _ _ E1 Hr) as F1. len F1.
      eapply frameB_trans; [exact F1|]. apply same_envs_frame; auto.
    + bd H as v1 s1 E1. pose proof (opt_eval_frame f IHe _ _ _ _ _ E1 Hr) as F1. len F1.
      destruct (bound_here s1 rho x); [discriminate|].
      destruct (env_define s1 rho x v1) eqn:ED; inv H.
      eapply frameB_trans; [apply frame_F_here; exact F1|]. eapply define_frame; eauto.
    + destruct (alloc_env s (Some rho)) as [b s1] eqn:EA.
      destruct (alloc_frame (length (envs s)) (here rho) _ _ _ _ EA ltac:(lia)) as (F1 & -> & L1 & _).
      pose proof (IHss _ _ _ _ _ H ltac:(lia)) as F2.
      eapply frameB_trans; [exact F1|]. eapply frame_fresh; [exact F2|lia|lia].
    + bd H as v1 s1 E1. pose proof (IHe _ _ _ _ _ E1 Hr) as F1. len F1.
      eapply frameB_trans; [apply frame_F_here; exact F1|].
      destruct (truthy v1).
      * eapply frame_down; [eapply IHs; eauto; lia|lia].
      * destruct e.
        -- eapply frame_down; [eapply IHs; eauto; lia|lia].
        -- inv H. apply frameB_refl; lia.
    + bd H as v1 s1 E1. pose proof (IHe _ _ _ _ _ E1 Hr) as F1. len F1.
      eapply frameB_trans; [apply frame_F_here; exact F1|].
      destruct (truthy v1).
      * bd H as sg2 s2 E2. pose proof (IHs _ _ _ _ _ E2 ltac:(lia)) as F2. len F2.
        eapply frameB_trans; [eapply frame_down; [exact F2|lia]|].
        destruct sg2; try (inv H; apply frameB_refl; lia);
          (eapply frame_down; [eapply IHs; eauto; lia|lia]).
      * inv H. apply frameB_refl; lia.
    + destruct (alloc_env s (Some rho)) as [l s0] eqn:EA.
      destruct (alloc_frame (length (envs s)) (here rho) _ _ _ _ EA ltac:(lia)) as (F1 & -> & L1 & _).
      bd H as sg1 s1 E1.
      assert (F2: frameB (length (envs s)) (here rho) s0 s1 /\ length (envs s0) <= length (envs s1)).
      { destruct i.
        - pose proof (IHs _ _ _ _ _ E1 ltac:(lia)) as F. len F. split; auto. eapply frame_fresh; [exact F|lia|lia].
        - inv E1. split; auto. apply frameB_refl; lia. }
      destruct F2 as (F2 & L2).
      pose proof (IHf _ _ _ _ _ _ _ H ltac:(lia)) as F3.
      eapply frameB_trans; [exact F1|]. eapply frameB_trans; [exact F2|].
      eapply frame_fresh; [exact F3|lia|lia].
    + inv H. apply frameB_refl; auto.
    + inv H. apply frameB_refl; auto.
    + destruct e.
      * bd H as v1 s1 E1. inv H. apply frame_F_here; eauto.
      * inv H. apply frameB_refl; auto.
    + destruct (alloc_env s (Some rho)) as [cenv s1] eqn:EA.
      destruct (alloc_frame (length (envs s)) (here rho) _ _ _ _ EA ltac:(lia)) as (F1 & -> & L1 & _).
      match type of H with match env_define ?S _ _ _ with _ => _ end = _ => destruct (env_define S rho f0 (VFun (length (funs s1)))) eqn:ED end; inv H.
      eapply frameB_trans; [exact F1|].
      eapply frameB_trans; [|eapply define_frame; [exact ED|simpl; lia]].
      apply same_envs_frame; [reflexivity|lia].
  - (* for_loop *)
    intros c inc b rho s sg s' H Hr. ev H.
    bd H as v1 s1 E1. pose proof (IHe _ _ _ _ _ E1 Hr) as F1. len F1.
    eapply frameB_trans; [apply frame_F_here; exact F1|].
    destruct (truthy v1).
    + bd H as sg2 s2 E2. pose proof (IHs _ _ _ _ _ E2 ltac:(lia)) as F2. len F2.
      eapply frameB_trans; [eapply frame_down; [exact F2|lia]|].
      destruct sg2; try (inv H; apply frameB_refl; lia);
      ( bd H as v3 s3 E3; pose proof (opt_eval_frame f IHe _ _ _ _ _ E3 ltac:(lia)) as F3; len F3;
        eapply frameB_trans; [apply frame_F_here; eapply frame_down; [exact F3|lia]|];
        eapply frame_down; [eapply IHf; eauto; lia|lia] ).
    + inv H. apply frameB_refl; lia.
  - (* exec_list *)
    intros ss rho s sg s' H Hr. destruct ss; ev H.
    + inv H. apply frameB_refl; auto.
    + bd H as sg1 s1 E1. pose proof (IHs _ _ _ _ _ E1 Hr) as F1. len F1.
      eapply frameB_trans; [exact F1|].
      destruct sg1; try (inv H; apply frameB_refl; lia).
      eapply frame_down; [eapply IHss; eauto; lia|lia].
Qed.

(* C03-style corollary: a block never changes the domain or parent of any scope that existed before it *)
Theorem block_shadows_never_modifies f ss rho s sg s' :
  exec f (SBlock ss) rho s = Done sg s' -> rho < length (envs s) ->
  forall id, id < length (envs s) -> edom s' id = edom s id /\ epar s' id = epar s id.
Proof.
  intros H Hr id Hid. destruct f as [|f]; [discriminate|]. ev H.
  destruct (alloc_env s (Some rho)) as [b s1] eqn:EA.
  destruct (alloc_frame (length (envs s)) (fun _ => False) _ _ _ _ EA ltac:(lia)) as (F1 & -> & L1 & _).
  destruct (frame_all f) as (_ & _ & _ & _ & IHss).
  pose proof (IHss _ _ _ _ _ H ltac:(lia)) as F2.
  assert (F: frameB (length (envs s)) (fun _ => False) s s').
  { eapply frameB_trans; [exact F1|]. eapply frame_fresh; [exact F2|lia|lia]. }
  destruct F as (_ & _ & F). destruct (F id Hid) as (a & _ & c). split; auto.
Qed.
Print Assumptions block_shadows_never_modifies.
