(* SPIKE (throwaway): well-formed states are preserved and evaluation never gets Stuck *)
From Coq Require Import List Arith ZArith Lia Bool.
Import ListNotations.
Require Import EvalSpike_Defs.
Ltac inv H := inversion H; subst; clear H.
Lemma bind_done {A B} (r:res A) (k:A -> state -> res B) b s' :
  bind r k = Done b s' -> exists a s1, r = Done a s1 /\ k a s1 = Done b s'.
Proof. destruct r; simpl; intros; try discriminate; eauto. Qed.
Tactic Notation "bd" hyp(H) "as" ident(a) ident(s1) ident(E) :=
  apply bind_done in H; destruct H as (a & s1 & E & H).
Ltac ev := cbn [eval eval_list exec exec_list for_loop].
Ltac evh H := cbn [eval eval_list exec exec_list for_loop] in H.

(* ---------- well-formedness ---------- *)
Definition wf_value (nf:nat) (v:value) : Prop := match v with VFun id => id < nf | _ => True end.
Definition wf_scope (nf:nat) (sc:scope) : Prop := Forall (fun xv => wf_value nf (snd xv)) sc.
Definition wf_state (s:state) : Prop :=
  (forall id sc par, nth_error (envs s) id = Some (sc, par) ->
      wf_scope (length (funs s)) sc /\ (forall p, par = Some p -> p < id)) /\
  (forall id c, nth_error (funs s) id = Some c -> c_env c < length (envs s)).

(* growth: the state only gets bigger; what was well-formed stays so *)
Definition grows (s s':state) : Prop := length (envs s) <= length (envs s') /\ length (funs s) <= length (funs s').
Lemma grows_refl s : grows s s. Proof. split; auto. Qed.
Lemma grows_trans a b c : grows a b -> grows b c -> grows a c. Proof. unfold grows; lia. Qed.
Lemma wf_value_mono n m v : n <= m -> wf_value n v -> wf_value m v.
Proof. destruct v; simpl; auto; lia. Qed.
Lemma wf_scope_mono n m sc : n <= m -> wf_scope n sc -> wf_scope m sc.
Proof. intros H. unfold wf_scope. apply Forall_impl. intros; eapply wf_value_mono; eauto. Qed.

(* list plumbing for set_env (own lemmas: not in the 8.16 stdlib) *)
Lemma nth_skipn {A} : forall n (l:list A) i, nth_error (skipn n l) i = nth_error l (n + i).
Proof. induction n; intros l i; simpl; auto. destruct l; simpl; auto. destruct i; reflexivity. Qed.
Lemma nth_firstn {A} : forall n (l:list A) i, i < n -> nth_error (firstn n l) i = nth_error l i.
Proof. induction n; intros l i H; [lia|]. destruct l; simpl; [destruct i; reflexivity|]. destruct i; simpl; auto. apply IHn; lia. Qed.
Lemma nth_lt {A} (l:list A) i a : nth_error l i = Some a -> i < length l.
Proof. intros H. apply nth_error_Some. congruence. Qed.
Lemma set_env_same s id e : id < length (envs s) -> nth_error (envs (set_env s id e)) id = Some e.
Proof. intros H. unfold set_env; cbn [envs]. rewrite nth_error_app2; rewrite firstn_length_le by lia; [|lia]. now rewrite Nat.sub_diag. Qed.
Lemma set_env_other s id e j : j <> id -> id < length (envs s) -> nth_error (envs (set_env s id e)) j = nth_error (envs s) j.
Proof.
  intros Hj H. unfold set_env; cbn [envs]. destruct (Nat.lt_ge_cases j id).
  - rewrite nth_error_app1 by (rewrite firstn_length_le; lia). apply nth_firstn; lia.
  - rewrite nth_error_app2 by (rewrite firstn_length_le; lia). rewrite firstn_length_le by lia.
    replace (j - id) with (S (j - id - 1)) by lia. cbn [nth_error]. rewrite nth_skipn. f_equal. lia.
Qed.
Lemma set_env_length s id e : id < length (envs s) -> length (envs (set_env s id e)) = length (envs s).
Proof. intros H. unfold set_env; cbn [envs]. rewrite app_length. cbn [length]. rewrite firstn_length_le by lia. rewrite skipn_length. lia. Qed.

(* ---------- primitives preserve wf ---------- *)
Lemma wf_set_env s id sc sc' par :
  wf_state s -> nth_error (envs s) id = Some (sc, par) -> wf_scope (length (funs s)) sc' ->
  wf_state (set_env s id (sc', par)) /\ grows s (set_env s id (sc', par)).
Proof.
  intros (W1 & W2) Hn Hsc. pose proof (nth_lt _ _ _ Hn) as Hlt. split; [split|].
  - intros j scj parj Hj. change (funs (set_env s id (sc', par))) with (funs s).
    destruct (Nat.eq_dec j id) as [->|ne].
    + rewrite set_env_same in Hj by auto. inv Hj. split; auto. apply (W1 _ _ _ Hn).
    + rewrite set_env_other in Hj by auto. eauto.
  - intros j c Hj. rewrite set_env_length by auto. eauto.
  - split; [rewrite set_env_length; auto|simpl; auto].
Qed.
Lemma update_wf n x v sc : wf_scope n sc -> wf_value n v -> wf_scope n (update x v sc).
Proof.
  unfold wf_scope. induction sc as [|[y w] r IH]; simpl; intros H Hv; auto.
  inv H. destruct (Nat.eqb x y); constructor; auto.
Qed.
Lemma wf_define s id x v s' : wf_state s -> wf_value (length (funs s)) v -> env_define s id x v = Some s' -> wf_state s' /\ grows s s'.
Proof.
  intros W Hv H. unfold env_define in H. destruct (nth_error (envs s) id) as [[sc par]|] eqn:E; [|discriminate]. inv H.
  eapply wf_set_env; eauto. constructor; auto. apply (proj1 W _ _ _ E).
Qed.
Lemma define_some s id x v : id < length (envs s) -> exists s', env_define s id x v = Some s'.
Proof. intros H. unfold env_define. destruct (nth_error (envs s) id) as [[sc par]|] eqn:E; eauto. apply nth_error_None in E. lia. Qed.
Lemma wf_assign fuel : forall s id x v s', wf_state s -> wf_value (length (funs s)) v -> env_assign fuel s id x v = Some s' -> wf_state s' /\ grows s s'.
Proof.
  induction fuel as [|f IH]; simpl; intros s id x v s' W Hv H; [discriminate|].
  destruct (nth_error (envs s) id) as [[sc par]|] eqn:E; [|discriminate].
  destruct (lookup x sc).
  - inv H. eapply wf_set_env; eauto. apply update_wf; auto. apply (proj1 W _ _ _ E).
  - destruct par; [eauto|discriminate].
Qed.
Lemma lookup_wf n x sc v : wf_scope n sc -> lookup x sc = Some v -> wf_value n v.
Proof. unfold wf_scope. induction sc as [|[y w] r IH]; simpl; intros H L; [discriminate|]. inv H. destruct (Nat.eqb x y); [inv L; auto|auto]. Qed.
Lemma wf_get fuel : forall s id x v, wf_state s -> env_get fuel s id x = Some v -> wf_value (length (funs s)) v.
Proof.
  induction fuel as [|f IH]; simpl; intros s id x v W H; [discriminate|].
  destruct (nth_error (envs s) id) as [[sc par]|] eqn:E; [|discriminate].
  destruct (lookup x sc) eqn:L.
  - inv H. eapply lookup_wf; eauto. apply (proj1 W _ _ _ E).
  - destruct par; [eauto|discriminate].
Qed.
Lemma wf_alloc s par id s' : wf_state s -> (forall p, par = Some p -> p < length (envs s)) -> alloc_env s par = (id, s') ->
  wf_state s' /\ grows s s' /\ id = length (envs s) /\ length (envs s') = S (length (envs s)) /\ funs s' = funs s.
Proof.
  intros (W1 & W2) Hp H. unfold alloc_env in H. inv H. cbn [envs funs]. split; [split|].
  - intros j sc pr Hj. cbn [envs funs] in *. destruct (Nat.lt_ge_cases j (length (envs s))).
    + rewrite nth_error_app1 in Hj by auto. eauto.
    + rewrite nth_error_app2 in Hj by auto. destruct (j - length (envs s)) as [|k] eqn:Ek.
      * inv Hj. split; [constructor|]. intros p ->. specialize (Hp p eq_refl). lia.
      * destruct k; discriminate.
  - intros j c Hj. cbn [envs funs] in *. rewrite app_length; simpl. specialize (W2 _ _ Hj). lia.
  - split; [split; [cbn [envs]; rewrite app_length; simpl; lia|cbn [funs]; auto]|].
    split; [reflexivity|]. split; [rewrite app_length; simpl; lia|reflexivity].
Qed.
Lemma wf_bind_params : forall ps vs s id s', wf_state s -> Forall (wf_value (length (funs s))) vs -> bind_params s id ps vs = Some s' -> wf_state s' /\ grows s s'.
Proof.
  induction ps as [|p ps IH]; intros [|v vs] s id s' W Hv H; simpl in H; try discriminate.
  - inv H. auto using grows_refl.
  - destruct (env_define s id p v) as [s1|] eqn:E; [|discriminate]. inv Hv.
    destruct (wf_define _ _ _ _ _ W H2 E) as (W1 & G1).
    destruct (IH vs s1 id s' W1) as (W2 & G2); auto.
    + eapply Forall_impl; [|exact H3]. intros a; apply wf_value_mono. apply G1.
    + split; auto. eapply grows_trans; eauto.
Qed.
Lemma bind_params_some : forall ps vs s id, length ps = length vs -> id < length (envs s) -> exists s', bind_params s id ps vs = Some s'.
Proof.
  induction ps as [|p ps IH]; intros [|v vs] s id HL Hid; simpl in *; try discriminate; eauto.
  destruct (define_some s id p v Hid) as [s1 E]. rewrite E. apply IH; [lia|].
  unfold env_define in E. destruct (nth_error (envs s) id) as [[sc par]|]; [|discriminate]. inv E. rewrite set_env_length; auto.
Qed.

(* ---------- main theorem ---------- *)
Definition Good {A} (P:state -> A -> Prop) (s:state) (r:res A) : Prop :=
  match r with
  | Done a s' => wf_state s' /\ grows s s' /\ P s' a
  | Fail _ _ | Fuel => True
  | Stuck => False
  end.
Definition Pv (s:state) (v:value) := wf_value (length (funs s)) v.
Definition Pvs (s:state) (vs:list value) := Forall (wf_value (length (funs s))) vs /\ True.
Definition Psig (s:state) (sg:signal) := match sg with SigReturn v => wf_value (length (funs s)) v | _ => True end.

Lemma Good_bind {A B} (P:state -> A -> Prop) (Q:state -> B -> Prop) s r k :
  Good P s r -> (forall a s1, wf_state s1 -> grows s s1 -> P s1 a -> Good Q s1 (k a s1)) -> Good Q s (bind r k).
Proof.
  destruct r; simpl; auto. intros (W & G & Pa) Hk. specialize (Hk _ _ W G Pa).
  destruct (k a s0); simpl in *; auto. destruct Hk as (W' & G' & Q').
  split; [exact W'|split; [eapply grows_trans; eauto|exact Q']].
Qed.

Lemma Good_done {A} (P:state -> A -> Prop) s a s' : wf_state s' -> grows s s' -> P s' a -> Good P s (Done a s').
Proof. simpl; auto. Qed.
Lemma Good_rebase {A} (P:state -> A -> Prop) s0 s r : grows s0 s -> Good P s r -> Good P s0 r.
Proof. intros G. destruct r; simpl; auto. intros (W & G' & Pa). split; [auto|split; [eapply grows_trans; eauto|auto]]. Qed.
Ltac dn := apply Good_done; [auto|auto using grows_refl|simpl; auto].

Definition SafeAt (f:nat) : Prop :=
  (forall e rho s, wf_state s -> rho < length (envs s) -> Good Pv s (eval f e rho s)) /\
  (forall es rho s, wf_state s -> rho < length (envs s) -> Good (fun s' vs => Forall (wf_value (length (funs s'))) vs /\ length vs = length es) s (eval_list f es rho s)) /\
  (forall st rho s, wf_state s -> rho < length (envs s) -> Good Psig s (exec f st rho s)) /\
  (forall c inc b rho s, wf_state s -> rho < length (envs s) -> Good Psig s (for_loop f c inc b rho s)) /\
  (forall ss rho s, wf_state s -> rho < length (envs s) -> Good Psig s (exec_list f ss rho s)).

Lemma safe_all : forall f, SafeAt f.
Proof.
  induction f as [|f (IHe & IHl & IHs & IHf & IHss)]; unfold SafeAt.
  { split; [|split; [|split; [|split]]]; intros; simpl; exact I. }
  split; [|split; [|split; [|split]]].
  - (* eval *)
    intros e rho s W Hr. destruct e; ev.
    + dn.
    + dn.
    + destruct (env_get _ s rho x) eqn:G; [|exact I]. dn. eapply wf_get; eauto.
    + eapply Good_bind; [apply IHe; auto|]. intros v s1 W1 G1 P1.
      destruct (env_assign _ s1 rho x v) eqn:EA; [|exact I].
      destruct (wf_assign _ _ _ _ _ _ W1 P1 EA) as (W2 & G2). dn.
      eapply wf_value_mono; [apply G2|exact P1].
    + eapply Good_bind; [apply IHe; auto|]. intros va s1 W1 G1 P1.
      eapply Good_bind; [apply IHe; auto; destruct G1; lia|]. intros vb s2 W2 G2 P2.
      destruct va, vb; try exact I. dn.
    + (* call *)
      eapply Good_bind; [apply IHe; auto|]. intros fv s1 W1 G1 P1.
      destruct fv as [| |id]; try exact I.
      destruct (nth_error (funs s1) id) as [c|] eqn:EC; [|apply nth_error_None in EC; simpl in P1; lia].
      destruct (negb (length args =? length (c_params c))) eqn:EAr; [exact I|].
      apply negb_false_iff, Nat.eqb_eq in EAr.
      eapply (Good_bind (fun s' vs => Forall (wf_value (length (funs s'))) vs /\ length vs = length args)); [apply IHl; auto; destruct G1; lia|].
      intros vs s2 W2 G2 (P2 & L2).
      pose proof (proj2 W1 _ _ EC) as Hcenv.
      destruct (alloc_env s2 (Some (c_env c))) as [act s3] eqn:EA.
      destruct (wf_alloc s2 (Some (c_env c)) act s3 W2 ltac:(intros p Hp; inv Hp; destruct G2; lia) EA) as (W3 & G3 & -> & L3 & F3). cbv beta iota.
      destruct (define_some s3 (length (envs s2)) (c_name c) (VFun id) ltac:(lia)) as [s4 ED]. rewrite ED.
      destruct (wf_define s3 (length (envs s2)) (c_name c) (VFun id) s4 W3 ltac:(simpl; rewrite F3; destruct G2; simpl in P1; lia) ED) as (W4 & G4).
      destruct (bind_params_some (c_params c) vs s4 (length (envs s2)) ltac:(lia) ltac:(destruct G4; lia)) as [s5 EB]. rewrite EB.
      destruct (wf_bind_params (c_params c) vs s4 (length (envs s2)) s5 W4 ltac:(eapply Forall_impl; [|exact P2]; intros a; apply wf_value_mono; destruct G3, G4; lia) EB) as (W5 & G5).
      assert (G25 : grows s2 s5) by (eapply grows_trans; [exact G3|eapply grows_trans; eauto]).
      eapply Good_rebase; [exact G25|].
      eapply Good_bind; [apply IHss; auto; destruct G4, G5; lia|]. intros sg s6 W6 G6 P6.
      destruct sg; dn.
  - (* eval_list *)
    intros es rho s W Hr. destruct es; ev.
    + dn.
    + eapply Good_bind; [apply IHe; auto|]. intros v s1 W1 G1 P1.
      eapply (Good_bind (fun s' vs => Forall (wf_value (length (funs s'))) vs /\ length vs = length es)); [apply IHl; auto; destruct G1; lia|].
      intros vs s2 W2 G2 (P2 & L2). dn. split; [|simpl; lia].
      constructor; auto. eapply wf_value_mono; [apply G2|exact P1].
  - (* exec *)
    intros st rho s W Hr. destruct st; ev.
    + eapply Good_bind; [apply IHe; auto|]. intros v s1 W1 G1 P1. dn.
    + eapply Good_bind; [apply IHe; auto|]. intros v s1 W1 G1 P1. apply Good_done; [exact W1|split; apply le_n|simpl; auto].
    + eapply (Good_bind Pv); [destruct i; [apply IHe; auto|dn]|].
      intros v s1 W1 G1 P1. destruct (bound_here s1 rho x); [exact I|].
      destruct (define_some s1 rho x v ltac:(destruct G1; lia)) as [s2 ED]. rewrite ED.
      destruct (wf_define _ _ _ _ _ W1 P1 ED) as (W2 & G2). dn.
    + destruct (alloc_env s (Some rho)) as [b s1] eqn:EA.
      destruct (wf_alloc s (Some rho) b s1 W ltac:(intros p Hp; inv Hp; lia) EA) as (W1 & G1 & -> & L1 & F1). cbv beta iota.
      eapply Good_rebase; [exact G1|]. apply IHss; auto; lia.
    + eapply Good_bind; [apply IHe; auto|]. intros v s1 W1 G1 P1.
      destruct (truthy v); [apply IHs; auto; destruct G1; lia|].
      destruct e; [apply IHs; auto; destruct G1; lia|]. dn.
    + eapply Good_bind; [apply IHe; auto|]. intros v s1 W1 G1 P1.
      destruct (truthy v); [|dn].
      eapply Good_bind; [apply IHs; auto; destruct G1; lia|]. intros sg s2 W2 G2 P2.
      destruct sg; try (dn; fail);
        (apply IHs; auto; destruct G1, G2; lia).
    + destruct (alloc_env s (Some rho)) as [l s0] eqn:EA.
      destruct (wf_alloc s (Some rho) l s0 W ltac:(intros p Hp; inv Hp; lia) EA) as (W0 & G0 & -> & L0 & F0). cbv beta iota.
      eapply Good_rebase; [exact G0|].
      eapply (Good_bind Psig); [destruct i; [apply IHs; auto; lia|dn]|].
      intros sg s1 W1 G1 P1. apply IHf; auto. destruct G1; lia.
    + dn.
    + dn.
    + destruct e.
      * eapply Good_bind; [apply IHe; auto|]. intros v s1 W1 G1 P1. dn.
      * dn.
    + destruct (alloc_env s (Some rho)) as [cenv s1] eqn:EA.
      destruct (wf_alloc s (Some rho) cenv s1 W ltac:(intros p Hp; inv Hp; lia) EA) as (W1 & G1 & -> & L1 & F1). cbv beta iota.
      set (s2 := {| envs := envs s1; funs := funs s1 ++ [{| c_name := f0; c_params := ps; c_body := body; c_env := length (envs s) |}]; out := out s1 |}).
      assert (W2 : wf_state s2).
      { destruct W1 as (A1 & A2). split.
        - intros j sc par Hj. subst s2; cbn [envs funs] in *. destruct (A1 _ _ _ Hj) as (a & b). split; auto.
          eapply wf_scope_mono; [|exact a]. rewrite app_length; lia.
        - intros j c Hj. subst s2; cbn [envs funs] in *. destruct (Nat.lt_ge_cases j (length (funs s1))).
          + rewrite nth_error_app1 in Hj by auto. eauto.
          + rewrite nth_error_app2 in Hj by auto. destruct (j - length (funs s1)) as [|k]; [inv Hj; simpl; lia|destruct k; discriminate]. }
      destruct (define_some s2 rho f0 (VFun (length (funs s1))) ltac:(subst s2; cbn [envs]; lia)) as [s3 ED]. rewrite ED.
      destruct (wf_define s2 rho f0 (VFun (length (funs s1))) s3 W2 ltac:(subst s2; simpl; rewrite app_length; simpl; lia) ED) as (W3 & G3).
      apply Good_done; [exact W3| |simpl; auto].
      destruct G1 as (a1 & a2), G3 as (b1 & b2). subst s2; cbn [envs funs] in *. rewrite app_length in b2. simpl in b2. split; lia.
  - (* for_loop *)
    intros c inc b rho s W Hr. ev.
    eapply Good_bind; [apply IHe; auto|]. intros v s1 W1 G1 P1.
    destruct (truthy v); [|dn].
    eapply Good_bind; [apply IHs; auto; destruct G1; lia|]. intros sg s2 W2 G2 P2.
    destruct sg; try (dn; fail);
      (eapply (Good_bind Pv); [destruct inc; [apply IHe; auto; destruct G1, G2; lia|dn]|];
       intros v3 s3 W3 G3 P3; apply IHf; auto; destruct G1, G2, G3; lia).
  - (* exec_list *)
    intros ss rho s W Hr. destruct ss; ev.
    + dn.
    + eapply Good_bind; [apply IHs; auto|]. intros sg s1 W1 G1 P1.
      destruct sg; try (dn; fail).
      apply IHss; auto. destruct G1; lia.
Qed.

Definition init_ok : wf_state init.
Proof. split; intros id x; destruct id as [|[|]]; simpl; intros; try discriminate. inv H. split; [constructor|intros; discriminate]. Qed.

Theorem never_stuck f ss : exec_list f ss 0 init <> Stuck.
Proof.
  destruct (safe_all f) as (_ & _ & _ & _ & H). specialize (H ss 0 init init_ok ltac:(simpl; lia)).
  destruct (exec_list f ss 0 init); simpl in H; try discriminate; auto. 
Qed.
Print Assumptions never_stuck.
