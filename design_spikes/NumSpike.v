(* SPIKE (throwaway): decimal <-> binary64 on Flocq, no float axioms *)
From Coq Require Import ZArith List Lia Bool Reals.
From Flocq Require Import Core BinarySingleNaN.
Import ListNotations.
Open Scope Z_scope.
Definition prec := 53. Definition emax := 1024.
Lemma Hprec : Prec_gt_0 prec. Proof. unfold Prec_gt_0, prec; lia. Qed.
Lemma Hmax : Prec_lt_emax prec emax. Proof. unfold Prec_lt_emax, prec, emax; lia. Qed.
Definition f64 := binary_float prec emax.

(* scaled: N * 10^j  (j >= 0) *)
Definition int_to_f64 (z : Z) : f64 := @binary_normalize prec emax Hprec Hmax mode_NE z 0 false.

Definition pow10 (k : nat) : Z := Z.pow 10 (Z.of_nat k).
Definition dec2 (n : Z) (k : nat) : f64 :=   (* n / 10^k , n >= 0 *)
  match n with
  | Zpos p => match Z.to_pos (pow10 k) with q =>
      SF2B _ (proj1 (@Bdiv_correct_aux prec emax Hprec Hmax mode_NE false p 0 false q 0)) end
  | _ => B754_zero false
  end.
(* candidate value  d * 10^x  for x possibly negative *)
Definition cand (d : Z) (x : Z) : f64 :=
  if 0 <=? x then int_to_f64 (d * Z.pow 10 x) else dec2 d (Z.to_nat (- x)).

Definition feq (a b : f64) : bool :=
  match a, b with
  | B754_finite s1 m1 e1 _, B754_finite s2 m2 e2 _ => Bool.eqb s1 s2 && Pos.eqb m1 m2 && Z.eqb e1 e2
  | _, _ => false
  end.

(* exact rational of a positive finite: p/q *)
Definition ratio (m : positive) (e : Z) : Z * Z :=
  if 0 <=? e then (Zpos m * 2 ^ e, 1) else (Zpos m, 2 ^ (- e)).

(* floor(log10 (p/q)) *)
Fixpoint fix_up (fuel : nat) (p q g : Z) : Z :=
  match fuel with O => g | S f =>
    (* want 10^g <= p/q < 10^(g+1) *)
    let le_lo := if 0 <=? g then (q * 10 ^ g <=? p) else (q <=? p * 10 ^ (- g)) in
    let lt_hi := if 0 <=? g + 1 then (p <? q * 10 ^ (g + 1)) else (p * 10 ^ (- (g + 1)) <? q) in
    if negb le_lo then fix_up f p q (g - 1) else if negb lt_hi then fix_up f p q (g + 1) else g
  end.
Definition e10 (p q : Z) : Z := fix_up 8 p q ((Z.log2 p - Z.log2 q) * 30103 / 100000).

(* floor (p/q * 10^s) *)
Definition scaled_floor (p q s : Z) : Z * Z (* floor, remainder-num over den *) :=
  if 0 <=? s then ((p * 10 ^ s) / q, (p * 10 ^ s) mod q) else (p / (q * 10 ^ (- s)), p mod (q * 10 ^ (- s))).

Fixpoint shortest_from (fuel : nat) (n : Z) (f : f64) (p q E : Z) : option (Z * Z) (* digits d, exponent x: value d*10^x *) :=
  match fuel with O => None | S fuel' =>
    let s := n - 1 - E in
    let '(dfl, rem) := scaled_floor p q s in
    let den := if 0 <=? s then q else q * 10 ^ (- s) in
    let okf := feq (cand dfl (- s)) f in
    let okc := feq (cand (dfl + 1) (- s)) f in
    if okf && okc then (if 2 * rem <=? den then Some (dfl, - s) else Some (dfl + 1, - s))
    else if okf then Some (dfl, - s)
    else if okc then Some (dfl + 1, - s)
    else shortest_from fuel' (n + 1) f p q E
  end.

Fixpoint strip0 (fuel : nat) (d x : Z) : Z * Z :=
  match fuel with O => (d, x) | S f => if (d mod 10 =? 0) && negb (d =? 0) then strip0 f (d / 10) (x + 1) else (d, x) end.

Definition shortest (f : f64) : option (Z * Z) :=
  match f with
  | B754_finite _ m e _ =>
      let '(p, q) := ratio m e in
      match shortest_from 17 1 (Babs f) p q (e10 p q) with
      | Some (d, x) => Some (strip0 20 d x)
      | None => None
      end
  | _ => None
  end.

(* tests *)
Definition show (x : f64) := B2SF x.
Eval vm_compute in show (dec2 1 1).
Eval vm_compute in shortest (dec2 1 1).
Eval vm_compute in shortest (dec2 3 1).
Eval vm_compute in shortest (@Bplus prec emax Hprec Hmax mode_NE (dec2 1 1) (dec2 2 1)).
Eval vm_compute in shortest (int_to_f64 1000000).
Eval vm_compute in shortest (int_to_f64 (2^53+1)).
Eval vm_compute in shortest (int_to_f64 123456789012345678901234567890).
Eval vm_compute in shortest (cand 5 (-324)).
Eval vm_compute in shortest (cand 17976931348623157 292).

Eval vm_compute in show (cand 17976931348623159 292).

(* the correctness statement for literals comes straight from Flocq *)
Lemma dec2_correct (p : positive) (k : nat) :
  let x := (IZR (Zpos p) / IZR (pow10 k))%R in
  if Rlt_bool (Rabs (round radix2 (FLT_exp (3 - emax - prec) prec) ZnearestE x)) (bpow radix2 emax)
  then B2R (dec2 (Zpos p) k) = round radix2 (FLT_exp (3 - emax - prec) prec) ZnearestE x /\ is_finite (dec2 (Zpos p) k) = true
  else B2SF (dec2 (Zpos p) k) = SpecFloat.S754_infinity false.
Proof.
  intros x. unfold dec2.
  assert (Hq : 0 < pow10 k) by (unfold pow10; apply Z.pow_pos_nonneg; lia).
  destruct (pow10 k) as [|q|q] eqn:Eq; try lia. simpl Z.to_pos.
  pose proof (proj2 (@Bdiv_correct_aux prec emax Hprec Hmax mode_NE false p 0 false q 0)) as Hr.
  cbv zeta in Hr. simpl cond_Zopp in Hr.
  assert (Ep: F2R (Float radix2 (Z.pos p) 0) = IZR (Zpos p)) by (unfold F2R; simpl; ring).
  assert (Eq': F2R (Float radix2 (Z.pos q) 0) = IZR (Zpos q)) by (unfold F2R; simpl; ring).
  rewrite Ep, Eq' in Hr. clear Ep Eq'.
  subst x. change (round_mode mode_NE) with ZnearestE in Hr.
  change (SpecFloat.fexp prec emax) with (FLT_exp (3 - emax - prec) prec) in Hr.
  destruct Rlt_bool.
  - destruct Hr as (Hr1 & Hr2 & _). split.
    + rewrite B2R_SF2B. exact Hr1.
    + rewrite is_finite_SF2B. exact Hr2.
  - rewrite B2SF_SF2B. rewrite Hr. reflexivity.
Qed.
Print Assumptions dec2_correct.

Definition of_bits (z : Z) : option (bool * f64) :=
  let s := Z.testbit z 63 in
  let ex := (z / 2 ^ 52) mod 2 ^ 11 in
  let mant := z mod 2 ^ 52 in
  if ex =? 2047 then None
  else if ex =? 0 then Some (s, @binary_normalize prec emax Hprec Hmax mode_NE mant (-1074) false)
  else Some (s, @binary_normalize prec emax Hprec Hmax mode_NE (mant + 2 ^ 52) (ex - 1075) false).
Definition shortest_bits (z : Z) : option (bool * Z * Z) :=
  match of_bits z with
  | Some (s, f) => match shortest f with Some (d, x) => Some (s, d, x) | None => match f with B754_zero _ => Some (s, 0, 0) | _ => None end end
  | None => None
  end.
