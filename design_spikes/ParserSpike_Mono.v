From Coq Require Import List Arith Lia Bool.
Import ListNotations.
Require Import ParserSpike_Defs.
Arguments Ok {A}. Arguments Err {A}. Arguments Fuel {A}.

Section S.
Variable L : nat.
Variable oplevel : nat -> option nat.
Variable isun : nat -> bool.

Notation pexpr := (pexpr L oplevel isun).
Notation plevel := (plevel L oplevel isun).
Notation ploop := (ploop L oplevel isun).
Notation punary := (punary L oplevel isun).
Notation ppost := (ppost L oplevel isun).
Notation psuffix := (psuffix L oplevel isun).
Notation pargs := (pargs L oplevel isun).
Notation pprim := (pprim L oplevel isun).
Notation "x <- e ;; k" := (bind e (fun x => k)) (at level 60, e at next level, right associativity).

Lemma pexpr_S f ts : pexpr (S f) ts =
    (p <- plevel f 0 ts ;; let '(e, r) := p in
    match r with
    | TEq :: r' => q <- pexpr f r' ;; let '(v, r'') := q in
                   if is_target e then Ok (EAssign e v, r'') else Err
    | _ => Ok (e, r)
    end).
Proof. reflexivity. Qed.
Lemma plevel_S f k ts : plevel (S f) k ts =
    if Nat.ltb k L then
      p <- plevel f (S k) ts ;; let '(l, r) := p in ploop f k l r
    else punary f ts.
Proof. reflexivity. Qed.
Lemma ploop_S f k acc ts : ploop (S f) k acc ts =
    match ts with
    | t :: r => match inlevel oplevel k t with
                | Some o => p <- plevel f (S k) r ;; let '(rt, r') := p in ploop f k (EBin o acc rt) r'
                | None => Ok (acc, ts)
                end
    | [] => Ok (acc, ts)
    end.
Proof. reflexivity. Qed.
Lemma punary_S f ts : punary (S f) ts =
    match ts with
    | TOp o :: r => if isun o then p <- punary f r ;; let '(e, r') := p in Ok (EUn o e, r')
                    else ppost f ts
    | _ => ppost f ts
    end.
Proof. reflexivity. Qed.
Lemma ppost_S f ts : ppost (S f) ts = (p <- pprim f ts ;; let '(e, r) := p in psuffix f e r).
Proof. reflexivity. Qed.
Lemma psuffix_S f acc ts : psuffix (S f) acc ts =
    match ts with
    | TLP :: TRP :: r => psuffix f (ECall acc []) r
    | TLP :: r => p <- pargs f r ;; let '(args, r') := p in
                  match r' with TRP :: r'' => psuffix f (ECall acc args) r'' | _ => Err end
    | TLB :: r => p <- pexpr f r ;; let '(i, r') := p in
                  match r' with TRB :: r'' => psuffix f (EIdx acc i) r'' | _ => Err end
    | _ => Ok (acc, ts)
    end.
Proof. reflexivity. Qed.
Lemma pargs_S f ts : pargs (S f) ts =
    (p <- pexpr f ts ;; let '(e, r) := p in
    match r with
    | TComma :: r' => q <- pargs f r' ;; let '(es, r'') := q in Ok (e :: es, r'')
    | _ => Ok ([e], r)
    end).
Proof. reflexivity. Qed.
Lemma pprim_S f ts : pprim (S f) ts =
    match ts with
    | TNum n :: r => Ok (ENum n, r)
    | TId x :: r => Ok (EId x, r)
    | TLP :: r => p <- pexpr f r ;; let '(e, r') := p in
                  match r' with TRP :: r'' => Ok (EGroup e, r'') | _ => Err end
    | _ => Err
    end.
Proof. reflexivity. Qed.

Definition MonoAt (f:nat) : Prop :=
  (forall ts r, pexpr f ts = Ok r -> forall f', f <= f' -> pexpr f' ts = Ok r) /\
  (forall k ts r, plevel f k ts = Ok r -> forall f', f <= f' -> plevel f' k ts = Ok r) /\
  (forall k a ts r, ploop f k a ts = Ok r -> forall f', f <= f' -> ploop f' k a ts = Ok r) /\
  (forall ts r, punary f ts = Ok r -> forall f', f <= f' -> punary f' ts = Ok r) /\
  (forall ts r, ppost f ts = Ok r -> forall f', f <= f' -> ppost f' ts = Ok r) /\
  (forall a ts r, psuffix f a ts = Ok r -> forall f', f <= f' -> psuffix f' a ts = Ok r) /\
  (forall ts r, pargs f ts = Ok r -> forall f', f <= f' -> pargs f' ts = Ok r) /\
  (forall ts r, pprim f ts = Ok r -> forall f', f <= f' -> pprim f' ts = Ok r).

Lemma bind_inv {A B} (x:res A) (k:A -> res B) r : bind x k = Ok r -> exists a, x = Ok a /\ k a = Ok r.
Proof. destruct x; simpl; intros; try discriminate; eauto. Qed.
Lemma bind_ok_eq {A B} (x:res A) (k:A -> res B) a : x = Ok a -> bind x k = k a.
Proof. intros ->; reflexivity. Qed.
Ltac bind_ok H :=
  let a := fresh "a" in let E := fresh "E" in
  apply bind_inv in H; destruct H as (a & E & H); destruct a as [? ?]; cbv beta iota in H.
Ltac bind_rw I := erewrite bind_ok_eq by (eapply I; eauto); cbv beta iota.
Ltac drest := match goal with H : match ?l with [] => _ | _ :: _ => _ end = _ |- _ => destruct l as [|[] ?]; try discriminate H end.
Ltac step f' Hf f := destruct f' as [|f']; [lia|]; assert (f <= f') by lia.

Lemma mono : forall f, MonoAt f.
Proof.
  induction f as [|f IH]; unfold MonoAt.
  - repeat split; intros; simpl in *; discriminate.
  - destruct IH as (Ie & Il & Ilo & Iu & Ip & Is & Ia & Ipr).
    repeat split.
    + intros ts r H f' Hf. step f' Hf f. rewrite pexpr_S in *.
      bind_ok H. bind_rw Il.
      drest; auto.
      bind_ok H. bind_rw Ie. auto.
    + intros k ts r H f' Hf. step f' Hf f. rewrite plevel_S in *. destruct (k <? L).
      * bind_ok H. bind_rw Il. eauto.
      * eauto.
    + intros k a ts r H f' Hf. step f' Hf f. rewrite ploop_S in *.
      destruct ts as [|t ts]; auto. destruct (inlevel oplevel k t); auto.
      bind_ok H. bind_rw Il. eauto.
    + intros ts r H f' Hf. step f' Hf f. rewrite punary_S in *.
      destruct ts as [|[] ts]; eauto. destruct (isun o); eauto.
      bind_ok H. bind_rw Iu. auto.
    + intros ts r H f' Hf. step f' Hf f. rewrite ppost_S in *.
      bind_ok H. bind_rw Ipr. eauto.
    + intros a ts r H f' Hf. step f' Hf f. rewrite psuffix_S in *.
      destruct ts as [|[] ts]; eauto.
      * destruct ts as [|[] ts]; eauto;
        try (bind_ok H; bind_rw Ia; drest; eauto).
      * bind_ok H. bind_rw Ie. drest; eauto.
    + intros ts r H f' Hf. step f' Hf f. rewrite pargs_S in *.
      bind_ok H. bind_rw Ie. drest; eauto.
      bind_ok H. bind_rw Ia. auto.
    + intros ts r H f' Hf. step f' Hf f. rewrite pprim_S in *.
      destruct ts as [|[] ts]; eauto.
      bind_ok H. bind_rw Ie. drest; eauto.
Qed.
End S.
