(* SPIKE (throwaway): soundness of the ladder parser, and uniqueness of ladder-shaped trees *)
From Coq Require Import List Arith Lia Bool.
Import ListNotations.
Require Import ParserSpike_Defs ParserSpike_Mono ParserSpike_Complete.
Arguments Ok {A}. Arguments Err {A}. Arguments Fuel {A}.

Section S.
Variable L : nat.
Variable oplevel : nat -> option nat.
Variable isun : nat -> bool.
Hypothesis oplevel_lt : forall o k, oplevel o = Some k -> k < L.

Notation pexpr := (pexpr L oplevel isun).
Notation plevel := (plevel L oplevel isun).
Notation ploop := (ploop L oplevel isun).
Notation punary := (punary L oplevel isun).
Notation ppost := (ppost L oplevel isun).
Notation psuffix := (psuffix L oplevel isun).
Notation pargs := (pargs L oplevel isun).
Notation pprim := (pprim L oplevel isun).
Notation WFe := (WFe L oplevel isun).
Notation WFk := (WFk L oplevel isun).

Ltac inv H := inversion H; subst; clear H.
Lemma bind_inv {A B} (x:res A) (k:A -> res B) r : bind x k = Ok r -> exists a, x = Ok a /\ k a = Ok r.
Proof. destruct x; simpl; intros; try discriminate; eauto. Qed.
Tactic Notation "bd" hyp(H) "as" ident(a) ident(b) ident(E) :=
  apply bind_inv in H; destruct H as ([a b] & E & H); cbv beta iota in H.

(* WFk is downward closed in k *)
Lemma WFk_le k k' e : WFk k e -> k' <= k -> WFk k' e.
Proof. intros H Hle. inv H; econstructor; eauto; lia. Qed.

Lemma inlevel_inv k t o : inlevel oplevel k t = Some o -> t = TOp o /\ oplevel o = Some k.
Proof.
  destruct t; simpl; try discriminate. destruct (oplevel o0) eqn:E; try discriminate.
  destruct (Nat.eqb_spec k n); intros H; inv H. auto.
Qed.

Definition SoundAt (f:nat) : Prop :=
  (forall ts e r, pexpr f ts = Ok (e, r) -> WFe e /\ ts = flat e ++ r) /\
  (forall k ts e r, plevel f k ts = Ok (e, r) -> k <= L -> WFk k e /\ ts = flat e ++ r) /\
  (forall k a ts e r, ploop f k a ts = Ok (e, r) -> k < L -> WFk k a -> WFk k e /\ flat a ++ ts = flat e ++ r) /\
  (forall ts e r, punary f ts = Ok (e, r) -> WFk L e /\ ts = flat e ++ r) /\
  (forall ts e r, ppost f ts = Ok (e, r) -> WFk (S L) e /\ ts = flat e ++ r) /\
  (forall a ts e r, psuffix f a ts = Ok (e, r) -> WFk (S L) a -> WFk (S L) e /\ flat a ++ ts = flat e ++ r) /\
  (forall ts es r, pargs f ts = Ok (es, r) -> Forall WFe es /\ es <> [] /\ ts = flatargs es ++ r) /\
  (forall ts e r, pprim f ts = Ok (e, r) -> WFk (S L) e /\ ts = flat e ++ r).

Lemma flatargs_cons e es : es <> [] -> flatargs (e :: es) = flat e ++ TComma :: flatargs es.
Proof. destruct es; [congruence|reflexivity]. Qed.

Lemma sound : forall f, SoundAt f.
Proof.
  induction f as [|f (Ie & Il & Ilo & Iu & Ip & Is & Ia & Ipr)]; unfold SoundAt.
  { split; [|split; [|split; [|split; [|split; [|split; [|split]]]]]]; intros; simpl in *; discriminate. }
  split; [|split; [|split; [|split; [|split; [|split; [|split]]]]]].
  - (* pexpr *) intros ts e r H. rewrite pexpr_S in H. bd H as l r0 E.
    destruct (Il _ _ _ _ E ltac:(lia)) as (W & ->).
    destruct r0 as [|t r0']; [inv H; split; [constructor 2; auto|reflexivity]|].
    destruct t; try (inv H; split; [constructor 2; auto|reflexivity]).
    bd H as v r1 E1. destruct (Ie _ _ _ E1) as (Wv & ->).
    destruct (is_target l) eqn:T; inv H. split; [constructor 1; auto|].
    simpl. rewrite <- app_assoc. reflexivity.
  - (* plevel *) intros k ts e r H Hk. rewrite plevel_S in H. destruct (k <? L) eqn:Ek.
    + apply Nat.ltb_lt in Ek. bd H as l r0 E. destruct (Il _ _ _ _ E ltac:(lia)) as (W & ->).
      destruct (Ilo _ _ _ _ _ H Ek ltac:(eapply WFk_le; eauto)) as (W2 & EQ). split; auto.
    + apply Nat.ltb_ge in Ek. destruct (Iu _ _ _ H) as (W & ->). split; auto.
      eapply WFk_le; eauto.
  - (* ploop *) intros k a ts e r H Hk Wa. rewrite ploop_S in H.
    destruct ts as [|t ts']; [inv H; auto|].
    destruct (inlevel oplevel k t) as [o|] eqn:EI; [|inv H; auto].
    destruct (inlevel_inv _ _ _ EI) as (-> & Ho).
    bd H as rt r1 E. destruct (Il _ _ _ _ E ltac:(lia)) as (Wr & ->).
    destruct (Ilo _ _ _ _ _ H Hk ltac:(econstructor; eauto)) as (W2 & EQ). split; auto.
    rewrite <- EQ. simpl. rewrite <- app_assoc. reflexivity.
  - (* punary *) intros ts e r H. rewrite punary_S in H.
    assert (Post: forall ts, ppost f ts = Ok (e, r) -> WFk L e /\ ts = flat e ++ r).
    { intros ts0 H0. destruct (Ip _ _ _ H0) as (W & ->). split; auto. eapply WFk_le; eauto. }
    destruct ts as [|t ts']; [auto|]. destruct t; auto.
    destruct (isun o) eqn:U; auto.
    bd H as e1 r1 E. inv H. destruct (Iu _ _ _ E) as (W & ->). split; [constructor; auto|reflexivity].
  - (* ppost *) intros ts e r H. rewrite ppost_S in H. bd H as e0 r0 E.
    destruct (Ipr _ _ _ E) as (W & ->). destruct (Is _ _ _ _ H W) as (W2 & EQ). auto.
  - (* psuffix *) intros a ts e r H Wa. rewrite psuffix_S in H.
    destruct ts as [|t ts']; [inv H; auto|].
    destruct t; try (inv H; auto; fail).
    + (* TLP *)
      assert (Args: forall ts1, bind (pargs f ts1) (fun p => let '(args, r') := p in
                 match r' with TRP :: r'' => psuffix f (ECall a args) r'' | _ => Err end) = Ok (e, r) ->
                 WFk (S L) e /\ flat a ++ TLP :: ts1 = flat e ++ r).
      { intros ts1 H1. bd H1 as args r1 E. destruct (Ia _ _ _ E) as (Wa' & Ne & ->).
        destruct r1 as [|t1 r1']; [discriminate|]. destruct t1; try discriminate.
        destruct (Is _ _ _ _ H1 ltac:(constructor; auto)) as (W2 & EQ). split; auto.
        rewrite <- EQ. rewrite flat_call. rewrite <- !app_assoc. simpl. rewrite <- app_assoc. reflexivity. }
      destruct ts' as [|t2 ts'']; [apply Args; exact H|].
      destruct t2; try (apply Args; exact H).
      (* TLP :: TRP *)
      destruct (Is _ _ _ _ H ltac:(constructor; auto)) as (W2 & EQ). split; auto.
      rewrite <- EQ. rewrite flat_call. simpl. rewrite <- app_assoc. reflexivity.
    + (* TLB *) bd H as i r1 E. destruct (Ie _ _ _ E) as (Wi & ->).
      destruct r1 as [|t1 r1']; [discriminate|]. destruct t1; try discriminate.
      destruct (Is _ _ _ _ H ltac:(constructor; auto)) as (W2 & EQ). split; auto.
      rewrite <- EQ. simpl. rewrite <- !app_assoc. simpl. rewrite <- app_assoc. reflexivity.
  - (* pargs *) intros ts es r H. rewrite pargs_S in H. bd H as e r0 E.
    destruct (Ie _ _ _ E) as (We & ->).
    assert (One: Ok ([e], r0) = Ok (es, r) -> Forall WFe es /\ es <> [] /\ flat e ++ r0 = flatargs es ++ r).
    { intros H1; inv H1. split; [constructor; auto|split; [congruence|reflexivity]]. }
    destruct r0 as [|t r0']; [auto|]. destruct t; auto.
    bd H as es1 r1 E1. inv H. destruct (Ia _ _ _ E1) as (W1 & Ne & ->).
    split; [constructor; auto|split; [congruence|]].
    rewrite flatargs_cons by auto. rewrite <- app_assoc. reflexivity.
  - (* pprim *) intros ts e r H. rewrite pprim_S in H.
    destruct ts as [|t ts']; [discriminate|]. destruct t; try discriminate.
    + inv H. split; [constructor|reflexivity].
    + inv H. split; [constructor|reflexivity].
    + bd H as e0 r0 E. destruct (Ie _ _ _ E) as (W & ->).
      destruct r0 as [|t r0']; [discriminate|]. destruct t; try discriminate. inv H.
      split; [constructor; auto|]. simpl. rewrite <- app_assoc. reflexivity.
Qed.

Theorem parse_sound f ts e : pexpr f ts = Ok (e, []) -> WFe e /\ ts = flat e.
Proof. intros H. destruct (sound f) as (S & _). destruct (S _ _ _ H) as (W & ->). rewrite app_nil_r. auto. Qed.

(* the ladder-shaped tree of a token list is unique *)
Theorem tree_unique e1 e2 : WFe e1 -> WFe e2 -> flat e1 = flat e2 -> e1 = e2.
Proof.
  intros W1 W2 E.
  destruct (parse_complete L oplevel isun oplevel_lt e1 W1) as [f1 H1].
  destruct (parse_complete L oplevel isun oplevel_lt e2 W2) as [f2 H2].
  rewrite E in H1.
  pose proof (mono L oplevel isun f1) as (M1 & _). pose proof (mono L oplevel isun f2) as (M2 & _).
  specialize (M1 _ _ H1 (f1 + f2) ltac:(lia)). specialize (M2 _ _ H2 (f1 + f2) ltac:(lia)).
  congruence.
Qed.
End S.
Print Assumptions tree_unique.
