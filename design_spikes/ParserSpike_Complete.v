From Coq Require Import List Arith Lia Bool Wellfounded Wf_nat.
Import ListNotations.
Require Import ParserSpike_Defs ParserSpike_Mono.
Arguments Ok {A}. Arguments Err {A}. Arguments Fuel {A}.

Section S.
Variable L : nat.
Variable oplevel : nat -> option nat.
Variable isun : nat -> bool.
Hypothesis oplevel_lt : forall o k, oplevel o = Some k -> k < L.

Notation pexpr := (pexpr L oplevel isun).
Notation plevel := (plevel L oplevel isun).
Notation ploop := (ploop L oplevel isun).
Notation punary := (punary L oplevel isun).
Notation ppost := (ppost L oplevel isun).
Notation psuffix := (psuffix L oplevel isun).
Notation pargs := (pargs L oplevel isun).
Notation pprim := (pprim L oplevel isun).
Notation WFe := (WFe L oplevel isun).
Notation WFk := (WFk L oplevel isun).
Notation "x <- e ;; k" := (bind e (fun x => k)) (at level 60, e at next level, right associativity).

Ltac inv H := inversion H; subst; clear H.

Fixpoint size (e:expr) : nat :=
  match e with
  | ENum _ | EId _ => 1
  | EGroup e => S (size e) | EUn _ e => S (size e)
  | EBin _ l r => S (size l + size r)
  | ECall f args => S (size f + (fix sz (es:list expr) := match es with [] => 0 | e :: es => size e + sz es end) args)
  | EIdx a i => S (size a + size i)
  | EAssign t v => S (size t + size v)
  end.
Fixpoint sizes (es:list expr) := match es with [] => 0 | e :: es => size e + sizes es end.
Lemma size_call f args : size (ECall f args) = S (size f + sizes args).
Proof. reflexivity. Qed.
Lemma size_pos e : 0 < size e. Proof. destruct e; simpl; lia. Qed.

(* a token that cannot continue an expression of level >= k *)
Definition nofollow (k:nat) (t:tok) : Prop :=
  (forall j, k <= j -> inlevel oplevel j t = None) /\ t <> TLP /\ t <> TLB.
Definition hdok (k:nat) (r:list tok) : Prop := match r with [] => True | t :: _ => nofollow k t end.
Definition hdoke (r:list tok) : Prop := hdok 0 r /\ match r with TEq :: _ => False | _ => True end.

Lemma hdok_mono k k' r : k <= k' -> hdok k r -> hdok k' r.
Proof. destruct r; simpl; auto. intros ? (H & ? & ?). repeat split; auto. intros; apply H; lia. Qed.

Lemma inlevel_some k o : oplevel o = Some k -> inlevel oplevel k (TOp o) = Some o.
Proof. intros H; simpl; rewrite H, Nat.eqb_refl; reflexivity. Qed.
Lemma inlevel_other k j o : oplevel o = Some k -> j <> k -> inlevel oplevel j (TOp o) = None.
Proof. intros H ?; simpl; rewrite H. destruct (Nat.eqb_spec j k); congruence. Qed.
Lemma inlevel_ge j t : L <= j -> inlevel oplevel j t = None.
Proof. intros. destruct t; simpl; auto. destruct (oplevel o) eqn:E; auto. apply oplevel_lt in E.
  destruct (Nat.eqb_spec j n); auto; lia. Qed.


Lemma hdoke_sep t rest : (t = TRP \/ t = TComma \/ t = TRB) -> hdoke (t :: rest).
Proof. unfold hdoke, hdok, nofollow. intros [->|[->| ->]]; simpl; (repeat split; try congruence; auto). Qed.
Lemma hdok_eq k rest : hdok k (TEq :: rest).
Proof. simpl. repeat split; try congruence. Qed.

(* fuel juggling *)
Lemma m_pexpr f f' ts r : pexpr f ts = Ok r -> f <= f' -> pexpr f' ts = Ok r.
Proof. intros; eapply (mono L oplevel isun f); eauto. Qed.
Lemma m_plevel f f' k ts r : plevel f k ts = Ok r -> f <= f' -> plevel f' k ts = Ok r.
Proof. intros; eapply (mono L oplevel isun f); eauto. Qed.
Lemma m_ploop f f' k a ts r : ploop f k a ts = Ok r -> f <= f' -> ploop f' k a ts = Ok r.
Proof. intros; eapply (mono L oplevel isun f); eauto. Qed.
Lemma m_punary f f' ts r : punary f ts = Ok r -> f <= f' -> punary f' ts = Ok r.
Proof. intros; eapply (mono L oplevel isun f); eauto. Qed.
Lemma m_ppost f f' ts r : ppost f ts = Ok r -> f <= f' -> ppost f' ts = Ok r.
Proof. intros; eapply (mono L oplevel isun f); eauto. Qed.
Lemma m_psuffix f f' a ts r : psuffix f a ts = Ok r -> f <= f' -> psuffix f' a ts = Ok r.
Proof. intros; eapply (mono L oplevel isun f); eauto. Qed.
Lemma m_pargs f f' ts r : pargs f ts = Ok r -> f <= f' -> pargs f' ts = Ok r.
Proof. intros; eapply (mono L oplevel isun f); eauto. Qed.
Lemma m_pprim f f' ts r : pprim f ts = Ok r -> f <= f' -> pprim f' ts = Ok r.
Proof. intros; eapply (mono L oplevel isun f); eauto. Qed.

(* first token of a well-formed expression *)
Definition starter (t:tok) : Prop :=
  match t with TNum _ | TId _ | TLP => True | TOp o => isun o = true | _ => False end.
Lemma flat_start : forall n e, size e <= n -> (forall k, WFk k e -> exists t r, flat e = t :: r /\ starter t)
                                         /\ (WFe e -> exists t r, flat e = t :: r /\ starter t).
Proof.
  induction n as [|n IH]; intros e Hs. { pose proof (size_pos e); lia. }
  assert (A: forall k, WFk k e -> exists t r, flat e = t :: r /\ starter t).
  { intros k H. inv H; simpl; try (do 2 eexists; split; [reflexivity|simpl; auto]; fail).
    - simpl in Hs. destruct (IH l ltac:(lia)) as [I _]. destruct (I _ H2) as (t & r0 & E & S). rewrite E. simpl. eauto.
    - rewrite size_call in Hs. destruct (IH f ltac:(lia)) as [I _]. destruct (I _ H0) as (t & r0 & E & S).
      change (exists t r, flat (ECall f args) = t :: r /\ starter t). rewrite flat_call, E. simpl. eauto.
    - simpl in Hs. destruct (IH a ltac:(lia)) as [I _]. destruct (I _ H0) as (t & r0 & E & S). rewrite E. simpl. eauto. }
  split; auto.
  intros H. inv H; eauto.
  simpl in Hs. destruct (IH t ltac:(lia)) as [I _]. destruct (I _ H1) as (t0 & r0 & E & S). simpl. rewrite E. simpl. eauto.
Qed.

(* a level-k expression that is not a level-k binary node is a level-(k+1) expression *)
Lemma WFk_up k e : WFk k e -> k < L ->
  (exists o l r, e = EBin o l r /\ oplevel o = Some k /\ WFk k l /\ WFk (S k) r) \/ WFk (S k) e.
Proof.
  intros H Hk. inv H; try (right; constructor; auto; lia).
  - destruct (Nat.eq_dec k kk).
    + subst. left. eauto 10.
    + right. econstructor; eauto. lia.
Qed.


Definition pstarter (t:tok) : Prop := match t with TNum _ | TId _ | TLP => True | _ => False end.
Lemma flat_start_post : forall n e, size e <= n -> WFk (S L) e -> exists t r, flat e = t :: r /\ pstarter t.
Proof.
  induction n as [|n IH]; intros e Hs W. { pose proof (size_pos e); lia. }
  inv W; try (simpl; do 2 eexists; split; [reflexivity|exact I]).
  - exfalso; lia.
  - exfalso. match goal with HO : oplevel _ = Some _ |- _ => apply oplevel_lt in HO end. lia.
  - rewrite size_call in Hs. destruct (IH f ltac:(lia) ltac:(eassumption)) as (t & r & E & S).
    rewrite flat_call, E. simpl. eauto.
  - simpl in Hs. destruct (IH a ltac:(lia) ltac:(eassumption)) as (t & r & E & S). simpl. rewrite E. simpl. eauto.
Qed.

Lemma A_post e rest :
  WFk (S L) e ->
  (forall rest f res, WFk (S L) e -> psuffix f e rest = Ok res -> exists f', ppost f' (flat e ++ rest) = Ok res) ->
  hdok L rest -> exists f, plevel f L (flat e ++ rest) = Ok (e, rest).
Proof.
  intros W' P Hh.
  destruct (P rest 1 (e, rest) W') as [f' Hf'].
  { rewrite psuffix_S. destruct rest as [|[] ?]; try reflexivity;
    simpl in Hh; destruct Hh as (_ & ? & ?); congruence. }
  exists (S (S f')). rewrite plevel_S, Nat.ltb_irrefl, punary_S.
  destruct (flat_start_post _ e (le_n _) W') as (t & r & Et & St).
  rewrite Et in *. cbn [app].
  destruct t; simpl in St; try contradiction; exact Hf'.
Qed.

Definition Stmt (e:expr) : Prop :=
  (forall k rest, k <= L -> WFk k e -> hdok k rest -> exists f, plevel f k (flat e ++ rest) = Ok (e, rest)) /\
  (forall rest f res, WFk (S L) e -> psuffix f e rest = Ok res -> exists f', ppost f' (flat e ++ rest) = Ok res) /\
  (forall rest, WFe e -> hdoke rest -> exists f, pexpr f (flat e ++ rest) = Ok (e, rest)).

Lemma args_complete n : (forall e, size e <= n -> Stmt e) ->
  forall args rest, sizes args <= n -> Forall WFe args -> args <> [] ->
  exists f, pargs f (flatargs args ++ TRP :: rest) = Ok (args, TRP :: rest).
Proof.
  intros IH. induction args as [|a args IHa]; intros rest Hs HF Hne; [congruence|].
  inv HF. simpl in Hs. destruct args as [|b args].
  - simpl. destruct (IH a ltac:(lia)) as (_ & _ & E). destruct (E (TRP :: rest) H1 (hdoke_sep _ _ (or_introl eq_refl))) as [f Hf].
    exists (S f). rewrite pargs_S. rewrite Hf. reflexivity.
  - change (flatargs (a :: b :: args)) with (flat a ++ TComma :: flatargs (b :: args)).
    rewrite <- app_assoc. simpl.
    destruct (IH a ltac:(lia)) as (_ & _ & E). destruct (E (TComma :: flatargs (b :: args) ++ TRP :: rest) H1 (hdoke_sep _ _ (or_intror (or_introl eq_refl)))) as [f Hf].
    destruct (IHa rest ltac:(simpl in *; lia) H2 ltac:(congruence)) as [f2 Hf2].
    exists (S (f + f2)). rewrite pargs_S.
    erewrite m_pexpr by (eauto; lia). simpl.
    erewrite m_pargs by (eauto; lia). reflexivity.
Qed.

Lemma complete_n : forall n e, size e <= n -> Stmt e.
Proof.
  induction n as [|n IH]; intros e Hs. { pose proof (size_pos e); lia. }
  (* P : postfix chain *)
  assert (P: forall rest f res, WFk (S L) e -> psuffix f e rest = Ok res -> exists f', ppost f' (flat e ++ rest) = Ok res).
  { intros rest f res W Hsuf. inv W.
    - exists (S (S f)). rewrite ppost_S. simpl. eapply m_psuffix; eauto.
    - exists (S (S f)). rewrite ppost_S. simpl. eapply m_psuffix; eauto.
    - (* group *) simpl in Hs. destruct (IH e0 ltac:(lia)) as (_ & _ & E).
      destruct (E (TRP :: rest) ltac:(eassumption) (hdoke_sep _ _ (or_introl eq_refl))) as [f1 Hf1].
      exists (S (S (f + f1))). rewrite ppost_S. simpl. rewrite pprim_S. rewrite <- app_assoc. simpl.
      erewrite m_pexpr by (eauto; lia). simpl. eapply m_psuffix; eauto; lia.
    - exfalso; lia.
    - exfalso. match goal with HO : oplevel _ = Some _ |- _ => apply oplevel_lt in HO end. lia.
    - (* call *) rewrite size_call in Hs. destruct (IH f0 ltac:(lia)) as (_ & Pf & _).
      rewrite flat_call, <- app_assoc. cbn [app]. rewrite <- app_assoc. cbn [app].
      destruct args as [|a args].
      + simpl. eapply (Pf _ (S f)); eauto.
      + destruct (args_complete n IH (a :: args) rest ltac:(lia) ltac:(eassumption) ltac:(congruence)) as [f2 Hf2].
        assert (exists t r, flatargs (a :: args) = t :: r /\ starter t) as (t & r & Et & St).
        { match goal with HF : Forall _ (a :: args) |- _ => inv HF end. destruct (flat_start (size a) a (le_n _)) as [_ F]. destruct (F ltac:(eassumption)) as (t & r & E & S).
          destruct args; simpl; rewrite E; simpl; eauto. }
        eapply (Pf _ (S (f + f2))); eauto. rewrite psuffix_S.
        rewrite Et in *. cbn [app].
        destruct t; simpl in St; try contradiction;
        (erewrite m_pargs by (eauto; lia); cbv beta iota; unfold bind; eapply m_psuffix; eauto; lia).
    - (* index *) simpl in Hs. destruct (IH a ltac:(lia)) as (_ & Pa & _).
      destruct (IH i ltac:(lia)) as (_ & _ & Ei).
      destruct (Ei (TRB :: rest) ltac:(eassumption) (hdoke_sep _ _ (or_intror (or_intror eq_refl)))) as [f1 Hf1].
      simpl. rewrite <- app_assoc. simpl. rewrite <- app_assoc. simpl.
      eapply (Pa _ (S (f + f1))); eauto. rewrite psuffix_S.
      erewrite m_pexpr by (eauto; lia). simpl. eapply m_psuffix; eauto; lia. }
  (* A : levels, by downward induction on k *)
  assert (A: forall d k rest, L - k = d -> k <= L -> WFk k e -> hdok k rest ->
             exists f, plevel f k (flat e ++ rest) = Ok (e, rest)).
  { induction d as [|d IHd]; intros k rest Hd Hk W Hh.
    - (* k = L : unary level *)
      assert (k = L) by lia. subst k.
      destruct (Nat.eq_dec 0 0) as [_|]; [|congruence].
      assert (Hcase: WFk (S L) e \/ exists o e0, e = EUn o e0 /\ isun o = true /\ WFk L e0).
      { inv W; try (left; constructor; auto; fail).
        - right; eauto.
        - exfalso. match goal with HO : oplevel _ = Some _ |- _ => apply oplevel_lt in HO end. lia. }
      destruct Hcase as [W'|(o & e0 & -> & Hun & We0)]; [apply A_post; auto|].
      (* unary *) simpl in Hs. destruct (IH e0 ltac:(lia)) as (Ae & _ & _).
        destruct (Ae L rest (le_n _) We0 Hh) as [f Hf].
        destruct f as [|f]; [discriminate|]. rewrite plevel_S, Nat.ltb_irrefl in Hf.
        exists (S (S f)). rewrite plevel_S, Nat.ltb_irrefl, punary_S. simpl. rewrite Hun.
        erewrite m_punary by (eauto; lia). reflexivity.
    - (* k < L *)
      assert (Hk' : k < L) by lia.
      (* loop lemma *)
      assert (LP: forall e', size e' <= size e -> (size e' < size e \/ e' = e) -> WFk k e' -> forall rest' f res, hdok (S k) rest' ->
                 ploop f k e' rest' = Ok res -> exists f', plevel f' k (flat e' ++ rest') = Ok res).
      { induction e' as [e' IHe'] using (well_founded_induction (wf_inverse_image _ _ _ size lt_wf)).
        intros Hle Hor W' rest' f res Hh' Hl.
        destruct (WFk_up _ _ W' Hk') as [(o & l & r & -> & Ho & Wl & Wr)|Wup].
        + simpl. rewrite <- app_assoc. simpl.
          (* right operand at level S k *)
          assert (Ar: exists fr, plevel fr (S k) (flat r ++ rest') = Ok (r, rest')).
          { simpl in Hle. destruct (IH r ltac:(lia)) as (Ar & _ & _). apply Ar; auto. }
          destruct Ar as [fr Hfr].
          assert (Sl: size l < size (EBin o l r)) by (simpl; lia).
          assert (Hh2: hdok (S k) (TOp o :: flat r ++ rest')).
          { simpl. repeat split; try congruence. intros j Hj. apply inlevel_other with (k:=k); auto; lia. }
          assert (Hl2: ploop (S (f + fr)) k l (TOp o :: flat r ++ rest') = Ok res).
          { rewrite ploop_S. rewrite inlevel_some by auto.
            erewrite m_plevel by (eauto; lia). simpl. eapply m_ploop; eauto; lia. }
          apply (IHe' l Sl ltac:(lia) ltac:(left; destruct Hor as [?| <-]; lia) Wl _ _ _ Hh2 Hl2).
        + (* e' is a level S k expression *)
          assert (Au: exists fu, plevel fu (S k) (flat e' ++ rest') = Ok (e', rest')).
          { destruct Hor as [Hlt| ->].
            - destruct (IH e' ltac:(lia)) as (Ae & _ & _). apply Ae; auto.
            - apply IHd; auto; lia. }
          destruct Au as [fu Hfu].
          exists (S (f + fu)). rewrite plevel_S. apply Nat.ltb_lt in Hk'. rewrite Hk'.
          erewrite m_plevel by (eauto; lia). simpl. eapply m_ploop; eauto; lia. }
      apply (LP e (le_n _) (or_intror eq_refl) W rest 1 (e, rest)).
      * eapply hdok_mono; [|eauto]. lia.
      * rewrite ploop_S. destruct rest as [|t rest]; auto.
        simpl in Hh. destruct Hh as (Hh & _). rewrite Hh by lia. reflexivity. }
  split; [|split]; auto.
  - intros k rest Hk W Hh. eapply A; eauto.
  - (* E : expression with assignment *)
    intros rest W (Hh & Hne). inv W.
    + simpl in Hs. destruct (IH t ltac:(lia)) as (At & _ & _). destruct (IH v ltac:(lia)) as (_ & _ & Ev).
      destruct (At 0 (TEq :: flat v ++ rest) ltac:(lia) ltac:(eassumption) (hdok_eq _ _)) as [f1 Hf1].
      destruct (Ev rest ltac:(eassumption) (conj Hh Hne)) as [f2 Hf2].
      exists (S (f1 + f2)). rewrite pexpr_S. simpl. rewrite <- app_assoc. simpl.
      erewrite m_plevel by (eauto; lia). simpl. erewrite m_pexpr by (eauto; lia). simpl. match goal with HT : is_target _ = true |- _ => rewrite HT end. reflexivity.
    + destruct (A (L - 0) 0 rest eq_refl ltac:(lia) ltac:(eassumption) Hh) as [f Hf].
      exists (S f). rewrite pexpr_S. rewrite Hf. simpl.
      destruct rest as [|[] ?]; auto. contradiction.
Qed.

Theorem parse_complete e : WFe e -> exists f, pexpr f (flat e) = Ok (e, []).
Proof.
  intros W. destruct (complete_n (size e) e (le_n _)) as (_ & _ & E).
  destruct (E [] W (conj I I)) as [f Hf].
  rewrite app_nil_r in Hf. eauto.
Qed.
End S.
Check parse_complete.
Print Assumptions parse_complete.
