(* SPIKE (throwaway): lexer producing items; partition and line theorems *)
From Coq Require Import List Arith NArith Lia Bool.
Import ListNotations.
Open Scope N_scope.

Notation ch := N (only parsing).
Definition NL : ch := 10. Definition SP : ch := 32. Definition QUOTE : ch := 34.
Definition DOT : ch := 46. Definition SLASH : ch := 47. Definition LT : ch := 60. Definition EQ : ch := 61.
Definition is_digit (c:ch) : bool := (48 <=? c) && (c <=? 57) || (2534 <=? c) && (c <=? 2543).
Definition is_alpha (c:ch) : bool := (97 <=? c) && (c <=? 122) || (c =? 95) || (2437 <=? c) && (c <=? 2489).
Definition is_alnum c := is_alpha c || is_digit c.

Inductive kind := KIdent | KNumber | KString | KLt | KLe | KShl | KSlash
               | KBlank | KNewline | KComment | KBadChar | KUnterminated.
Record item := { ikind : kind; itext : list ch; iline : nat }.
Definition is_token (k:kind) : bool :=
  match k with KIdent | KNumber | KString | KLt | KLe | KShl | KSlash => true | _ => false end.

Fixpoint span (p:ch -> bool) (l:list ch) : list ch * list ch :=
  match l with
  | c :: r => if p c then let '(a, b) := span p r in (c :: a, b) else ([], l)
  | [] => ([], [])
  end.
Lemma span_app (p:ch -> bool) l : fst (span p l) ++ snd (span p l) = l.
Proof. induction l as [|c r IH]; simpl; auto. destruct (p c); simpl; auto. destruct (span p r); simpl in *. congruence. Qed.

Definition count_nl (l:list ch) : nat := length (filter (fun c => c =? NL) l).
Lemma count_nl_app a b : count_nl (a ++ b) = (count_nl a + count_nl b)%nat.
Proof. unfold count_nl. rewrite filter_app, app_length. reflexivity. Qed.

(* one token / skipped piece.  [line] is the scanner's counter BEFORE the piece; returns the piece, the rest, the counter after *)
Definition scan1 (l:list ch) (line:nat) : option (item * list ch * nat) :=
  match l with
  | [] => None
  | c :: r =>
    if c =? NL then Some ({| ikind := KNewline; itext := [c]; iline := S line |}, r, S line)
    else if c =? SP then Some ({| ikind := KBlank; itext := [c]; iline := line |}, r, line)
    else if c =? LT then
      match r with
      | d :: r' => if d =? EQ then Some ({| ikind := KLe; itext := [c; d]; iline := line |}, r', line)
                   else if d =? LT then Some ({| ikind := KShl; itext := [c; d]; iline := line |}, r', line)
                   else Some ({| ikind := KLt; itext := [c]; iline := line |}, r, line)
      | [] => Some ({| ikind := KLt; itext := [c]; iline := line |}, r, line)
      end
    else if c =? SLASH then
      match r with
      | d :: r' => if d =? SLASH then
                     let '(body, rest) := span (fun x => negb (x =? NL)) r' in
                     Some ({| ikind := KComment; itext := c :: d :: body; iline := line |}, rest, line)
                   else Some ({| ikind := KSlash; itext := [c]; iline := line |}, r, line)
      | [] => Some ({| ikind := KSlash; itext := [c]; iline := line |}, r, line)
      end
    else if c =? QUOTE then
      let '(body, rest) := span (fun x => negb (x =? QUOTE)) r in
      let line' := (line + count_nl body)%nat in
      match rest with
      | q :: rest' => Some ({| ikind := KString; itext := c :: body ++ [q]; iline := line' |}, rest', line')
      | [] => Some ({| ikind := KUnterminated; itext := c :: body; iline := line' |}, [], line')
      end
    else if is_digit c then
      let '(ds, rest) := span is_digit r in
      match rest with
      | p :: e :: rest' =>
          if (p =? DOT) && is_digit e then
            let '(fs, rest'') := span is_digit (e :: rest') in
            Some ({| ikind := KNumber; itext := c :: ds ++ p :: fs; iline := line |}, rest'', line)
          else Some ({| ikind := KNumber; itext := c :: ds; iline := line |}, rest, line)
      | _ => Some ({| ikind := KNumber; itext := c :: ds; iline := line |}, rest, line)
      end
    else if is_alpha c then
      let '(cs, rest) := span is_alnum r in
      Some ({| ikind := KIdent; itext := c :: cs; iline := line |}, rest, line)
    else Some ({| ikind := KBadChar; itext := [c]; iline := line |}, r, line)
  end.

Fixpoint scan (fuel:nat) (l:list ch) (line:nat) : list item :=
  match fuel with O => [] | S f =>
    match scan1 l line with
    | None => []
    | Some (it, rest, line') => it :: scan f rest line'
    end end.
Definition lex (src:list ch) : list item := scan (length src) src 1.

(* ---- per-step facts ---- *)
Lemma span_no_nl (p:ch -> bool) : (forall x, p x = true -> x =? NL = false) -> forall l, count_nl (fst (span p l)) = 0%nat.
Proof.
  intros Hp. induction l as [|x l IH]; simpl; auto. destruct (p x) eqn:PX; simpl; auto.
  destruct (span p l) as [a b]; simpl in *. unfold count_nl in *; simpl. rewrite (Hp _ PX). exact IH.
Qed.
Lemma span_snd_head (p:ch -> bool) : forall l a q b, span p l = (a, q :: b) -> p q = false.
Proof.
  induction l as [|x l IH]; simpl; intros a q b H; [inversion H|].
  destruct (p x) eqn:PX.
  - destruct (span p l) as [a' b'] eqn:ES. inversion H; subst. eapply IH; eauto.
  - inversion H; subst. exact PX.
Qed.
Lemma cnl_cons c l : c =? NL = false -> count_nl (c :: l) = count_nl l.
Proof. intros H. unfold count_nl; simpl. rewrite H. reflexivity. Qed.
Lemma cnl_nil : count_nl [] = 0%nat. Proof. reflexivity. Qed.
Lemma dig_nl x : is_digit x = true -> x =? NL = false.
Proof. intros Hx. destruct (N.eqb_spec x NL); auto. subst. vm_compute in Hx. discriminate. Qed.
Lemma aln_nl x : is_alnum x = true -> x =? NL = false.
Proof. intros Hx. destruct (N.eqb_spec x NL); auto. subst. vm_compute in Hx. discriminate. Qed.
Lemma nq_nl (x:ch) : negb (x =? NL) = true -> x =? NL = false.
Proof. intros Hx. apply negb_true_iff in Hx. exact Hx. Qed.

Definition step_ok (l:list ch) (line:nat) (it:item) (rest:list ch) (line':nat) : Prop :=
  itext it ++ rest = l /\ itext it <> [] /\ line' = (line + count_nl (itext it))%nat /\ iline it = line'.

Lemma scan1_spec l line it rest line' : scan1 l line = Some (it, rest, line') -> step_ok l line it rest line'.
Proof.
  unfold scan1, step_ok. destruct l as [|c r]; [discriminate|].
  destruct (c =? NL) eqn:E1.
  { intros H; inversion H; subst it rest line'; clear H. simpl. unfold count_nl; simpl. rewrite E1. simpl. repeat split; try congruence; lia. }
  destruct (c =? SP) eqn:E2.
  { intros H; inversion H; subst it rest line'; clear H. simpl. rewrite (cnl_cons _ _ E1), cnl_nil. repeat split; try congruence; lia. }
  destruct (c =? LT) eqn:E3.
  { destruct r as [|d r'].
    - intros H; inversion H; subst it rest line'; clear H. simpl. rewrite (cnl_cons _ _ E1), cnl_nil. repeat split; try congruence; lia.
    - destruct (d =? EQ) eqn:D1; [|destruct (d =? LT) eqn:D2].
      + apply N.eqb_eq in D1. subst d. intros H; inversion H; subst it rest line'; clear H. simpl.
        rewrite (cnl_cons _ _ E1), (cnl_cons EQ [] eq_refl), cnl_nil. repeat split; try congruence; lia.
      + apply N.eqb_eq in D2. subst d. intros H; inversion H; subst it rest line'; clear H. simpl.
        rewrite (cnl_cons _ _ E1), (cnl_cons LT [] eq_refl), cnl_nil. repeat split; try congruence; lia.
      + intros H; inversion H; subst it rest line'; clear H. simpl. rewrite (cnl_cons _ _ E1), cnl_nil. repeat split; try congruence; lia. }
  destruct (c =? SLASH) eqn:E4.
  { destruct r as [|d r'].
    - intros H; inversion H; subst it rest line'; clear H. simpl. rewrite (cnl_cons _ _ E1), cnl_nil. repeat split; try congruence; lia.
    - destruct (d =? SLASH) eqn:D1.
      + apply N.eqb_eq in D1. subst d.
        pose proof (span_app (fun x:ch => negb (x =? NL)) r') as SA.
        pose proof (span_no_nl (fun x:ch => negb (x =? NL)) nq_nl r') as CB.
        destruct (span (fun x:ch => negb (x =? NL)) r') as [body rest0]. simpl in SA, CB.
        intros H; inversion H; subst it rest line'; clear H. simpl. rewrite SA.
        rewrite (cnl_cons _ _ E1), (cnl_cons SLASH body eq_refl), CB. repeat split; try congruence; lia.
      + intros H; inversion H; subst it rest line'; clear H. simpl. rewrite (cnl_cons _ _ E1), cnl_nil. repeat split; try congruence; lia. }
  destruct (c =? QUOTE) eqn:E5.
  { pose proof (span_app (fun x:ch => negb (x =? QUOTE)) r) as SA.
    destruct (span (fun x:ch => negb (x =? QUOTE)) r) as [body rest0] eqn:ES. simpl in SA.
    destruct rest0 as [|q rest'].
    - rewrite app_nil_r in SA. intros H; inversion H; subst it rest line'; clear H. simpl. rewrite app_nil_r, SA.
      rewrite (cnl_cons _ _ E1). repeat split; try congruence; lia.
    - pose proof (span_snd_head _ _ _ _ _ ES) as HQ. simpl in HQ. apply negb_false_iff, N.eqb_eq in HQ. subst q.
      intros H; inversion H; subst it rest line'; clear H. simpl. rewrite <- app_assoc. simpl. rewrite SA.
      rewrite (cnl_cons _ _ E1), count_nl_app, (cnl_cons QUOTE [] eq_refl), cnl_nil.
      repeat split; try congruence; lia. }
  destruct (is_digit c) eqn:E6.
  { pose proof (span_app is_digit r) as SA. pose proof (span_no_nl is_digit dig_nl r) as C1.
    destruct (span is_digit r) as [ds rest0]. simpl in SA, C1.
    assert (Base: forall it rest line', Some ({| ikind := KNumber; itext := c :: ds; iline := line |}, rest0, line) = Some (it, rest, line') ->
                  itext it ++ rest = c :: r /\ itext it <> [] /\ line' = (line + count_nl (itext it))%nat /\ iline it = line').
    { intros it0 rest1 line1 H; inversion H; subst it0 rest1 line1; clear H. simpl. rewrite SA.
      rewrite (cnl_cons _ _ E1), C1. repeat split; try congruence; lia. }
    destruct rest0 as [|p [|e rest']]; try (apply Base).
    destruct ((p =? DOT) && is_digit e) eqn:EF; [|apply Base].
    pose proof (span_app is_digit (e :: rest')) as SA2. pose proof (span_no_nl is_digit dig_nl (e :: rest')) as C2.
    destruct (span is_digit (e :: rest')) as [fs rest'']. simpl in SA2, C2.
    apply andb_true_iff in EF. destruct EF as (EP & _). apply N.eqb_eq in EP. subst p.
    intros H; inversion H; subst it rest line'; clear H. simpl.
    rewrite <- app_assoc. simpl. rewrite SA2, SA.
    rewrite (cnl_cons _ _ E1), count_nl_app, (cnl_cons DOT fs eq_refl), C1, C2.
    repeat split; try congruence; lia. }
  destruct (is_alpha c) eqn:E7.
  { pose proof (span_app is_alnum r) as SA. pose proof (span_no_nl is_alnum aln_nl r) as C1.
    destruct (span is_alnum r) as [cs rest0]. simpl in SA, C1.
    intros H; inversion H; subst it rest line'; clear H. simpl. rewrite SA.
    rewrite (cnl_cons _ _ E1), C1. repeat split; try congruence; lia. }
  intros H; inversion H; subst it rest line'; clear H. simpl. rewrite (cnl_cons _ _ E1), cnl_nil. repeat split; try congruence; lia.
Qed.

Lemma scan1_none l line : scan1 l line = None -> l = [].
Proof.
  unfold scan1. destruct l as [|c r]; auto.
  destruct (c =? NL); [discriminate|]. destruct (c =? SP); [discriminate|].
  destruct (c =? LT). { destruct r as [|d r']; [discriminate|]. destruct (d =? EQ); [discriminate|]. destruct (d =? LT); discriminate. }
  destruct (c =? SLASH). { destruct r as [|d r']; [discriminate|]. destruct (d =? SLASH); [|discriminate]. destruct (span _ r'); discriminate. }
  destruct (c =? QUOTE). { destruct (span _ r) as [body [|q rest']]; discriminate. }
  destruct (is_digit c). { destruct (span is_digit r) as [ds [|p [|e rest']]]; try discriminate.
    destruct ((p =? DOT) && is_digit e); [|discriminate]. destruct (span is_digit (e :: rest')); discriminate. }
  destruct (is_alpha c). { destruct (span is_alnum r); discriminate. }
  discriminate.
Qed.

(* ---- the whole text ---- *)
Lemma scan_partition : forall f l line, (length l <= f)%nat -> concat (map itext (scan f l line)) = l.
Proof.
  induction f as [|f IH]; intros l line Hl.
  - destruct l; [reflexivity|simpl in Hl; lia].
  - simpl. destruct (scan1 l line) as [[[it rest] line']|] eqn:E.
    + destruct (scan1_spec _ _ _ _ _ E) as (P & NE & _ & _). simpl. rewrite IH; auto.
      subst l. rewrite app_length in Hl. destruct (itext it); [congruence|simpl in Hl; lia].
    + apply scan1_none in E. subst l. reflexivity.
Qed.
Theorem lex_partition src : concat (map itext (lex src)) = src.
Proof. apply scan_partition; lia. Qed.

(* every item carries 1 + the number of newlines in the source up to and including its own text *)
Lemma scan_lines : forall f l line, (length l <= f)%nat ->
  forall its1 it its2, scan f l line = its1 ++ it :: its2 ->
  iline it = (line + count_nl (concat (map itext its1) ++ itext it))%nat.
Proof.
  induction f as [|f IH]; intros l line Hl its1 it its2 H.
  - destruct its1; discriminate.
  - simpl in H. destruct (scan1 l line) as [[[it0 rest] line']|] eqn:E; [|destruct its1; discriminate].
    destruct (scan1_spec _ _ _ _ _ E) as (P & NE & LN & IL).
    destruct its1 as [|i1 its1]; simpl in H; inversion H; clear H.
    + subst it0. simpl. congruence.
    + subst it0. simpl. rewrite <- app_assoc, count_nl_app.
      assert (Hr: (length rest <= f)%nat) by (subst l; rewrite app_length in Hl; destruct (itext i1); [congruence|simpl in Hl; lia]).
      rewrite (IH rest line' Hr its1 it its2 H2). lia.
Qed.
Theorem line_spec src its1 it its2 :
  lex src = its1 ++ it :: its2 -> iline it = (1 + count_nl (concat (map itext its1) ++ itext it))%nat.
Proof. intros H. eapply (scan_lines _ _ 1%nat); [|exact H]. lia. Qed.

Definition src1 : list ch := [97; 60; 61; 49; 50; 46; 53; 10; 34; 120; 10; 121; 34; 32; 47; 47; 122; 10; 49; 46; 64].
Eval vm_compute in map (fun i => (ikind i, itext i, iline i)) (lex src1).
Print Assumptions line_spec.
