(* SPIKE (throwaway): one-token look-ahead => what the parser does up to its first error depends only on the
   tokens up to and including the offending one; hence no extension of that prefix is accepted *)
From Coq Require Import List Arith Lia Bool.
Import ListNotations.
Require Import ParserSpike_Defs ParserSpike_ErrPos.

Definition samehead (r r':list tok) : Prop :=
  match r, r' with [], [] => True | t :: _, t' :: _ => t = t' | _, _ => False end.
Lemma samehead_refl r : samehead r r. Proof. destruct r; simpl; auto. Qed.
Lemma samehead_app p r r' : samehead r r' -> samehead (p ++ r) (p ++ r').
Proof. destruct p; simpl; auto. Qed.
Lemma samehead_cons_inv t r y : samehead (t :: r) y -> exists r', y = t :: r'.
Proof. destruct y; simpl; [contradiction|]. intros ->. eauto. Qed.
Lemma samehead_nil_inv y : samehead [] y -> y = [].
Proof. destruct y; simpl; [auto|contradiction]. Qed.

Definition notOk {A} (r:resE A) : Prop := match r with OkE _ => False | _ => True end.
Lemma notOk_bind {A B} (r:resE A) (k:A -> resE B) : notOk r -> notOk (bindE r k).
Proof. destruct r; simpl; auto; contradiction. Qed.

(* [Det run ts]: the run on ts consumed a prefix p; on p followed by anything that starts with the same token as what
   was left it gives the same value (success) or again no value (failure) *)
Definition Det {A} (run:list tok -> resE (A * list tok)) (ts:list tok) : Prop :=
  match run ts with
  | OkE (a, r0) => exists p, ts = p ++ r0 /\ forall r', samehead r0 r' -> run (p ++ r') = OkE (a, r')
  | ErrE rem => exists p, ts = p ++ rem /\ forall rem', samehead rem rem' -> notOk (run (p ++ rem'))
  | FuelE => True
  end.

Lemma Det_ext {A} (run run':list tok -> resE (A * list tok)) ts :
  (forall y, samehead ts y -> run y = run' y) -> Det run' ts -> Det run ts.
Proof.
  intros E D. unfold Det in *. rewrite (E ts (samehead_refl _)).
  destruct (run' ts) as [[a r0]|rem|]; auto.
  - destruct D as (p & -> & D). exists p. split; auto. intros r' S. rewrite E; auto. apply samehead_app; auto.
  - destruct D as (p & -> & D). exists p. split; auto. intros r' S. rewrite E; auto. apply samehead_app; auto.
Qed.
Lemma Det_cons {A} (run run':list tok -> resE (A * list tok)) t r :
  (forall x, run (t :: x) = run' x) -> Det run' r -> Det run (t :: r).
Proof.
  intros E D. unfold Det in *. rewrite E. destruct (run' r) as [[a r0]|rem|]; auto.
  - destruct D as (p & -> & D). exists (t :: p). split; auto. intros r' S. simpl. rewrite E. auto.
  - destruct D as (p & -> & D). exists (t :: p). split; auto. intros r' S. simpl. rewrite E. auto.
Qed.
Lemma Det_stop_ok {A} (run:list tok -> resE (A * list tok)) a ts :
  (forall y, samehead ts y -> run y = OkE (a, y)) -> Det run ts.
Proof. intros E. unfold Det. rewrite (E ts (samehead_refl _)). exists []. split; auto. Qed.
Lemma Det_stop_err {A} (run:list tok -> resE (A * list tok)) ts :
  (forall y, samehead ts y -> run y = ErrE y) -> Det run ts.
Proof.
  intros E. unfold Det. rewrite (E ts (samehead_refl _)). exists []. split; auto.
  intros rem' S. simpl. rewrite (E _ S). exact I.
Qed.
Lemma Det_bind {A B} (X:list tok -> resE (A * list tok)) (Y:A -> list tok -> resE (B * list tok)) ts :
  Det X ts -> (forall a r1, X ts = OkE (a, r1) -> Det (Y a) r1) ->
  Det (fun x => bindE (X x) (fun ar => Y (fst ar) (snd ar))) ts.
Proof.
  intros DX DY. unfold Det in *. destruct (X ts) as [[a r1]|rem|] eqn:EX; simpl; auto.
  - destruct DX as (p1 & -> & DX). specialize (DY a r1 eq_refl).
    destruct (Y a r1) as [[b r]|rem|] eqn:EY; auto.
    + destruct DY as (p2 & -> & DY). exists (p1 ++ p2). split; [now rewrite app_assoc|].
      intros r' S. rewrite <- app_assoc. rewrite (DX (p2 ++ r') (samehead_app _ _ _ S)). simpl. auto.
    + destruct DY as (p2 & -> & DY). exists (p1 ++ p2). split; [now rewrite app_assoc|].
      intros r' S. rewrite <- app_assoc. rewrite (DX (p2 ++ r') (samehead_app _ _ _ S)). simpl. auto.
  - destruct DX as (p & -> & DX). exists p. split; auto. intros r' S. apply notOk_bind. auto.
Qed.
(* a continuation that just returns *)
Lemma Det_ret {A} (mk:list tok -> A) (c:A) r : (forall y, mk y = c) -> Det (fun x => OkE (mk x, x)) r.
Proof. intros E. apply (Det_stop_ok _ c). intros y _. rewrite E. reflexivity. Qed.

Section S.
Variable L : nat.
Variable oplevel : nat -> option nat.
Variable isun : nat -> bool.
Notation vexpr := (vexpr L oplevel isun).
Notation vlevel := (vlevel L oplevel isun).
Notation vloop := (vloop L oplevel isun).
Notation vunary := (vunary L oplevel isun).
Notation vpost := (vpost L oplevel isun).
Notation vsuffix := (vsuffix L oplevel isun).
Notation vargs := (vargs L oplevel isun).
Notation vprim := (vprim L oplevel isun).

Lemma vexpr_S f ts : vexpr (S f) ts =
    bindE (vlevel f 0 ts) (fun p => let '(e, r) := p in
    match r with
    | TEq :: r' => bindE (vexpr f r') (fun q => let '(v, r'') := q in
                   if is_target e then OkE (EAssign e v, r'') else ErrE r)
    | _ => OkE (e, r)
    end).
Proof. reflexivity. Qed.
Lemma vlevel_S f k ts : vlevel (S f) k ts =
    if Nat.ltb k L then bindE (vlevel f (S k) ts) (fun p => let '(l, r) := p in vloop f k l r) else vunary f ts.
Proof. reflexivity. Qed.
Lemma vloop_S f k acc ts : vloop (S f) k acc ts =
    match ts with
    | t :: r => match inlevel oplevel k t with
                | Some o => bindE (vlevel f (S k) r) (fun p => let '(rt, r') := p in vloop f k (EBin o acc rt) r')
                | None => OkE (acc, ts)
                end
    | [] => OkE (acc, ts)
    end.
Proof. reflexivity. Qed.
Lemma vunary_S f ts : vunary (S f) ts =
    match ts with
    | TOp o :: r => if isun o then bindE (vunary f r) (fun p => let '(e, r') := p in OkE (EUn o e, r')) else vpost f ts
    | _ => vpost f ts
    end.
Proof. reflexivity. Qed.
Lemma vpost_S f ts : vpost (S f) ts = bindE (vprim f ts) (fun p => let '(e, r) := p in vsuffix f e r).
Proof. reflexivity. Qed.
Lemma vsuffix_S f acc ts : vsuffix (S f) acc ts =
    match ts with
    | TLP :: TRP :: r => vsuffix f (ECall acc []) r
    | TLP :: r => bindE (vargs f r) (fun p => let '(args, r') := p in
                  match r' with TRP :: r'' => vsuffix f (ECall acc args) r'' | _ => ErrE r' end)
    | TLB :: r => bindE (vexpr f r) (fun p => let '(i, r') := p in
                  match r' with TRB :: r'' => vsuffix f (EIdx acc i) r'' | _ => ErrE r' end)
    | _ => OkE (acc, ts)
    end.
Proof. reflexivity. Qed.
Lemma vargs_S f ts : vargs (S f) ts =
    bindE (vexpr f ts) (fun p => let '(e, r) := p in
    match r with
    | TComma :: r' => bindE (vargs f r') (fun q => let '(es, r'') := q in OkE (e :: es, r''))
    | _ => OkE ([e], r)
    end).
Proof. reflexivity. Qed.
Lemma vprim_S f ts : vprim (S f) ts =
    match ts with
    | TNum n :: r => OkE (ENum n, r)
    | TId x :: r => OkE (EId x, r)
    | TLP :: r => bindE (vexpr f r) (fun p => let '(e, r') := p in
                  match r' with TRP :: r'' => OkE (EGroup e, r'') | _ => ErrE r' end)
    | _ => ErrE ts
    end.
Proof. reflexivity. Qed.
Ltac ev := rewrite ?vexpr_S, ?vlevel_S, ?vloop_S, ?vunary_S, ?vpost_S, ?vsuffix_S, ?vargs_S, ?vprim_S.

Definition DetAt (f:nat) : Prop :=
  (forall ts, Det (vexpr f) ts) /\ (forall k ts, Det (vlevel f k) ts) /\ (forall k a ts, Det (vloop f k a) ts) /\
  (forall ts, Det (vunary f) ts) /\ (forall ts, Det (vpost f) ts) /\ (forall a ts, Det (vsuffix f a) ts) /\
  (forall ts, Det (vargs f) ts) /\ (forall ts, Det (vprim f) ts).

(* a head different from t: every list with the same head takes the same (default) branch *)
Ltac same_head S := first [ apply samehead_nil_inv in S; subst | (apply samehead_cons_inv in S; let r2 := fresh "r2" in destruct S as (r2 & ->)) ].

Lemma det : forall f, DetAt f.
Proof.
  induction f as [|f (Ie & Il & Ilo & Iu & Ip & Is & Ia & Ipr)]; unfold DetAt.
  { repeat split; intros; unfold Det; simpl; exact I. }
  split; [|split; [|split; [|split; [|split; [|split; [|split]]]]]].
  - (* vexpr *) intros ts.
    set (Y := fun (e:expr) (r:list tok) => match r with
              | TEq :: r' => bindE (vexpr f r') (fun q => if is_target e then OkE (EAssign e (fst q), snd q) else @ErrE (expr * list tok) r)
              | _ => OkE (e, r) end).
    apply (Det_ext _ (fun x => bindE (vlevel f 0 x) (fun ar => Y (fst ar) (snd ar)))).
    { intros y _. ev. destruct (vlevel f 0 y) as [[e r]|?|]; cbn [bindE fst snd]; auto. unfold Y.
      destruct r as [|[] r']; auto. destruct (vexpr f r') as [[v r'']|?|]; reflexivity. }
    apply Det_bind; [apply Il|]. intros e r1 _. unfold Y.
    destruct r1 as [|t r']; [apply (Det_stop_ok _ e); intros y S; same_head S; ev; reflexivity|].
    destruct t; try (apply (Det_stop_ok _ e); intros y S; same_head S; ev; reflexivity).
    destruct (is_target e) eqn:T.
    + apply (Det_cons _ (fun x => bindE (vexpr f x) (fun q => OkE (EAssign e (fst q), snd q)))); [intros; ev; reflexivity|].
      apply (Det_bind (vexpr f) (fun v x => OkE (EAssign e v, x))); [apply Ie|].
      intros v r'' _. apply (Det_stop_ok _ (EAssign e v)). reflexivity.
    + (* not assignable: whatever follows the '=', the result is never a value *)
      unfold Det. pose proof (Ie r') as D. unfold Det in D.
      destruct (vexpr f r') as [[v r'']|rem|] eqn:EV; simpl.
      * exists []. split; auto. intros rem' S. destruct rem' as [|t' x]; [contradiction|]. simpl in S. subst t'. cbn [app].
        destruct (vexpr f x) as [[? ?]|?|]; simpl; exact I.
      * destruct D as (p & -> & D). exists (TEq :: p). split; auto. intros rem' S. simpl. apply notOk_bind. auto.
      * exact I.
  - (* vlevel *) intros k ts. destruct (k <? L) eqn:Ek.
    + apply (Det_ext _ (fun x => bindE (vlevel f (S k) x) (fun ar => vloop f k (fst ar) (snd ar)))).
      { intros y _. ev. rewrite Ek. destruct (vlevel f (S k) y) as [[e r]|?|]; reflexivity. }
      apply Det_bind; [apply Il|]. intros; apply Ilo.
    + apply (Det_ext _ (vunary f)); [intros y _; ev; rewrite Ek; reflexivity|apply Iu].
  - (* vloop *) intros k a ts.
    destruct ts as [|t r]; [apply (Det_stop_ok _ a); intros y S; same_head S; ev; reflexivity|].
    destruct (inlevel oplevel k t) as [o|] eqn:EI.
    + apply (Det_cons _ (fun x => bindE (vlevel f (S k) x) (fun ar => vloop f k (EBin o a (fst ar)) (snd ar)))).
      { intros x. ev. rewrite EI. destruct (vlevel f (S k) x) as [[e r0]|?|]; reflexivity. }
      apply (Det_bind (vlevel f (S k)) (fun e r0 => vloop f k (EBin o a e) r0)); [apply Il|]. intros; apply Ilo.
    + apply (Det_stop_ok _ a). intros y S. same_head S. ev. rewrite EI. reflexivity.
  - (* vunary *) intros ts.
    assert (Post: (forall y, samehead ts y -> vunary (S f) y = vpost f y) -> Det (vunary (S f)) ts).
    { intros E. apply (Det_ext _ (vpost f)); auto. }
    destruct ts as [|t r]; [apply Post; intros y S; same_head S; ev; reflexivity|].
    destruct t; try (apply Post; intros y S; same_head S; ev; reflexivity).
    destruct (isun o) eqn:U; [|apply Post; intros y S; same_head S; ev; rewrite U; reflexivity].
    apply (Det_cons _ (fun x => bindE (vunary f x) (fun ar => OkE (EUn o (fst ar), snd ar)))).
    { intros x. ev. rewrite U. destruct (vunary f x) as [[e r0]|?|]; reflexivity. }
    apply (Det_bind (vunary f) (fun e x => OkE (EUn o e, x))); [apply Iu|].
    intros e r0 _. apply (Det_stop_ok _ (EUn o e)). reflexivity.
  - (* vpost *) intros ts.
    apply (Det_ext _ (fun x => bindE (vprim f x) (fun ar => vsuffix f (fst ar) (snd ar)))).
    { intros y _. ev. destruct (vprim f y) as [[e r]|?|]; reflexivity. }
    apply Det_bind; [apply Ipr|]. intros; apply Is.
  - (* vsuffix *) intros a ts.
    destruct ts as [|t r]; [apply (Det_stop_ok _ a); intros y S; same_head S; ev; reflexivity|].
    destruct t; try (apply (Det_stop_ok _ a); intros y S; same_head S; ev; reflexivity).
    + (* TLP *)
      set (K := fun (args:list expr) (r':list tok) => match r' with TRP :: r'' => vsuffix f (ECall a args) r'' | _ => @ErrE (expr * list tok) r' end).
      set (B := fun x => bindE (vargs f x) (fun p => K (fst p) (snd p))).
      set (run' := fun x => match x with TRP :: r0 => vsuffix f (ECall a []) r0 | _ => B x end).
      apply (Det_cons _ run').
      { intros x. ev. unfold run', B, K. destruct x as [|[] x']; try reflexivity;
          (destruct (vargs f _) as [[args r']|?|]; reflexivity). }
      assert (DB: forall x, Det B x).
      { intros x. unfold B. apply Det_bind; [apply Ia|]. intros args r' _. unfold K.
        destruct r' as [|t' r'']; [apply Det_stop_err; intros y S; same_head S; ev; reflexivity|].
        destruct t'; try (apply Det_stop_err; intros y S; same_head S; ev; reflexivity).
        apply (Det_cons _ (vsuffix f (ECall a args))); [intros; ev; reflexivity|apply Is]. }
      destruct r as [|t2 r2]; [apply (Det_ext _ B); [intros y S; same_head S; ev; reflexivity|apply DB]|].
      destruct t2; try (apply (Det_ext _ B); [intros y S; same_head S; ev; reflexivity|apply DB]).
      apply (Det_cons _ (vsuffix f (ECall a []))); [intros; ev; reflexivity|apply Is].
    + (* TLB *)
      set (K := fun (i:expr) (r':list tok) => match r' with TRB :: r'' => vsuffix f (EIdx a i) r'' | _ => @ErrE (expr * list tok) r' end).
      apply (Det_cons _ (fun x => bindE (vexpr f x) (fun p => K (fst p) (snd p)))).
      { intros x. ev. unfold K. destruct (vexpr f x) as [[i r']|?|]; reflexivity. }
      apply Det_bind; [apply Ie|]. intros i r' _. unfold K.
      destruct r' as [|t' r'']; [apply Det_stop_err; intros y S; same_head S; ev; reflexivity|].
      destruct t'; try (apply Det_stop_err; intros y S; same_head S; ev; reflexivity).
      apply (Det_cons _ (vsuffix f (EIdx a i))); [intros; ev; reflexivity|apply Is].
  - (* vargs *) intros ts.
    set (Y := fun (e:expr) (r:list tok) => match r with
              | TComma :: r' => bindE (vargs f r') (fun q => OkE (e :: fst q, snd q))
              | _ => OkE ([e], r) end).
    apply (Det_ext _ (fun x => bindE (vexpr f x) (fun ar => Y (fst ar) (snd ar)))).
    { intros y _. ev. unfold Y. destruct (vexpr f y) as [[e r]|?|]; cbn [bindE fst snd]; auto.
      destruct r as [|[] r']; auto. destruct (vargs f r') as [[es r'']|?|]; reflexivity. }
    apply Det_bind; [apply Ie|]. intros e r1 _. unfold Y.
    destruct r1 as [|t r']; [apply (Det_stop_ok _ [e]); intros y S; same_head S; ev; reflexivity|].
    destruct t; try (apply (Det_stop_ok _ [e]); intros y S; same_head S; ev; reflexivity).
    apply (Det_cons _ (fun x => bindE (vargs f x) (fun q => OkE (e :: fst q, snd q)))); [intros; ev; reflexivity|].
    apply (Det_bind (vargs f) (fun es x => OkE (e :: es, x))); [apply Ia|].
    intros es r'' _. apply (Det_stop_ok _ (e :: es)). reflexivity.
  - (* vprim *) intros ts.
    destruct ts as [|t r]; [apply Det_stop_err; intros y S; same_head S; ev; reflexivity|].
    destruct t; try (apply Det_stop_err; intros y S; same_head S; ev; reflexivity).
    + apply (Det_cons _ (fun x => OkE (ENum n, x))); [intros; ev; reflexivity|]. apply (Det_stop_ok _ (ENum n)). reflexivity.
    + apply (Det_cons _ (fun y => OkE (EId x, y))); [intros; ev; reflexivity|]. apply (Det_stop_ok _ (EId x)). reflexivity.
    + set (K := fun (e:expr) (r':list tok) => match r' with TRP :: r'' => OkE (EGroup e, r'') | _ => @ErrE (expr * list tok) r' end).
      apply (Det_cons _ (fun x => bindE (vexpr f x) (fun p => K (fst p) (snd p)))).
      { intros x. ev. unfold K. destruct (vexpr f x) as [[e r']|?|]; reflexivity. }
      apply Det_bind; [apply Ie|]. intros e r' _. unfold K.
      destruct r' as [|t' r'']; [apply Det_stop_err; intros y S; same_head S; ev; reflexivity|].
      destruct t'; try (apply Det_stop_err; intros y S; same_head S; ev; reflexivity).
      apply (Det_cons _ (fun x => OkE (EGroup e, x))); [intros; ev; reflexivity|]. apply (Det_stop_ok _ (EGroup e)). reflexivity.
Qed.

(* the text up to and including the offending token cannot be extended to an accepted one (same fuel; the lift to
   every fuel is fuel monotonicity of results other than FuelE) *)
Theorem bad_prefix f ts t rem : vexpr f ts = ErrE (t :: rem) ->
  exists pre, ts = pre ++ t :: rem /\ forall w, notOk (vexpr f (pre ++ t :: w)).
Proof.
  intros H. destruct (det f) as (D & _). specialize (D ts). unfold Det in D. rewrite H in D.
  destruct D as (p & -> & D). exists p. split; auto. intros w. apply D. simpl. reflexivity.
Qed.
End S.
Print Assumptions bad_prefix.
