(* SPIKE (throwaway): the same parser reporting WHERE it fails (the remaining tokens at the first error) *)
From Coq Require Import List Arith Lia Bool.
Import ListNotations.
Require Import ParserSpike_Defs.
Arguments Ok {A}. Arguments Err {A}. Arguments Fuel {A}.

Inductive resE (A:Type) := OkE (a:A) | ErrE (rem:list tok) | FuelE.
Arguments OkE {A}. Arguments ErrE {A}. Arguments FuelE {A}.
Definition bindE {A B} (r:resE A) (f:A -> resE B) : resE B :=
  match r with OkE a => f a | ErrE m => ErrE m | FuelE => FuelE end.
Definition erase {A} (r:resE A) : res A := match r with OkE a => Ok a | ErrE _ => Err | FuelE => Fuel end.
Notation "x <-- e ;; k" := (bindE e (fun x => k)) (at level 60, e at next level, right associativity).

Section Ladder.
Variable L : nat.
Variable oplevel : nat -> option nat.
Variable isun : nat -> bool.

Fixpoint vexpr (f:nat) (ts:list tok) {struct f} : resE (expr * list tok) :=
  match f with 0 => FuelE | S f =>
    p <-- vlevel f 0 ts ;;
    let '(e, r) := p in
    match r with
    | TEq :: r' => q <-- vexpr f r' ;; let '(v, r'') := q in
                   if is_target e then OkE (EAssign e v, r'') else ErrE r   (* reported at the '=' *)
    | _ => OkE (e, r)
    end
  end
with vlevel (f:nat) (k:nat) (ts:list tok) {struct f} : resE (expr * list tok) :=
  match f with 0 => FuelE | S f =>
    if Nat.ltb k L then
      p <-- vlevel f (S k) ts ;; let '(l, r) := p in vloop f k l r
    else vunary f ts
  end
with vloop (f:nat) (k:nat) (acc:expr) (ts:list tok) {struct f} : resE (expr * list tok) :=
  match f with 0 => FuelE | S f =>
    match ts with
    | t :: r => match inlevel oplevel k t with
                | Some o => p <-- vlevel f (S k) r ;; let '(rt, r') := p in vloop f k (EBin o acc rt) r'
                | None => OkE (acc, ts)
                end
    | [] => OkE (acc, ts)
    end
  end
with vunary (f:nat) (ts:list tok) {struct f} : resE (expr * list tok) :=
  match f with 0 => FuelE | S f =>
    match ts with
    | TOp o :: r => if isun o then p <-- vunary f r ;; let '(e, r') := p in OkE (EUn o e, r')
                    else vpost f ts
    | _ => vpost f ts
    end
  end
with vpost (f:nat) (ts:list tok) {struct f} : resE (expr * list tok) :=
  match f with 0 => FuelE | S f =>
    p <-- vprim f ts ;; let '(e, r) := p in vsuffix f e r
  end
with vsuffix (f:nat) (acc:expr) (ts:list tok) {struct f} : resE (expr * list tok) :=
  match f with 0 => FuelE | S f =>
    match ts with
    | TLP :: TRP :: r => vsuffix f (ECall acc []) r
    | TLP :: r => p <-- vargs f r ;; let '(args, r') := p in
                  match r' with TRP :: r'' => vsuffix f (ECall acc args) r'' | _ => ErrE r' end
    | TLB :: r => p <-- vexpr f r ;; let '(i, r') := p in
                  match r' with TRB :: r'' => vsuffix f (EIdx acc i) r'' | _ => ErrE r' end
    | _ => OkE (acc, ts)
    end
  end
with vargs (f:nat) (ts:list tok) {struct f} : resE (list expr * list tok) :=
  match f with 0 => FuelE | S f =>
    p <-- vexpr f ts ;; let '(e, r) := p in
    match r with
    | TComma :: r' => q <-- vargs f r' ;; let '(es, r'') := q in OkE (e :: es, r'')
    | _ => OkE ([e], r)
    end
  end
with vprim (f:nat) (ts:list tok) {struct f} : resE (expr * list tok) :=
  match f with 0 => FuelE | S f =>
    match ts with
    | TNum n :: r => OkE (ENum n, r)
    | TId x :: r => OkE (EId x, r)
    | TLP :: r => p <-- vexpr f r ;; let '(e, r') := p in
                  match r' with TRP :: r'' => OkE (EGroup e, r'') | _ => ErrE r' end
    | _ => ErrE ts
    end
  end.

(* forgetting the position gives back the original parser *)
Lemma erase_bind {A B} (r:resE A) (k:A -> resE B) (k':A -> res B) :
  (forall a, erase (k a) = k' a) -> erase (bindE r k) = bind (erase r) k'.
Proof. intros H. destruct r; simpl; auto. Qed.

Lemma sim : forall f,
  (forall ts, erase (vexpr f ts) = pexpr L oplevel isun f ts) /\
  (forall k ts, erase (vlevel f k ts) = plevel L oplevel isun f k ts) /\
  (forall k a ts, erase (vloop f k a ts) = ploop L oplevel isun f k a ts) /\
  (forall ts, erase (vunary f ts) = punary L oplevel isun f ts) /\
  (forall ts, erase (vpost f ts) = ppost L oplevel isun f ts) /\
  (forall a ts, erase (vsuffix f a ts) = psuffix L oplevel isun f a ts) /\
  (forall ts, erase (vargs f ts) = pargs L oplevel isun f ts) /\
  (forall ts, erase (vprim f ts) = pprim L oplevel isun f ts).
Proof.
  induction f as [|f (Ie & Il & Ilo & Iu & Ip & Is & Ia & Ipr)].
  { repeat (split; [intros; reflexivity|]). intros; reflexivity. }
  split; [|split; [|split; [|split; [|split; [|split; [|split]]]]]].
  - intros ts. cbn [vexpr pexpr]. erewrite erase_bind; [rewrite Il; reflexivity|].
    intros [e r]. destruct r as [|[] r']; try reflexivity.
    erewrite erase_bind; [rewrite Ie; reflexivity|]. intros [v r'']. destruct (is_target e); reflexivity.
  - intros k ts. cbn [vlevel plevel]. destruct (k <? L); [|apply Iu].
    erewrite erase_bind; [rewrite Il; reflexivity|]. intros [l r]. apply Ilo.
  - intros k a ts. cbn [vloop ploop]. destruct ts as [|t r]; [reflexivity|].
    destruct (inlevel oplevel k t); [|reflexivity].
    erewrite erase_bind; [rewrite Il; reflexivity|]. intros [rt r']. apply Ilo.
  - intros ts. cbn [vunary punary]. destruct ts as [|[] r]; try apply Ip.
    destruct (isun o); [|apply Ip]. erewrite erase_bind; [rewrite Iu; reflexivity|]. intros [e r']. reflexivity.
  - intros ts. cbn [vpost ppost]. erewrite erase_bind; [rewrite Ipr; reflexivity|]. intros [e r]. apply Is.
  - intros a ts. cbn [vsuffix psuffix]. destruct ts as [|[] r]; try reflexivity.
    + destruct r as [|[] r2]; try (erewrite erase_bind; [rewrite Ia; reflexivity|]; intros [args r']; destruct r' as [|[] r'']; try reflexivity; apply Is).
      apply Is.
    + erewrite erase_bind; [rewrite Ie; reflexivity|]. intros [i r']. destruct r' as [|[] r'']; try reflexivity. apply Is.
  - intros ts. cbn [vargs pargs]. erewrite erase_bind; [rewrite Ie; reflexivity|]. intros [e r].
    destruct r as [|[] r']; try reflexivity.
    erewrite erase_bind; [rewrite Ia; reflexivity|]. intros [es r'']. reflexivity.
  - intros ts. cbn [vprim pprim]. destruct ts as [|[] r]; try reflexivity.
    erewrite erase_bind; [rewrite Ie; reflexivity|]. intros [e r']. destruct r' as [|[] r'']; reflexivity.
Qed.
End Ladder.
