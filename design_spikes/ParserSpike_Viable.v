(* SPIKE (throwaway): the text before the first parse error can be completed to an accepted one,
   unless it already contains an assignment to a non-assignable left side *)
From Coq Require Import List Arith Lia Bool.
Import ListNotations.
Require Import ParserSpike_Defs ParserSpike_Mono ParserSpike_Complete ParserSpike_Sound ParserSpike_ErrPos.
Arguments Ok {A}. Arguments Err {A}. Arguments Fuel {A}.

Section S.
Variable L : nat.
Variable oplevel : nat -> option nat.
Variable isun : nat -> bool.
Hypothesis oplevel_lt : forall o k, oplevel o = Some k -> k < L.

Notation pexpr := (pexpr L oplevel isun).
Notation plevel := (plevel L oplevel isun).
Notation ploop := (ploop L oplevel isun).
Notation punary := (punary L oplevel isun).
Notation ppost := (ppost L oplevel isun).
Notation psuffix := (psuffix L oplevel isun).
Notation pargs := (pargs L oplevel isun).
Notation pprim := (pprim L oplevel isun).
Notation vexpr := (vexpr L oplevel isun).
Notation vlevel := (vlevel L oplevel isun).
Notation vloop := (vloop L oplevel isun).
Notation vunary := (vunary L oplevel isun).
Notation vpost := (vpost L oplevel isun).
Notation vsuffix := (vsuffix L oplevel isun).
Notation vargs := (vargs L oplevel isun).
Notation vprim := (vprim L oplevel isun).
Notation WFe := (WFe L oplevel isun).
Notation WFk := (WFk L oplevel isun).
Notation hdok := (hdok oplevel).
Notation hdoke := (hdoke oplevel).

Ltac inv H := inversion H; subst; clear H.

(* ---------- soundness of the position-reporting parser, through the simulation ---------- *)
Lemma ok_erase {A} (r:resE A) a : r = OkE a -> erase r = Ok a. Proof. intros ->; reflexivity. Qed.
Lemma s_expr f ts e r : vexpr f ts = OkE (e, r) -> WFe e /\ ts = flat e ++ r.
Proof. intros H. apply ok_erase in H. rewrite (proj1 (sim L oplevel isun f)) in H. eapply (sound L oplevel isun f); eauto. Qed.
Lemma s_level f k ts e r : vlevel f k ts = OkE (e, r) -> k <= L -> WFk k e /\ ts = flat e ++ r.
Proof. intros H Hk. apply ok_erase in H. rewrite (proj1 (proj2 (sim L oplevel isun f))) in H. eapply (sound L oplevel isun f); eauto. Qed.
Lemma s_args f ts es r : vargs f ts = OkE (es, r) -> Forall WFe es /\ es <> [] /\ ts = flatargs es ++ r.
Proof.
  intros H. apply ok_erase in H.
  destruct (sim L oplevel isun f) as (_ & _ & _ & _ & _ & _ & Sa & _). rewrite Sa in H.
  destruct (sound L oplevel isun f) as (_ & _ & _ & _ & _ & _ & Ha & _). eauto.
Qed.
Lemma s_prim f ts e r : vprim f ts = OkE (e, r) -> WFk (S L) e /\ ts = flat e ++ r.
Proof.
  intros H. apply ok_erase in H.
  destruct (sim L oplevel isun f) as (_ & _ & _ & _ & _ & _ & _ & Sp). rewrite Sp in H.
  destruct (sound L oplevel isun f) as (_ & _ & _ & _ & _ & _ & _ & Hp). eauto.
Qed.

(* ---------- completeness, in the forms used below ---------- *)
Lemma c_expr e u : WFe e -> hdoke u -> exists f, pexpr f (flat e ++ u) = Ok (e, u).
Proof. intros W H. destruct (complete_n L oplevel isun oplevel_lt (size e) e (le_n _)) as (_ & _ & E). eauto. Qed.
Lemma c_level k e u : k <= L -> WFk k e -> hdok k u -> exists f, plevel f k (flat e ++ u) = Ok (e, u).
Proof. intros Hk W H. destruct (complete_n L oplevel isun oplevel_lt (size e) e (le_n _)) as (A & _ & _). eauto. Qed.
Lemma c_post e u f res : WFk (S L) e -> psuffix f e u = Ok res -> exists f', ppost f' (flat e ++ u) = Ok res.
Proof. intros W H. destruct (complete_n L oplevel isun oplevel_lt (size e) e (le_n _)) as (_ & P & _). eauto. Qed.
Lemma c_args args u : Forall WFe args -> args <> [] -> exists f, pargs f (flatargs args ++ TRP :: u) = Ok (args, TRP :: u).
Proof.
  intros W Ne. apply (args_complete L oplevel isun (sizes args)); auto.
  intros e _. apply (complete_n L oplevel isun oplevel_lt (size e)); auto.
Qed.

Lemma hdoke_hdok k u : hdoke u -> hdok k u.
Proof. intros (H & _). eapply hdok_mono; [|exact H]. lia. Qed.
Lemma hdoke_not_suffix u : hdoke u -> forall f a, psuffix (S f) a u = Ok (a, u).
Proof.
  intros (H & _) f a. rewrite psuffix_S. destruct u as [|[] r]; try reflexivity; simpl in H; destruct H as (_ & ? & ?); congruence.
Qed.
Lemma hdok_stop k u : hdok k u -> forall f a, ploop (S f) k a u = Ok (a, u).
Proof.
  intros H f a. rewrite ploop_S. destruct u as [|t r]; auto. simpl in H. destruct H as (H & _). rewrite H by lia. reflexivity.
Qed.
Lemma hdoke_sepT t u : (t = TRP \/ t = TComma \/ t = TRB) -> hdoke (t :: u).
Proof. apply hdoke_sep. Qed.

(* ---------- what "can be completed" means ---------- *)
Definition BadIn (pre:list tok) : Prop :=
  exists a l b, pre = a ++ flat l ++ TEq :: b /\ WFk 0 l /\ is_target l = false.
Lemma BadIn_app x pre : BadIn pre -> BadIn (x ++ pre).
Proof. intros (a & l & b & -> & W & T). exists (x ++ a), l, b. rewrite <- app_assoc. auto. Qed.
Lemma BadIn_cons t pre : BadIn pre -> BadIn (t :: pre).
Proof. apply (BadIn_app [t]). Qed.

Definition Comp (run:list tok -> list tok -> Prop) (ts rem:list tok) : Prop :=
  exists pre w, ts = pre ++ rem /\ (BadIn pre \/ forall u, hdoke u -> run (pre ++ w) u).
Definition runE x u := exists f e, pexpr f (x ++ u) = Ok (e, u).
Definition runK k x u := exists f e, plevel f k (x ++ u) = Ok (e, u).
Definition runL k a x u := exists f e, ploop f k a (x ++ u) = Ok (e, u).
Definition runU x u := exists f e, punary f (x ++ u) = Ok (e, u).
Definition runP x u := exists f e, ppost f (x ++ u) = Ok (e, u).
Definition runS a x u := exists f e, psuffix f a (x ++ u) = Ok (e, u).
Definition runA x u := exists f es, pargs f (x ++ TRP :: u) = Ok (es, TRP :: u).
Definition runPr x u := exists f e, pprim f (x ++ u) = Ok (e, u).
(* a loop only fails after consuming an operator of its own level *)
Definition CompL k a ts rem : Prop :=
  exists o p' w, ts = (TOp o :: p') ++ rem /\ oplevel o = Some k /\
     (BadIn (TOp o :: p') \/ forall u, hdoke u -> runL k a ((TOp o :: p') ++ w) u).

Lemma bindE_err {A B} (r:resE A) (k:A -> resE B) m :
  bindE r k = ErrE m -> r = ErrE m \/ exists a, r = OkE a /\ k a = ErrE m.
Proof. destruct r; simpl; intros; try discriminate; eauto. left; congruence. Qed.

Lemma args_start es : Forall WFe es -> es <> [] -> exists t0 r0, flatargs es = t0 :: r0 /\ t0 <> TRP.
Proof.
  intros W Ne. destruct es as [|e0 es']; [congruence|]. inversion W as [|x l We Wl]; subst.
  destruct (flat_start L oplevel isun (size e0) e0 (le_n _)) as (_ & F). destruct (F We) as (t0 & r0 & E0 & St).
  exists t0. destruct es'; simpl; rewrite E0; simpl; eexists; (split; [reflexivity|]); destruct t0; simpl in St; congruence.
Qed.

Definition ViableAt (f:nat) : Prop :=
  (forall ts rem, vexpr f ts = ErrE rem -> Comp runE ts rem) /\
  (forall k ts rem, k <= L -> vlevel f k ts = ErrE rem -> Comp (runK k) ts rem) /\
  (forall k a ts rem, k < L -> WFk k a -> vloop f k a ts = ErrE rem -> CompL k a ts rem) /\
  (forall ts rem, vunary f ts = ErrE rem -> Comp runU ts rem) /\
  (forall ts rem, vpost f ts = ErrE rem -> Comp runP ts rem) /\
  (forall a ts rem, WFk (S L) a -> vsuffix f a ts = ErrE rem -> Comp (runS a) ts rem) /\
  (forall ts rem, vargs f ts = ErrE rem -> Comp runA ts rem) /\
  (forall ts rem, vprim f ts = ErrE rem -> Comp runPr ts rem).

Ltac nf := repeat first [rewrite <- !app_assoc | progress (cbn [app])].
Ltac nfh H := repeat first [rewrite <- !app_assoc in H | progress (cbn [app] in H)].

Lemma viable : forall f, ViableAt f.
Proof.
  induction f as [|f (Ie & Il & Ilo & Iu & Ip & Is & Ia & Ipr)]; unfold ViableAt.
  { split; [|split; [|split; [|split; [|split; [|split; [|split]]]]]]; intros; simpl in *; discriminate. }
  split; [|split; [|split; [|split; [|split; [|split; [|split]]]]]].
  - (* vexpr *)
    intros ts rem H. cbn [ParserSpike_ErrPos.vexpr] in H. apply bindE_err in H. destruct H as [H|([l r] & E & H)].
    + destruct (Il 0 _ _ ltac:(lia) H) as (pre & w & -> & [B|C]); exists pre, w; split; auto.
      right. intros u Hu. destruct (C u Hu) as (f1 & e & H1).
      exists (S f1), e. rewrite pexpr_S, H1. simpl. destruct Hu as (_ & Hu). destruct u as [|[] ?]; auto. contradiction.
    + destruct (s_level _ _ _ _ _ E ltac:(lia)) as (Wl & ->). cbv beta iota in H.
      destruct r as [|t r']; [discriminate|]. destruct t; try discriminate.
      apply bindE_err in H. destruct H as [H|([v r''] & E2 & H)].
      * (* value fails *)
        destruct (Ie _ _ H) as (pre & w & -> & [B|C]).
        { exists (flat l ++ TEq :: pre), w. split; [now rewrite <- app_assoc|]. left. apply BadIn_app, BadIn_cons, B. }
        destruct (is_target l) eqn:T.
        { exists (flat l ++ TEq :: pre), w. split; [now rewrite <- app_assoc|]. right. intros u Hu.
          destruct (C u Hu) as (f1 & v & H1).
          destruct (c_level 0 l (TEq :: (pre ++ w) ++ u) ltac:(lia) Wl (hdok_eq _ _ _)) as (f2 & H2).
          exists (S (f1 + f2)), (EAssign l v). rewrite pexpr_S. nf. nfh H1. nfh H2.
          erewrite m_plevel; [|exact H2|lia]. cbn [bind]. cbv beta iota.
          erewrite m_pexpr; [|exact H1|lia]. cbn [bind]. cbv beta iota. rewrite T. reflexivity. }
        { exists (flat l ++ TEq :: pre), w. split; [now rewrite <- app_assoc|]. left.
          exists [], l, pre. simpl. auto. }
      * (* value parsed, target rejected: reported at '=' *)
        cbv beta iota in H. destruct (is_target l) eqn:T; [discriminate|]. inv H.
        exists (flat l), []. split; auto. right. intros u Hu. rewrite app_nil_r.
        destruct (c_expr l u (WFe_lvl _ _ _ _ Wl) Hu) as (f1 & H1). exists f1, l. exact H1.
  - (* vlevel *)
    intros k ts rem Hk H. cbn [ParserSpike_ErrPos.vlevel] in H. destruct (k <? L) eqn:Ek.
    + apply Nat.ltb_lt in Ek. apply bindE_err in H. destruct H as [H|([l r] & E & H)].
      * destruct (Il (S k) _ _ ltac:(lia) H) as (pre & w & -> & [B|C]); exists pre, w; split; auto.
        right. intros u Hu. destruct (C u Hu) as (f1 & e & H1).
        exists (S (S f1)), e. rewrite plevel_S. apply Nat.ltb_lt in Ek. rewrite Ek.
        erewrite m_plevel; [|exact H1|lia]. simpl. apply hdok_stop. apply hdoke_hdok; auto.
      * destruct (s_level _ _ _ _ _ E ltac:(lia)) as (Wl & ->). cbv beta iota in H.
        destruct (Ilo k l _ _ Ek ltac:(eapply WFk_le; eauto) H) as (o & p' & w & -> & Ho & [B|C]).
        { exists (flat l ++ TOp o :: p'), w. split; [now rewrite <- app_assoc|]. left. apply BadIn_app, B. }
        exists (flat l ++ TOp o :: p'), w. split; [now rewrite <- app_assoc|]. right. intros u Hu.
        destruct (C u Hu) as (f1 & e & H1).
        destruct (c_level (S k) l (((TOp o :: p') ++ w) ++ u) ltac:(lia) Wl) as (f2 & H2).
        { simpl. repeat split; try congruence. intros j Hj. eapply inlevel_other; eauto. lia. }
        exists (S (f1 + f2)), e. rewrite plevel_S. apply Nat.ltb_lt in Ek. rewrite Ek. nf. nfh H1. nfh H2.
        erewrite m_plevel; [|exact H2|lia]. cbn [bind]. cbv beta iota.
        eapply m_ploop; [exact H1|lia].
    + destruct (Iu _ _ H) as (pre & w & -> & [B|C]); exists pre, w; split; auto.
      right. intros u Hu. destruct (C u Hu) as (f1 & e & H1). exists (S f1), e. rewrite plevel_S, Ek. exact H1.
  - (* vloop *)
    intros k a ts rem Hk Wa H. cbn [ParserSpike_ErrPos.vloop] in H.
    destruct ts as [|t r]; [discriminate|]. destruct (inlevel oplevel k t) as [o|] eqn:EI; [|discriminate].
    destruct (inlevel_inv _ _ _ _ EI) as (-> & Ho).
    apply bindE_err in H. destruct H as [H|([rt r'] & E & H)].
    + destruct (Il (S k) _ _ ltac:(lia) H) as (pre & w & -> & [B|C]); exists o, pre, w; (split; [reflexivity|split; [auto|]]).
      * left. apply BadIn_cons, B.
      * right. intros u Hu. destruct (C u Hu) as (f1 & e & H1).
        exists (S (S f1)), (EBin o a e). rewrite ploop_S. nf. rewrite EI. nfh H1.
        erewrite m_plevel; [|exact H1|lia]. cbn [bind]. cbv beta iota. apply hdok_stop. apply hdoke_hdok; auto.
    + destruct (s_level _ _ _ _ _ E ltac:(lia)) as (Wr & ->). cbv beta iota in H.
      destruct (Ilo k (EBin o a rt) _ _ Hk ltac:(econstructor; eauto) H) as (o2 & p' & w & -> & Ho2 & [B|C]);
        exists o, (flat rt ++ TOp o2 :: p'), w; (split; [simpl; now rewrite <- app_assoc|split; [auto|]]).
      * left. apply BadIn_cons, BadIn_app, B.
      * right. intros u Hu. destruct (C u Hu) as (f1 & e & H1).
        destruct (c_level (S k) rt (((TOp o2 :: p') ++ w) ++ u) ltac:(lia) Wr) as (f2 & H2).
        { simpl. repeat split; try congruence. intros j Hj. eapply inlevel_other; eauto. lia. }
        exists (S (f1 + f2)), e. rewrite ploop_S. nf. rewrite EI. nfh H1. nfh H2.
        erewrite m_plevel; [|exact H2|lia]. cbn [bind]. cbv beta iota.
        eapply m_ploop; [exact H1|lia].
  - (* vunary *)
    intros ts rem H. cbn [ParserSpike_ErrPos.vunary] in H.
    assert (Post: forall ts0, vpost f ts0 = ErrE rem -> Comp runU ts0 rem).
    { intros ts0 H0. destruct (Ip _ _ H0) as (pre & w & -> & [B|C]); exists pre, w; split; auto.
      right. intros u Hu. destruct (C u Hu) as (f1 & e & H1).
      (* the completed text starts with a primary, hence not with a unary operator *)
      destruct (sound L oplevel isun f1) as (_ & _ & _ & _ & Sp & _).
      destruct (Sp _ _ _ H1) as (We & EQ).
      destruct (flat_start_post L oplevel isun oplevel_lt _ e (le_n _) We) as (t & r0 & Et & St).
      exists (S f1), e. rewrite punary_S.
      assert (HX: exists t' r1, (pre ++ w) ++ u = t' :: r1 /\ pstarter t').
      { rewrite EQ, Et. simpl. eauto. }
      destruct HX as (t' & r1 & EX & St'). rewrite EX in *.
      destruct t'; simpl in St'; try contradiction; exact H1. }
    destruct ts as [|t r]; [auto|]. destruct t; auto. destruct (isun o) eqn:U; auto.
    apply bindE_err in H. destruct H as [H|([e r'] & E & H)]; [|discriminate].
    destruct (Iu _ _ H) as (pre & w & -> & [B|C]); exists (TOp o :: pre), w; (split; [reflexivity|]).
    + left. apply BadIn_cons, B.
    + right. intros u Hu. destruct (C u Hu) as (f1 & e & H1). exists (S f1), (EUn o e).
      rewrite punary_S. simpl. rewrite U, H1. reflexivity.
  - (* vpost *)
    intros ts rem H. cbn [ParserSpike_ErrPos.vpost] in H. apply bindE_err in H. destruct H as [H|([e0 r0] & E & H)].
    + destruct (Ipr _ _ H) as (pre & w & -> & [B|C]); exists pre, w; split; auto.
      right. intros u Hu. destruct (C u Hu) as (f1 & e & H1). exists (S (S f1)), e.
      rewrite ppost_S. erewrite m_pprim; [|exact H1|lia]. simpl. apply hdoke_not_suffix; auto.
    + destruct (s_prim _ _ _ _ E) as (W0 & ->). cbv beta iota in H.
      destruct (Is e0 _ _ W0 H) as (pre & w & -> & [B|C]).
      { exists (flat e0 ++ pre), w. split; [now rewrite <- app_assoc|]. left. apply BadIn_app, B. }
      exists (flat e0 ++ pre), w. split; [now rewrite <- app_assoc|]. right. intros u Hu.
      destruct (C u Hu) as (f1 & e & H1).
      destruct (c_post e0 ((pre ++ w) ++ u) f1 _ W0 H1) as (f2 & H2).
      exists f2, e. nf. nfh H2. exact H2.
  - (* vsuffix *)
    intros a ts rem Wa H. cbn [ParserSpike_ErrPos.vsuffix] in H.
    destruct ts as [|t r]; [discriminate|]. destruct t; try discriminate.
    + (* TLP *)
      assert (ArgsCase: forall r1, (bindE (vargs f r1) (fun p => let '(args, r') := p in
                 match r' with TRP :: r'' => vsuffix f (ECall a args) r'' | _ => ErrE r' end)) = ErrE rem ->
                 (forall r2, r1 <> TRP :: r2) -> Comp (runS a) (TLP :: r1) rem).
      { intros r1 H1 NotRP. apply bindE_err in H1. destruct H1 as [H1|([args r'] & E & H1)].
        - destruct (Ia _ _ H1) as (pre & w & -> & [B|C]).
          { exists (TLP :: pre), (w ++ [TRP]). split; [reflexivity|]. left. apply BadIn_cons, B. }
          exists (TLP :: pre), (w ++ [TRP]). split; [reflexivity|]. right. intros u Hu.
          destruct (C u Hu) as (f1 & es & H2).
          destruct (sound L oplevel isun f1) as (_ & _ & _ & _ & _ & _ & Sa & _).
          destruct (Sa _ _ _ H2) as (Wes & Ne & EQ).
          exists (S (S f1)), (ECall a es). rewrite psuffix_S. nf. nfh H2.
          assert (exists t0 r0, pre ++ w ++ TRP :: u = t0 :: r0 /\ t0 <> TRP) as (t0 & r0 & Et & Nt).
          { nfh EQ. rewrite EQ. destruct (args_start es Wes Ne) as (t0 & r0 & E0 & N0). rewrite E0. simpl. eauto. }
          rewrite Et in *. destruct t0; try congruence;
            (erewrite m_pargs; [|exact H2|lia]); cbn [bind]; cbv beta iota; apply hdoke_not_suffix; auto.
        - destruct (s_args _ _ _ _ E) as (Wes & Ne & ->). cbv beta iota in H1.
          assert (Start: exists t0 r0, flatargs args = t0 :: r0 /\ t0 <> TRP) by (apply args_start; auto).
          destruct Start as (t0 & r0 & Et & Nt).
          assert (Sub: (exists r'', r' = TRP :: r'' /\ Comp (runS (ECall a args)) r'' rem) \/ (rem = r' /\ forall r'', r' <> TRP :: r'')).
          { destruct r' as [|t' r'']; [right; inv H1; split; auto; congruence|].
            destruct t'; try (right; inv H1; split; auto; congruence).
            left. exists r''. split; auto. apply (Is (ECall a args) _ _ ltac:(constructor; auto) H1). }
          destruct Sub as [(r'' & -> & pre & w & -> & [B|C])|(-> & NotRP')].
          + (* the later suffix fails *)
            exists (TLP :: flatargs args ++ TRP :: pre), w. split; [nf; reflexivity|].
            left. apply BadIn_cons, BadIn_app, BadIn_cons, B.
          + exists (TLP :: flatargs args ++ TRP :: pre), w. split; [nf; reflexivity|].
            right. intros u Hu. destruct (C u Hu) as (f1 & e & H2).
            destruct (c_args args ((pre ++ w) ++ u) Wes Ne) as (f2 & H3).
            exists (S (f1 + f2)), e. rewrite psuffix_S. nf. nfh H2. nfh H3.
            rewrite Et in *. destruct t0; try congruence;
              (erewrite m_pargs; [|exact H3|lia]); cbn [bind]; cbv beta iota; (eapply m_psuffix; [exact H2|lia]).
          + (* missing ')' *)
            exists (TLP :: flatargs args), [TRP]. split; [reflexivity|]. right. intros u Hu.
            destruct (c_args args u Wes Ne) as (f2 & H3).
            exists (S (S f2)), (ECall a args). rewrite psuffix_S. nf. nfh H3.
            rewrite Et in *. destruct t0; try congruence;
              (erewrite m_pargs; [|exact H3|lia]); cbn [bind]; cbv beta iota; apply hdoke_not_suffix; auto. }
      destruct r as [|t2 r2]; [apply ArgsCase; [exact H|congruence]|].
      destruct t2; try (apply ArgsCase; [exact H|congruence]).
      (* TLP :: TRP :: r2 *)
      destruct (Is (ECall a []) _ _ ltac:(constructor; auto) H) as (pre & w & -> & [B|C]).
      { exists (TLP :: TRP :: pre), w. split; [reflexivity|]. left. apply BadIn_cons, BadIn_cons, B. }
      exists (TLP :: TRP :: pre), w. split; [reflexivity|]. right. intros u Hu.
      destruct (C u Hu) as (f1 & e & H1). exists (S f1), e. rewrite psuffix_S. simpl. exact H1.
    + (* TLB *)
      apply bindE_err in H. destruct H as [H|([i r'] & E & H)].
      * destruct (Ie _ _ H) as (pre & w & -> & [B|C]).
        { exists (TLB :: pre), (w ++ [TRB]). split; [reflexivity|]. left. apply BadIn_cons, B. }
        exists (TLB :: pre), (w ++ [TRB]). split; [reflexivity|]. right. intros u Hu.
        destruct (C (TRB :: u) (hdoke_sepT _ _ (or_intror (or_intror eq_refl)))) as (f1 & e & H1).
        exists (S (S f1)), (EIdx a e). rewrite psuffix_S. nf. nfh H1.
        erewrite m_pexpr; [|exact H1|lia]. cbn [bind]. cbv beta iota. apply hdoke_not_suffix; auto.
      * destruct (s_expr _ _ _ _ E) as (Wi & ->). cbv beta iota in H.
        assert (Sub: (exists r'', r' = TRB :: r'' /\ Comp (runS (EIdx a i)) r'' rem) \/ (rem = r' /\ forall r'', r' <> TRB :: r'')).
        { destruct r' as [|t' r'']; [right; inv H; split; auto; congruence|].
          destruct t'; try (right; inv H; split; auto; congruence).
          left. exists r''. split; auto. apply (Is (EIdx a i) _ _ ltac:(constructor; auto) H). }
        destruct Sub as [(r'' & -> & pre & w & -> & [B|C])|(-> & NotRB)].
        -- exists (TLB :: flat i ++ TRB :: pre), w. split; [nf; reflexivity|].
           left. apply BadIn_cons, BadIn_app, BadIn_cons, B.
        -- exists (TLB :: flat i ++ TRB :: pre), w. split; [nf; reflexivity|].
           right. intros u Hu. destruct (C u Hu) as (f1 & e & H2).
           destruct (c_expr i (TRB :: (pre ++ w) ++ u) Wi (hdoke_sepT _ _ (or_intror (or_intror eq_refl)))) as (f2 & H3).
           exists (S (f1 + f2)), e. rewrite psuffix_S. nf. nfh H2. nfh H3.
           erewrite m_pexpr; [|exact H3|lia]. cbn [bind]. cbv beta iota. eapply m_psuffix; [exact H2|lia].
        -- exists (TLB :: flat i), [TRB]. split; [reflexivity|]. right. intros u Hu.
           destruct (c_expr i (TRB :: u) Wi (hdoke_sepT _ _ (or_intror (or_intror eq_refl)))) as (f2 & H3).
           exists (S (S f2)), (EIdx a i). rewrite psuffix_S. nf.
           erewrite m_pexpr; [|exact H3|lia]. cbn [bind]. cbv beta iota. apply hdoke_not_suffix; auto.
  - (* vargs *)
    intros ts rem H. cbn [ParserSpike_ErrPos.vargs] in H. apply bindE_err in H. destruct H as [H|([e r] & E & H)].
    + destruct (Ie _ _ H) as (pre & w & -> & [B|C]); exists pre, w; split; auto.
      right. intros u Hu. destruct (C (TRP :: u) (hdoke_sepT _ _ (or_introl eq_refl))) as (f1 & e & H1).
      exists (S f1), [e]. rewrite pargs_S, H1. reflexivity.
    + destruct (s_expr _ _ _ _ E) as (We & ->). cbv beta iota in H.
      destruct r as [|t r']; [discriminate|]. destruct t; try discriminate.
      apply bindE_err in H. destruct H as [H|([es r''] & E2 & H)]; [|discriminate].
      destruct (Ia _ _ H) as (pre & w & -> & [B|C]).
      { exists (flat e ++ TComma :: pre), w. split; [now rewrite <- app_assoc|]. left. apply BadIn_app, BadIn_cons, B. }
      exists (flat e ++ TComma :: pre), w. split; [now rewrite <- app_assoc|]. right. intros u Hu.
      destruct (C u Hu) as (f1 & es & H1).
      destruct (c_expr e (TComma :: (pre ++ w) ++ TRP :: u) We (hdoke_sepT _ _ (or_intror (or_introl eq_refl)))) as (f2 & H2).
      exists (S (f1 + f2)), (e :: es). rewrite pargs_S. nf. nfh H1. nfh H2.
      erewrite m_pexpr; [|exact H2|lia]. cbn [bind]. cbv beta iota. erewrite m_pargs; [|exact H1|lia]. reflexivity.
  - (* vprim *)
    intros ts rem H. cbn [ParserSpike_ErrPos.vprim] in H.
    assert (Here: @ErrE (expr * list tok) ts = ErrE rem -> Comp runPr ts rem).
    { intros H0; inv H0. exists [], [TNum 0]. split; [reflexivity|]. right. intros u _. exists 1, (ENum 0). reflexivity. }
    destruct ts as [|t r]; [auto|]. destruct t; try discriminate; auto.
    apply bindE_err in H. destruct H as [H|([e r'] & E & H)].
    + destruct (Ie _ _ H) as (pre & w & -> & [B|C]).
      { exists (TLP :: pre), (w ++ [TRP]). split; [reflexivity|]. left. apply BadIn_cons, B. }
      exists (TLP :: pre), (w ++ [TRP]). split; [reflexivity|]. right. intros u Hu.
      destruct (C (TRP :: u) (hdoke_sepT _ _ (or_introl eq_refl))) as (f1 & e & H1).
      exists (S f1), (EGroup e). rewrite pprim_S. nf. nfh H1.
      rewrite H1. reflexivity.
    + destruct (s_expr _ _ _ _ E) as (We & ->). cbv beta iota in H.
      assert (rem = r') by (destruct r' as [|[] ?]; inv H; auto). subst r'.
      exists (TLP :: flat e), [TRP]. split; [reflexivity|]. right. intros u Hu.
      destruct (c_expr e (TRP :: u) We (hdoke_sepT _ _ (or_introl eq_refl))) as (f2 & H3).
      exists (S f2), (EGroup e). rewrite pprim_S. nf.
      rewrite H3. reflexivity.
Qed.

(* top level: the tokens before the first error, suitably extended, are accepted — or they already contain an
   assignment whose left side is not assignable *)
Theorem viable_before_error f ts rem :
  vexpr f ts = ErrE rem ->
  exists pre w, ts = pre ++ rem /\ (BadIn pre \/ exists f' e, pexpr f' (pre ++ w) = Ok (e, [])).
Proof.
  intros H. destruct (viable f) as (V & _). destruct (V _ _ H) as (pre & w & -> & [B|C]); exists pre, w; split; auto.
  right. destruct (C [] (conj I I)) as (f1 & e & H1). rewrite app_nil_r in H1. eauto.
Qed.
End S.
Print Assumptions viable_before_error.
